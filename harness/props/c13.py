"""C13 — text extraction returns exactly the interesting strings, in document order.

Trees come from three sources (each a JSON-able *recipe*, so every case can be replayed):
  events : a builder event list replayed through the public handle_* methods (treeimpl.EventBuilder)
           under a configuration of string containers (every string class at every position),
  markup : a document parsed by the real html.parser builder under a constructor configuration
           (default, string_containers={}, custom string_containers, element_classes),
  nested : a tree assembled with the public constructors and append() (every class, custom
           interesting_string_types, BeautifulSoup roots and detached tags),
each optionally followed by an *edit history* (insert / append / extend / insert_before / insert_after /
replace_with / extract / wrap / unwrap / clear / decompose / smooth / .string= / copy with elements of
every class).  For every reached state the six links of every object are dumped and sent, with the
class payload and the queries, to the extracted model (Model/Text.v: the chain walk); the same queries
run on the real objects; and the direct oracle — an independent recursive evaluator over .contents —
says what the property requires.
"""
import copy, itertools, json, warnings
import treeimpl as T
import histgen as G
from bs4 import BeautifulSoup
from bs4.element import (Tag, NavigableString, PageElement, Comment, CData, ProcessingInstruction,
                         XMLProcessingInstruction, Declaration, Doctype, Stylesheet, Script, TemplateString,
                         RubyTextString, RubyParenthesisString, PreformattedString)

RULE = ("exhaustive: every tree with <=3 (quick) / <=4 (thorough) nodes below a root (all forest shapes; inner nodes "
        "ordinary / script / custom-set tags; leaves: empty tag or a string of one of 7 (quick) classes with "
        "padded / blank / empty text; root a BeautifulSoup object or a detached tag) x every element x strip x 10 forms "
        "of the types argument x 2 separators, plus .strings/.stripped_strings/.text/.string; event-built documents "
        "(3 container configurations, explicit classes at every position) and html.parser-parsed documents (6 "
        "constructor configurations) generated from a grammar incl. script/style/template/ruby, comments, CDATA, "
        "doctype, declarations, PIs and malformed markup; seeded random edit histories (quick 400 x 12 steps, "
        "thorough 3000 x 20) with strings of all 15 classes and tags with custom interesting_string_types, queried "
        "after every step; deep only-child chains (depths 100, 999, 1000, 1001, 3000; parsed and assembled through the "
        "API; strings of several classes at several levels) with .string / get_text / .strings / .stripped_strings at levels "
        "around the ends, the middle and 999..1001 above the leaf; written documents with generator ground truth (class and text of every string; the CDATA "
        "keyword in all 32 letter-case spellings); the text generators consumed step by step while the consumer replaces / "
        "extracts / wraps the string just handed out (every exhaustive tree's root, random elements of parsed and edited "
        "trees) against the list taken before the loop. Non-trivial: the element has >=1 string beneath it. Distinct by (recipe, history, query).")
ASSUMPTIONS = [
    "generators are modelled as lists on a fixed heap; their behaviour under edits between two steps (successor saved before the yield) is checked by the direct oracle on the implementation only",
    "Python class identity / set membership of classes interned as numbers (type(x) is c, type(x) in types)",
    "str.strip() / str.join are the interpreter's; the whitespace set is generated from the interpreter (Gen/Stdlib.v) and compared on every code point below 0x3100 (all 0x110000 in the thorough tier)",
    "the heap handed to the model is the dump of the real objects' six links (consistency = hypothesis rep of the theorems, checked on every dump)",
    "the stdlib tokenizer decides what is character data / comment / CDATA section in parsed documents",
]


class MyStr(NavigableString):
    pass


class MyStr2(NavigableString):
    pass


class SubComment(Comment):
    pass


ALLC = list(T.CLASSES) + [MyStr, MyStr2, SubComment]
CID = {c: i for i, c in enumerate(ALLC)}
NAV, CDATA, COMMENT, STYLE, SCRIPT, TEMPLATE, RT, RP = 0, 1, 4, 7, 8, 9, 10, 11

# ---- what the property text fixes (independent of the implementation's constants) ----
ORDINARY = frozenset([NavigableString, CData])
DOC_CONTAINERS = {"script": Script, "style": Stylesheet, "template": TemplateString, "rt": RubyTextString,
                  "rp": RubyParenthesisString}
SPECIAL = (PreformattedString, Stylesheet, Script, TemplateString, RubyTextString, RubyParenthesisString)


def trim(s):
    """str.strip() stated independently: drop isspace() characters from both ends."""
    i, j = 0, len(s)
    while i < j and s[i].isspace():
        i += 1
    while j > i and s[j - 1].isspace():
        j -= 1
    return s[i:j]


def joined(sep, pieces):
    out = []
    for k, p in enumerate(pieces):
        if k:
            out.append(sep)
        out.append(p)
    return "".join(out)


# ------------------------------------------------------------------------------------ recipes
CFGS = {
    "html": T.HTML_CFG,
    "xml": T.XML_CFG,
    "custom": {"void": ["a"], "pw": ["b", "pre"], "containers": {"a": SCRIPT, "pre": RT, "b": 12, "i": COMMENT}},
}

MARKUP_CONFIGS = {
    "default": {},
    "no-containers": {"containers": {}},
    "custom-containers": {"containers": {"b": 12, "p": TEMPLATE, "script": SCRIPT}},
    "replace-text-class": {"element_classes": {"0": 12}},
    "replace-cdata-class": {"element_classes": {"1": 13}},
    "replace-script-class": {"element_classes": {"8": 13}},
}


class EventBuilder13(T.EventBuilder):
    """treeimpl.EventBuilder with the class numbering of this harness (custom classes as containers)."""

    def __init__(self, events, cfg, **kw):
        from bs4.builder import TreeBuilder
        self.events = events
        self.reject_after = None
        TreeBuilder.__init__(self, multi_valued_attributes=None, preserve_whitespace_tags=set(cfg["pw"]),
                             string_containers={k: ALLC[v] for k, v in cfg["containers"].items()},
                             empty_element_tags=None if cfg["void"] is None else set(cfg["void"]), **kw)


class World:
    """A forest of real objects with stable ids, plus what the generator knows about each tag
    (the set it is expected to count, from how it was made)."""

    def __init__(self):
        self.forest = T.Forest()
        self.expect = {}         # id(tag) -> frozenset of classes the property says it counts
        self.soup = None
        self.containers = {}     # name -> class of the builder that parsed the document
        self.parsed = False      # unedited parse result (position-based clause applies)
        self.element_classes = {}

    def reg(self, o, expect=None):
        i = self.forest.add(o)
        if isinstance(o, Tag):
            self.expect[id(o)] = ORDINARY if expect is None else expect
        return i

    def reg_tree(self, root, by_name=None):
        for o in T.preorder(root):
            if id(o) in self.forest.ids:
                continue
            e = None
            if isinstance(o, Tag) and by_name is not None and not isinstance(o, BeautifulSoup) and o.name in by_name:
                e = frozenset([by_name[o.name]])
            self.reg(o, e)

    def discover(self):
        """Objects created inside the library by the last call (strings made from str arguments,
        merged strings of smooth(), the string of .string=): register them in walk order."""
        f = self.forest
        for o in list(f.objs):
            if f.dead(o) or not isinstance(o, Tag):
                continue
            for x in T.preorder(o)[1:]:
                if id(x) not in f.ids:
                    self.reg(x)

    def live(self):
        f = self.forest
        return [i for i, o in enumerate(f.objs) if not f.dead(o)]


def norm_events(evs):
    out = []
    for e in evs:
        e = tuple(e)
        if e[0] == "s":
            e = (e[0], e[1], e[2], [tuple(a) for a in e[3]])
        out.append(e)
    return out


def make_world(recipe):
    w = World()
    kind = recipe["kind"]
    with warnings.catch_warnings():
        warnings.simplefilter("ignore")
        if kind == "events":
            cfg = CFGS[recipe["cfg"]] if isinstance(recipe["cfg"], str) else recipe["cfg"]
            soup = BeautifulSoup("x", builder=EventBuilder13(norm_events(recipe["events"]), cfg))
            w.soup = soup
            w.containers = {k: ALLC[v] for k, v in cfg["containers"].items()}
            w.reg_tree(soup, w.containers)
            w.parsed = True
        elif kind == "markup":
            conf = MARKUP_CONFIGS[recipe["config"]] if isinstance(recipe["config"], str) else recipe["config"]
            kw = {}
            if "containers" in conf:
                kw["string_containers"] = {k: ALLC[v] for k, v in conf["containers"].items()}
                w.containers = dict(kw["string_containers"])
            else:
                w.containers = dict(DOC_CONTAINERS)
            if "element_classes" in conf:
                kw["element_classes"] = {ALLC[int(k)]: ALLC[v] for k, v in conf["element_classes"].items()}
                w.element_classes = kw["element_classes"]
            soup = BeautifulSoup(recipe["markup"], "html.parser", **kw)
            w.soup = soup
            w.reg_tree(soup, w.containers)
            w.parsed = True
        elif kind == "nested":
            root = make_node(w, recipe["tree"], None)
        elif kind == "chain":
            make_chain(w, recipe)
        else:
            raise ValueError(kind)
    for op in recipe.get("ops", []):
        apply_op(w, op)
    return w


def chain_markup(recipe):
    """<i> nested `depth` times around a leaf string, with further strings (text 0 / CDATA 1 / comment 4) as children of
    the chain element at the given levels (level 0 = the document), before or after the next chain element."""
    d = recipe["depth"]
    form = {0: "%s", 1: "<![CDATA[%s]]>", 4: "<!--%s-->"}
    at = {}
    for lvl, cls, text, where in recipe.get("extras", []):
        at.setdefault((lvl, where), []).append(form[cls] % text)
    parts = []
    for k in range(d):
        parts.extend(at.get((k, "before"), []))
        parts.append("<i>")
    parts.extend(at.get((d, "before"), []))
    if recipe.get("leaf") is not None:
        parts.append(form[recipe["leaf"][0]] % recipe["leaf"][1])
    parts.extend(at.get((d, "after"), []))
    for k in range(d - 1, -1, -1):
        parts.append("</i>")
        parts.extend(at.get((k, "after"), []))
    return "".join(parts)


def make_chain(w, recipe):
    """A deep only-child chain, parsed by html.parser or assembled through the API (no recursion in the harness)."""
    if recipe["via"] == "parse":
        soup = BeautifulSoup(chain_markup(recipe), "html.parser")
        w.soup = soup
        w.containers = dict(DOC_CONTAINERS)
        w.reg_tree(soup, w.containers)
        w.parsed = True
        return
    at = {}
    for lvl, cls, text, where in recipe.get("extras", []):
        at.setdefault((lvl, where), []).append((cls, text))
    root = BeautifulSoup("", "html.parser") if recipe.get("root", "soup") == "soup" else Tag(name="div")
    w.reg(root)
    if isinstance(root, BeautifulSoup):
        w.soup = root
        w.containers = dict(DOC_CONTAINERS)
    cur = root
    d = recipe["depth"]
    for k in range(d + 1):
        for cls, text in at.get((k, "before"), []):
            o = ALLC[cls](text); w.reg(o); cur.append(o)
        if k < d:
            t = Tag(name="i"); w.reg(t); cur.append(t)
        elif recipe.get("leaf") is not None:
            o = ALLC[recipe["leaf"][0]](recipe["leaf"][1]); w.reg(o); cur.append(o)
        for cls, text in at.get((k, "after"), []):
            o = ALLC[cls](text); w.reg(o); cur.append(o)
        if k < d:
            cur = t


def chain_levels(w):
    """The chain elements, outermost first (level 0 = the root), found by walking down the last tag child."""
    out = [w.forest.objs[0]]
    while True:
        nxt = [c for c in out[-1].contents if isinstance(c, Tag)]
        if not nxt:
            return out
        out.append(nxt[-1])


def make_node(w, spec, parent):
    """spec: ["soup", kids] | ["tag", mode, name, ist, kids] | ["str", class id, text].
    mode 0: Tag(name=...)   1: Tag(name=..., interesting_string_types={...})   2: soup.new_tag(name)"""
    if spec[0] == "soup":
        o = BeautifulSoup("", "html.parser")
        w.reg(o)
        if w.soup is None:
            w.soup = o
            w.containers = dict(DOC_CONTAINERS)
        for k in spec[1]:
            make_node(w, k, o)
        return o
    if spec[0] == "str":
        o = ALLC[spec[1]](spec[2])
        w.reg(o)
        if parent is not None:
            parent.append(o)
        return o
    _, mode, name, ist, kids = spec
    o = new_tag(w, mode, name, ist)
    if parent is not None:
        parent.append(o)
    for k in kids:
        make_node(w, k, o)
    return o


def new_tag(w, mode, name, ist):
    if mode == 2 and w.soup is None:
        mode = 0
    if mode == 1:
        s = set(ALLC[c] for c in ist)
        o = Tag(name=name, interesting_string_types=s)
        w.reg(o, frozenset(s))
    elif mode == 2:
        # soup.new_tag(name) makes the tag with the soup's builder: a container name gets its class
        o = w.soup.new_tag(name)
        w.reg(o, frozenset([w.containers[name]]) if name in w.containers else ORDINARY)
    else:
        o = Tag(name=name)
        w.reg(o)
    return o


def arg_of(w, a):
    return w.forest.objs[a[1]] if a[0] == "o" else a[1]


def apply_op(w, op):
    """Apply one editing call. Returns "ok" | "ValueError" | "EXC:<name>"."""
    f = w.forest
    o = f.objs
    w.parsed = False
    try:
        with warnings.catch_warnings():
            warnings.simplefilter("ignore")
            c = op[0]
            if c == "new_str":
                w.reg(ALLC[op[1]](op[2]))
            elif c == "new_tag":
                new_tag(w, op[1], op[2], op[3])
            elif c == "new_soup":
                w.reg(BeautifulSoup("", "html.parser"))
            elif c == "set_ist":
                t = o[op[1]]
                if op[2] is None:
                    t.interesting_string_types = None
                    w.expect[id(t)] = ORDINARY
                else:
                    t.interesting_string_types = set(ALLC[k] for k in op[2])
                    w.expect[id(t)] = frozenset(ALLC[k] for k in op[2])
            elif c == "soup_new_string":
                base = None if op[1] is None else ALLC[op[1]]
                sobj = w.soup.new_string(op[2], base) if w.soup is not None else (base or NavigableString)(op[2])
                want = base or NavigableString
                want = w.element_classes.get(want, want)
                if type(sobj) is not want:
                    raise AssertionError("new_string class %s, expected %s" % (type(sobj).__name__, want.__name__))
                w.reg(sobj)
            elif c == "append":
                o[op[1]].append(arg_of(w, op[2]))
            elif c == "insert":
                o[op[1]].insert(op[2], *[arg_of(w, a) for a in op[3]])
            elif c == "extend":
                o[op[1]].extend([arg_of(w, a) for a in op[2]])
            elif c == "insert_before":
                o[op[1]].insert_before(*[arg_of(w, a) for a in op[2]])
            elif c == "insert_after":
                o[op[1]].insert_after(*[arg_of(w, a) for a in op[2]])
            elif c == "replace_with":
                o[op[1]].replace_with(*[arg_of(w, a) for a in op[2]])
            elif c == "extract":
                o[op[1]].extract()
            elif c == "wrap":
                o[op[1]].wrap(o[op[2]])
            elif c == "unwrap":
                o[op[1]].unwrap()
            elif c == "decompose":
                o[op[1]].decompose()
            elif c == "clear":
                o[op[1]].clear(decompose=bool(op[2]))
            elif c == "set_string":
                o[op[1]].string = arg_of(w, op[2])
            elif c == "smooth":
                o[op[1]].smooth()
            elif c == "copy":
                src = o[op[1]]
                dup = copy.copy(src)
                # a copy counts what its original counts
                pairs = list(zip(T.preorder(src), T.preorder(dup))) if isinstance(src, Tag) else [(src, dup)]
                for a, b in pairs:
                    w.reg(b, w.expect.get(id(a)) if isinstance(a, Tag) else None)
            else:
                raise KeyError(c)
        w.discover()
        return "ok"
    except (ValueError, NotImplementedError):
        w.discover()
        return "ValueError"
    except AssertionError as e:
        w.discover()
        return "ASSERT:" + str(e)
    except Exception as e:          # not this property's business; the state is still dumped and compared
        w.discover()
        return "EXC:" + type(e).__name__


# ------------------------------------------------------------------------------------ random histories
TEXTS = ["x", " y ", "\n", "  ", "", "a b", "\xa0z ", "\tq\r\n", " ", "w\x1f", "é", "\x0b", "0"]
NAMES = ["p", "b", "div", "script", "style", "template", "rt", "rp", "ruby", "a", "pre", "i"]


def random_op(rng, w):
    f = w.forest
    live = w.live()
    tags = [i for i in live if isinstance(f.objs[i], Tag)]
    strs = [i for i in live if not isinstance(f.objs[i], Tag)]

    def anc_or_self(i):
        out = set()
        x = f.objs[i]
        while x is not None:
            out.add(id(x))
            x = x.parent
        return out

    def fresh_arg():
        if rng.random() < 0.5:
            return ["s", rng.choice(TEXTS)]
        return None

    def pick_args(dest, exclude=()):
        anc = anc_or_self(dest)
        pool = [i for i in live if id(f.objs[i]) not in anc and i not in exclude
                and not (isinstance(f.objs[i], BeautifulSoup) and (not f.objs[i].contents or any(id(c) in anc for c in f.objs[i].contents)))]
        k = rng.choice([1, 1, 1, 2, 3])
        args, used = [], set()
        for _ in range(k):
            cand = [i for i in pool if i not in used]
            if not cand or rng.random() < 0.3:
                args.append(["s", rng.choice(TEXTS)])
            else:
                x = rng.choice(cand)
                used.add(x)
                if isinstance(f.objs[x], BeautifulSoup):
                    for c2 in f.objs[x].contents:
                        used.add(f.oid(c2))
                args.append(["o", x])
        # no element twice (directly or through a BeautifulSoup argument)
        flat = []
        for a in args:
            if a[0] == "o":
                ob = f.objs[a[1]]
                flat.extend([id(c) for c in ob.contents] if isinstance(ob, BeautifulSoup) else [id(ob)])
        if len(flat) != len(set(flat)):
            return [["s", rng.choice(TEXTS)]]
        return args

    c = rng.choice(["new_str", "new_str", "new_tag", "append", "append", "insert", "insert", "extend", "insert_before",
                    "insert_after", "replace_with", "replace_with", "extract", "wrap", "unwrap", "decompose", "clear",
                    "set_string", "smooth", "copy", "new_soup", "set_ist", "soup_new_string"])
    if c == "new_str":
        return ["new_str", rng.randrange(len(ALLC)), rng.choice(TEXTS)]
    if c == "new_tag":
        mode = rng.choice([0, 0, 1, 1, 2, 2])
        ist = []
        if mode == 1:
            ist = sorted(rng.sample(range(len(ALLC)), rng.choice([0, 1, 1, 2, 3])))
        return ["new_tag", mode, rng.choice(NAMES), ist]
    if c == "new_soup":
        return ["new_soup"] if rng.random() < 0.3 else random_op(rng, w)
    if c == "soup_new_string":
        return ["soup_new_string", rng.choice([None, None, 0, 1, 4, 8, 9, 12]), rng.choice(TEXTS)]
    if c == "set_ist":
        if not tags:
            return ["new_tag", 0, "p", []]
        if rng.random() < 0.2:
            return ["set_ist", rng.choice(tags), None]
        return ["set_ist", rng.choice(tags), sorted(rng.sample(range(len(ALLC)), rng.choice([0, 1, 2, 2, 4])))]
    if not tags:
        return ["new_tag", 0, "p", []]
    if c == "append":
        s = rng.choice(tags)
        return ["append", s, pick_args(s)[0]]
    if c == "insert":
        s = rng.choice(tags)
        return ["insert", s, rng.randint(0, len(f.objs[s].contents) + 1), pick_args(s)]
    if c == "extend":
        s = rng.choice(tags)
        return ["extend", s, pick_args(s)]
    if c in ("insert_before", "insert_after", "replace_with"):
        cand = [i for i in live if f.objs[i].parent is not None]
        if not cand:
            return random_op(rng, w)
        x = rng.choice(cand)
        return [c, x, pick_args(f.oid(f.objs[x].parent), exclude=(x,))]
    if c == "extract":
        return ["extract", rng.choice(live)]
    if c == "wrap":
        cand = [i for i in live if f.objs[i].parent is not None]
        if not cand:
            return random_op(rng, w)
        x = rng.choice(cand)
        anc = anc_or_self(x)
        ws_ = [t for t in tags if id(f.objs[t]) not in anc and not isinstance(f.objs[t], BeautifulSoup)
               and id(f.objs[x]) not in anc_or_self(t)]
        if not ws_:
            return ["new_tag", 0, rng.choice(NAMES), []]
        return ["wrap", x, rng.choice(ws_)]
    if c == "unwrap":
        cand = [t for t in tags if f.objs[t].parent is not None]
        if not cand:
            return random_op(rng, w)
        return ["unwrap", rng.choice(cand)]
    if c == "decompose":
        cand = [i for i in live if i != 0]
        if not cand or rng.random() < 0.6:
            return random_op(rng, w)
        return ["decompose", rng.choice(cand)]
    if c == "clear":
        return ["clear", rng.choice(tags), 1 if rng.random() < 0.3 else 0]
    if c == "set_string":
        t = rng.choice(tags)
        det = [i for i in strs if f.objs[i].parent is None]
        if det and rng.random() < 0.5:
            return ["set_string", t, ["o", rng.choice(det)]]
        return ["set_string", t, ["s", rng.choice(TEXTS)]]
    if c == "smooth":
        return ["smooth", rng.choice(tags)]
    if c == "copy":
        cand = [i for i in live if not isinstance(f.objs[i], BeautifulSoup)]
        if not cand:
            return random_op(rng, w)
        return ["copy", rng.choice(cand)]
    return ["new_str", 0, "x"]


# ------------------------------------------------------------------------------------ queries
def types_forms(rng=None, small=False):
    """(model encoding, how to build the Python argument, label)"""
    forms = [
        ([0], ("omit",), "default (argument omitted)"),
        ([0], ("sentinel",), "PageElement.default"),
        ([1], ("none",), "None"),
        ([2, NAV], ("one", NAV), "NavigableString"),
        ([2, COMMENT], ("one", COMMENT), "Comment"),
        ([2, SCRIPT], ("one", SCRIPT), "Script"),
        ([3, [NAV, CDATA]], ("tuple", [NAV, CDATA]), "(NavigableString, CData)"),
        ([3, [COMMENT, TEMPLATE, 12]], ("set", [COMMENT, TEMPLATE, 12]), "{Comment, TemplateString, MyStr}"),
        ([3, []], ("list", []), "[]"),
        ([3, [CDATA]], ("tuple", [CDATA]), "(CData,)"),
    ]
    if small:
        return forms
    extra = [
        ([0], ("empty-tuple",), "() — the same object as the sentinel in CPython"),
        ([2, 14], ("one", 14), "SubComment"),
        ([2, CDATA], ("one", CDATA), "CData"),
        ([3, list(range(len(ALLC)))], ("frozenset", list(range(len(ALLC)))), "every class"),
        ([3, [RT, RP]], ("list", [RT, RP]), "[RubyTextString, RubyParenthesisString]"),
        ([3, [STYLE, SCRIPT, TEMPLATE]], ("tuple", [STYLE, SCRIPT, TEMPLATE]), "(Stylesheet, Script, TemplateString)"),
        ([3, [13]], ("set", [13]), "{MyStr2}"),
        ([2, 5], ("one", 5), "Declaration"),
        ([3, [2, 3, 5, 6]], ("tuple", [2, 3, 5, 6]), "(PI, XMLPI, Declaration, Doctype)"),
    ]
    return forms + extra


def py_types(how):
    k = how[0]
    if k == "omit":
        return ()
    if k == "sentinel":
        return (PageElement.default,)
    if k == "empty-tuple":
        return ((),)
    if k == "none":
        return (None,)
    if k == "one":
        return (ALLC[how[1]],)
    cs = [ALLC[c] for c in how[1]]
    return ({"tuple": tuple, "list": list, "set": set, "frozenset": frozenset}[k](cs),)


def wanted_pred(w, o, menc):
    """Which exact classes the property says are yielded for this query (oracle side)."""
    if menc[0] == 0:
        if isinstance(o, Tag):
            s = w.expect[id(o)]
        else:
            s = ORDINARY
        return lambda c: c in s
    if menc[0] == 1:
        return lambda c: True
    if menc[0] == 2:
        only = ALLC[menc[1]]
        return lambda c: c is only
    s = set(ALLC[c] for c in menc[1])
    return lambda c: c in s


def oracle_strings(o, strip, wanted):
    """Independent recursive evaluator over the children lists."""
    out = []
    if not isinstance(o, Tag):
        if wanted(type(o)):
            s = str(o)
            if strip:
                s = trim(s)
            if s != "":               # a string asked about itself never yields an empty piece
                out.append((o, s))
        return out
    stack = [iter(o.contents)]
    while stack:
        try:
            c = next(stack[-1])
        except StopIteration:
            stack.pop()
            continue
        if isinstance(c, Tag):
            stack.append(iter(c.contents))
        elif wanted(type(c)):
            s = str(c)
            if strip:
                s = trim(s)
                if s == "":
                    continue
            out.append((c, s))
    return out


def oracle_sole(o):
    if not isinstance(o, Tag):
        return o
    while True:
        if len(o.contents) != 1:
            return None
        c = o.contents[0]
        if not isinstance(c, Tag):
            return c
        o = c


def enc_payload(w):
    f = w.forest
    pay = []
    for o in f.objs:
        if isinstance(o, Tag):
            ist = getattr(o, "interesting_string_types", None)
            if f.dead(o) or ist is None:
                pay.append([0, []])
            else:
                pay.append([0, [sorted(CID[c] for c in ist)]])
        else:
            pay.append([CID[type(o)], []])
    return pay


class Batch:
    """Collects (world state, queries), runs the model once for all of them."""

    def __init__(self, ctx):
        self.ctx = ctx
        self.items = []

    def add(self, recipe, w, queries, string_elements=None, to_model=True):
        """queries: list of (element id, strip, types form, separator). string_elements: the elements whose .string is
        checked (default: every live one). to_model=False: oracle only (heaps too deep for the extracted model's unary
        arithmetic within the time budget)."""
        ctx = self.ctx
        f = w.forest
        impl = []
        mq = []
        rk = hash(json.dumps(recipe, sort_keys=True))
        for (x, strip, form, sep) in queries:
            menc, how, label = form
            o = f.objs[x]
            q = {"element": x, "strip": strip, "types": label, "separator": sep}
            case = {"recipe": recipe, "query": q}
            targs = py_types(how)
            try:
                if targs:
                    pieces = list(o._all_strings(strip, types=targs[0]))
                    text = o.get_text(sep, strip, targs[0])
                else:
                    pieces = list(o._all_strings(strip))
                    text = o.get_text(sep, strip)
            except RecursionError:
                raise
            except Exception as e:
                ctx.fail(case, "text extraction raised " + type(e).__name__, repr(e), None)
                continue
            got_ids = [f.oid(s) if isinstance(s, PageElement) else None for s in pieces]
            got_txt = [str(s) for s in pieces]
            # ---- direct oracle
            exp = oracle_strings(o, strip, wanted_pred(w, o, menc))
            exp_txt = [s for _, s in exp]
            exp_ids = [f.oid(c) for c, _ in exp]
            nontrivial = len(exp) > 0 or len(pieces) > 0
            ctx.case((rk, x, strip, label, sep), nontrivial=nontrivial)
            if got_txt != exp_txt or (not strip and got_ids != exp_ids):
                ctx.fail(case, "yielded strings are not exactly the counted strings beneath the element in document order",
                         {"texts": got_txt, "ids": got_ids}, {"texts": exp_txt, "ids": exp_ids})
            elif not strip and any(not (a is b) for a, (b, _) in zip(pieces, exp)):
                ctx.fail(case, "strip=False must yield the string objects themselves", got_ids, exp_ids)
            if text != joined(sep, exp_txt):
                ctx.fail(case, "get_text is not the counted pieces joined by the separator", text, joined(sep, exp_txt))
            if menc[0] == 0 and how[0] == "omit":
                # the convenience views of the same thing
                views = {}
                try:
                    if not strip:
                        views["strings"] = [str(s) for s in o.strings]
                        if sep == "":
                            views["text"] = o.text
                            views["getText"] = o.getText()
                    else:
                        views["stripped_strings"] = [str(s) for s in o.stripped_strings]
                except Exception as e:
                    ctx.fail(case, "a text view raised " + type(e).__name__, repr(e), None)
                for k, v in views.items():
                    e = joined("", exp_txt) if k in ("text", "getText") else exp_txt
                    if v != e:
                        ctx.fail(dict(case, view=k), "." + k + " is not the counted strings", v, e)
            impl.append((case, got_ids, got_txt, text, strip))
            mq.append([x, strip, menc, sep])
        # .string of every live element
        strings = []
        for i, o in enumerate(f.objs):
            if f.dead(o) or (string_elements is not None and i not in string_elements):
                strings.append(None)
                continue
            try:
                s = o.string
            except Exception as e:
                ctx.fail({"recipe": recipe, "query": {"element": i, "view": "string"}}, ".string raised " + type(e).__name__, repr(e), None)
                strings.append("EXC")
                continue
            sid = None if s is None else f.oid(s)
            exp = oracle_sole(o)
            eid = None if exp is None else f.oid(exp)
            if sid != eid or (s is not None and s is not exp):
                ctx.fail({"recipe": recipe, "query": {"element": i, "view": "string"}},
                         ".string is not the sole string at the end of a chain of only children", sid, eid)
            strings.append([0] if sid is None else [1, sid])
        if to_model:
            self.items.append((recipe, None, f.dump(), enc_payload(w), mq, impl, strings))

    def flush(self):
        ctx = self.ctx
        items, self.items = self.items, []
        if not items or not ctx.build.model_ok:
            return
        res = ctx.model.run([[13000, cells, pay, mq] for (_, _, cells, pay, mq, _, _) in items])
        for (recipe, _, cells, pay, mq, impl, strings), r in zip(items, res):
            if isinstance(r, tuple) or not isinstance(r, list) or len(r) != 4:
                ctx.disagree("model run", {"recipe": recipe}, None, repr(r)[:200])
                continue
            ok, qres, sres, sole_ok = r
            if not ok:
                # the hypothesis of the theorems (the links describe one tree) fails on this state
                ctx.disagree("Spec.Tree.consistent_b holds on the dumped heap (hypothesis rep of the C13 theorems)",
                             {"recipe": recipe}, None, 0)
                continue
            for (case, ids, txt, text, strip), m in zip(impl, qres):
                mids = [p[0] for p in m[0]]
                mtxt = ["".join(map(chr, p[1])) for p in m[0]]
                mtext = "".join(map(chr, m[1]))
                if mtxt != txt or (not strip and mids != ids):
                    ctx.disagree("_all_strings ~ Model.Text.all_strings", case, {"ids": ids, "texts": txt}, {"ids": mids, "texts": mtxt})
                if mtext != text:
                    ctx.disagree("get_text ~ Model.Text.get_text", case, text, mtext)
                if not m[2]:
                    ctx.disagree("Model.Text.tag_all_strings = Spec.TextSpec.texts_below on the tree read off the children lists "
                                 "(conclusion of C13_strings_refine_evaluator, evaluated)", case, None, 0)
            for i, (a, b) in enumerate(zip(strings, sres)):
                if a is None:
                    continue
                if a != b:
                    ctx.disagree(".string ~ Model.Text.string_prop", {"recipe": recipe, "query": {"element": i, "view": "string"}}, a, b)
            if not sole_ok:
                ctx.disagree("Model.Text.string_prop = Spec.TextSpec.sole (conclusion of C13_string_is_sole, evaluated)",
                             {"recipe": recipe}, None, 0)


def all_queries(w, forms, seps, elements=None):
    qs = []
    for x in (elements if elements is not None else w.live()):
        for strip in (False, True):
            for form in forms:
                for sep in seps:
                    qs.append((x, strip, form, sep))
    return qs


def sample_queries(rng, w, forms, k):
    live = w.live()
    if not live:
        return []
    qs = []
    # every live element with the plain default, then random argument combinations
    for x in live:
        qs.append((x, False, forms[0], ""))
        qs.append((x, True, forms[0], "|"))
    for _ in range(k):
        qs.append((rng.choice(live), rng.random() < 0.5, rng.choice(forms), rng.choice(["", "|", ", ", "\n", " "])))
    return qs


# ------------------------------------------------------------------------------------ generators consumed step by step
EDIT_KINDS = ["replace_with", "extract", "wrap", "none"]


def interleave_specs(rng, w, forms, per_world):
    """Which generators to consume step by step on this state: (element, view, strip, types form, edit pattern)."""
    f = w.forest
    tags = [i for i in w.live() if isinstance(f.objs[i], Tag)]
    specs = []
    for _ in range(per_world):
        if not tags:
            break
        x = rng.choice(tags)
        view = rng.choice(["strings", "stripped_strings", "_all_strings", "_all_strings"])
        strip = {"strings": False, "stripped_strings": True}.get(view, rng.random() < 0.5)
        form = forms[0] if view != "_all_strings" else rng.choice(forms)
        pattern = [rng.choice(EDIT_KINDS[:3]) for _ in range(rng.randint(1, 4))]
        specs.append({"element": x, "view": view, "strip": strip, "types": form[2], "edits": pattern})
    return specs


def run_interleaved(ctx, recipe, spec, forms):
    """The generators save their successor before yielding: a consumer may replace, remove or wrap the string it was just
    handed and still receives every remaining string. Oracle: the pieces handed out one by one are the list the
    independent evaluator gives for the tree as it was BEFORE the loop (only strings already handed out are edited, each
    by a fresh object, so the remaining counted strings are the same objects in the same order)."""
    w = make_world(json.loads(json.dumps(recipe)))
    f = w.forest
    o = f.objs[spec["element"]]
    form = [fm for fm in forms if fm[2] == spec["types"]][0]
    menc, how, label = form
    strip = spec["strip"]
    before = oracle_strings(o, strip, wanted_pred(w, o, menc))
    exp = [t for _, t in before]
    case = {"recipe": recipe, "interleave": spec}
    ctx.case((hash(json.dumps(recipe, sort_keys=True)), "interleave", json.dumps(spec, sort_keys=True)), nontrivial=len(before) > 1)
    try:
        with warnings.catch_warnings():
            warnings.simplefilter("ignore")
            if spec["view"] == "strings":
                gen = iter(o.strings)
            elif spec["view"] == "stripped_strings":
                gen = iter(o.stripped_strings)
            else:
                targs = py_types(how)
                gen = o._all_strings(strip, types=targs[0]) if targs else o._all_strings(strip)
            got = []
            k = 0
            for v in gen:
                got.append(str(v))
                if k < len(before):
                    node = before[k][0]
                    if not strip and v is not node:
                        break                      # a different object was handed out: reported below through got != exp or ids
                    kind = spec["edits"][k % len(spec["edits"])]
                    if node.parent is not None:
                        if kind == "replace_with":
                            node.replace_with(type(node)(str(node).upper() + "!"))
                        elif kind == "extract":
                            node.extract()
                        elif kind == "wrap":
                            node.wrap(Tag(name="u"))
                k += 1
                if k > len(before) + 50:
                    break
    except Exception as e:
        ctx.fail(case, "a text generator raised %s while its consumer edited the string just yielded" % type(e).__name__, repr(e), exp)
        return
    if got != exp:
        ctx.fail(case, "a text generator consumed step by step, while the consumer replaces / removes / wraps the string it was "
                       "just handed, must still hand out every counted string beneath the element (as listed before the loop)", got, exp)


# ------------------------------------------------------------------------------------ parse-time classes
def check_parsed_classes(ctx, recipe, w):
    """Unedited parse results: which class each string got, which set each tag got, and the
    position clause of the property (an ordinary element outside every container never yields
    what lies inside a container)."""
    f = w.forest
    soup = w.soup
    conts = w.containers
    remap = w.element_classes
    case = {"recipe": recipe}
    tagk = "element-classes" if remap else None
    for o in f.objs:
        if isinstance(o, BeautifulSoup) or not isinstance(o, Tag):
            continue
        exp = frozenset([conts[o.name]]) if o.name in conts else ORDINARY
        got = o.interesting_string_types
        if got is None or frozenset(got) != exp:
            ctx.fail(dict(case, element=f.oid(o)), "a parsed <%s> counts %s, expected %s" % (
                o.name, sorted(c.__name__ for c in (got or [])), sorted(c.__name__ for c in exp)),
                sorted(CID.get(c, -1) for c in (got or [])), sorted(CID[c] for c in exp))
    # class of every string: nearest enclosing container decides for character data
    for o in f.objs:
        if isinstance(o, Tag):
            continue
        p = o.parent
        near = None
        while p is not None:
            if p.name in conts and not isinstance(p, BeautifulSoup):
                near = conts[p.name]
                break
            p = p.parent
        t = type(o)
        if remap:
            continue            # covered by the known finding; the class rule itself is tied through sub-command 4
        if isinstance(o, PreformattedString):
            continue            # explicit class asked for by the parser (comment, CDATA, doctype, ...)
        if recipe["kind"] == "events":
            continue            # explicit classes may be requested at any position; C03 owns this rule for event lists
        if near is not None and t is not near:
            ctx.fail(dict(case, element=f.oid(o)), "character data inside a <%s> container has class %s, expected %s" % (
                o.parent.name, t.__name__, near.__name__), CID.get(t, -1), CID[near])
        if near is None and t is not NavigableString:
            ctx.fail(dict(case, element=f.oid(o)), "character data outside every container has class %s" % t.__name__,
                     CID.get(t, -1), NAV)
    # position clause
    for o in f.objs:
        if not isinstance(o, Tag) or f.dead(o):
            continue
        if not isinstance(o, BeautifulSoup) and o.name in conts:
            continue
        if any((a.name in conts and not isinstance(a, BeautifulSoup)) for a in o.parents):
            continue
        exp, exp_k1 = [], []
        stack = [(iter(o.contents), False)]
        while stack:
            it, inside = stack[-1]
            try:
                c = next(it)
            except StopIteration:
                stack.pop()
                continue
            if isinstance(c, Tag):
                stack.append((iter(c.contents), inside or c.name in conts))
                continue
            ordinary = isinstance(c, CData) or not isinstance(c, SPECIAL)
            if ordinary and not inside:
                exp.append(str(c))
            if ordinary and (not inside or isinstance(c, CData)):
                exp_k1.append(str(c))
        try:
            got = [str(s) for s in o.strings]
        except Exception as e:
            ctx.fail(dict(case, element=f.oid(o)), ".strings raised " + type(e).__name__, repr(e), None)
            continue
        if got != exp:
            tag = tagk
            if tag is None and got == exp_k1:
                tag = "cdata-in-container"
            fail_tagged(ctx, dict(case, element=f.oid(o), view="strings"),
                        "an ordinary element outside every container must yield exactly the ordinary text and CDATA "
                        "beneath it that is not inside a script/style/template/ruby-text container",
                        got, exp, tag)
    # with replacement classes: a container element must still yield its own character data
    if remap:
        for o in f.objs:
            if not isinstance(o, Tag) or isinstance(o, BeautifulSoup) or o.name not in conts:
                continue
            exp = [str(c) for c in o.contents if not isinstance(c, Tag) and not isinstance(c, PreformattedString)]
            got = [str(s) for s in o.strings if s.parent is o]
            if got != exp:
                fail_tagged(ctx, dict(case, element=f.oid(o), view="strings"),
                            "a container element must yield its own character data", got, exp, tagk)


# ------------------------------------------------------------------------------------ generators
LEAF_STR = [(NAV, " x "), (NAV, ""), (CDATA, "d"), (COMMENT, "c"), (SCRIPT, " s"), (TEMPLATE, "\n"), (12, "m ")]
LEAF_STR_MORE = [(6, "html"), (2, "pi"), (RT, "r"), (STYLE, "y"), (14, "sc"), (NAV, " \xa0")]


def exhaustive_docs(maxn, thorough):
    """Every forest shape with <= maxn nodes below a root; inner nodes are tags of three kinds."""
    leaf_strs = LEAF_STR + (LEAF_STR_MORE if thorough else [])
    inner_kinds = [["tag", 0, "p", []], ["tag", 2, "script", []], ["tag", 1, "q", [COMMENT, 12]]]
    for n in range(0, maxn + 1):
        for shape in G.shapes(n):
            # positions in pre-order
            def variants(forest):
                if not forest:
                    yield []
                    return
                first, rest = forest[0], forest[1:]
                for r in variants(rest):
                    if first:
                        for k in inner_kinds:
                            for kids in variants(first):
                                yield [[k[0], k[1], k[2], k[3], kids]] + r
                    else:
                        yield [["tag", 0, "b", [], []]] + r
                        for (c, t) in leaf_strs:
                            yield [["str", c, t]] + r
            for kids in variants(shape):
                yield kids


def gen_markup(rng, depth=0):
    r = rng.random
    parts = []
    for _ in range(rng.randint(1, 4 if depth else 6)):
        x = r()
        if x < 0.22:
            parts.append(rng.choice(["x", " y ", "\n", "a&amp;b", "\xa0z", "q ", "1 < 2", "&#65;", "  "]))
        elif x < 0.30:
            parts.append("<!--%s-->" % rng.choice(["c", " c c ", ""]))
        elif x < 0.38:
            parts.append("<![%s[%s]]>" % (cdata_keyword(rng), rng.choice(["d", " d ", "<p>"])))
        elif x < 0.42:
            parts.append(rng.choice(["<?pi?>", "<!DOCTYPE html>", "<!ELEMENT x>", "<?xml version='1.0'?>"]))
        elif x < 0.50:
            parts.append("<script>%s</script>" % rng.choice(["s", "var a = '<b>';", " ", "<!--k-->", ""]))
        elif x < 0.56:
            parts.append("<style>%s</style>" % rng.choice(["y", "p { }", "\n"]))
        elif x < 0.64 and depth < 3:
            parts.append("<template>%s</template>" % gen_markup(rng, depth + 1))
        elif x < 0.70 and depth < 3:
            parts.append("<ruby>%s<rt>%s</rt><rp>%s</rp></ruby>" % (rng.choice(["k", gen_markup(rng, depth + 1)]),
                                                                    rng.choice(["r", "<b>r</b>", ""]), rng.choice(["(", ""])))
        elif x < 0.90 and depth < 4:
            n = rng.choice(["p", "b", "div", "span", "i", "pre", "title", "textarea", "a"])
            inner = gen_markup(rng, depth + 1)
            y = r()
            if y < 0.8:
                parts.append("<%s>%s</%s>" % (n, inner, n))
            elif y < 0.9:
                parts.append("<%s>%s" % (n, inner))           # left open
            else:
                parts.append("%s</%s>" % (inner, n))           # stray end tag
        elif x < 0.94:
            parts.append(rng.choice(["<br>", "<br/>", "<hr>", "<", "<p", "</>", "<script>u", "<![CDATA[z"]))
        else:
            parts.append(rng.choice(["x", "y"]))
    return "".join(parts)


# ------------------------------------------------------------------------------------ written documents (ground truth)
def cdata_keyword(rng=None, k=None):
    """'CDATA' with each letter in either case: index k in 0..31, or random."""
    if k is None:
        k = rng.randrange(32)
    return "".join(ch.lower() if (k >> i) & 1 else ch for i, ch in enumerate("CDATA"))


def write_doc(rng, conts, depth=0, inside=None, truth=None, kw=None):
    """Writes a well-formed document piece by piece and records what it says: the strings, in document order, as
    (class id, text). Text inside a container element gets the container's class (nearest one); comments, CDATA sections
    (keyword spelled in any letter case) and doctypes keep theirs. Returns the markup."""
    parts = []
    last_text = False
    for _ in range(rng.randint(1, 4 if depth else 6)):
        x = rng.random()
        if x < 0.3 and not last_text:
            t = rng.choice(["", " ", "  "]) + rng.choice(["x", "yz", "a b", "q1", "é", "w\xa0v"]) + rng.choice(["", " ", "\n"])
            parts.append(t)
            truth.append([inside if inside is not None else NAV, t])
            last_text = True
            continue
        if x < 0.5:
            t = rng.choice(["d", " d ", "<q>", "a]b", "x > y", "e&amp;f", "D\nE"])
            parts.append("<![%s[%s]]>" % (kw() if kw else cdata_keyword(rng), t))
            truth.append([CDATA, t])
        elif x < 0.6:
            t = rng.choice(["c", " c c ", "x-y"])
            parts.append("<!--%s-->" % t)
            truth.append([COMMENT, t])
        elif x < 0.64:
            parts.append("<!DOCTYPE html>")
            truth.append([6, "html"])
        elif x < 0.72:
            name = rng.choice(["script", "style"])
            t = rng.choice(["s", "var a = 1;", "p { }", " k "])
            parts.append("<%s>%s</%s>" % (name, t, name))
            truth.append([conts.get(name, inside if inside is not None else NAV), t])
        elif depth < 3:
            name = rng.choice(["div", "p", "b", "span", "i", "u", "template", "rt"])
            sub = conts.get(name, inside)
            parts.append("<%s>%s</%s>" % (name, write_doc(rng, conts, depth + 1, sub, truth, kw), name))
        else:
            continue
        last_text = False
    return "".join(parts)


def written_recipe(rng, config, kw=None):
    conf = MARKUP_CONFIGS[config]
    conts = dict(conf["containers"]) if "containers" in conf else {k: CID[v] for k, v in DOC_CONTAINERS.items()}
    truth = []
    markup = write_doc(rng, conts, 0, None, truth, kw)
    return {"kind": "markup", "config": config, "markup": markup, "truth": truth}


def check_truth(ctx, recipe, w):
    """A written document: the strings of the parsed tree, in document order with their classes, are the ones the markup
    spells out; an explicit types=CData selects exactly the CDATA sections' contents."""
    truth = [(c, t) for c, t in recipe["truth"]]
    got = [(CID.get(type(o), -1), str(o)) for o in T.preorder(w.soup) if not isinstance(o, Tag)]
    case = {"recipe": recipe}
    if got != truth:
        k = next((i for i, (a, b) in enumerate(zip(got, truth)) if a != b), min(len(got), len(truth)))
        ctx.fail(dict(case, position=k), "the strings of the parsed document are not the ones the markup spells out (class id, text)",
                 got[max(0, k - 1):k + 2], truth[max(0, k - 1):k + 2])
        return
    exp = [t for c, t in truth if c == CDATA]
    sel = [str(x) for x in w.soup._all_strings(types=CData)]
    if sel != exp:
        ctx.fail(dict(case, query={"element": 0, "types": "CData"}), "types=CData must select exactly the CDATA sections", sel, exp)
    txt = w.soup.get_text("|", types=(CData,))
    if txt != "|".join(exp):
        ctx.fail(dict(case, query={"element": 0, "types": "(CData,)"}), "get_text(types=(CData,)) must join exactly the CDATA sections", txt, "|".join(exp))



FIXED_MARKUP = [
    "<div>a<template>t<![CDATA[x]]><p>q</p><!--c--></template><script>s</script><style>y</style><ruby>k<rt>r</rt><rp>(</rp></ruby></div>",
    "<p>one<b>two</b><!--c-->three</p>",
    "<!DOCTYPE html><html><head><title>T</title><script>s</script></head><body> <p> a </p>\n</body></html>",
    "<template><template>a</template>b<style>c</style>d</template>e",
    "<b><i><u>deep</u></i></b><b><i></i></b><b>x<i>y</i></b>",
    "<script>a</script><script></script><p><script>b</script></p>",
    "<ruby>a<rt>b<rp>c</ruby>d",
    "<div><![CDATA[top]]></div>",
    "<pre>\n  x\n</pre><textarea> t </textarea>",
]

FIXED_EVENTS = [
    [("s", "div", None, []), ("d", "a"), ("x", None), ("s", "script", None, []), ("d", "s"), ("x", None), ("d", "c"), ("x", 4),
     ("d", "d"), ("x", 1), ("e", "script", None), ("d", "b"), ("e", "div", None)],
    [("s", "template", None, []), ("s", "p", None, []), ("d", "q"), ("e", "p", None), ("s", "style", None, []), ("d", "y"),
     ("e", "style", None), ("d", "t"), ("e", "template", None)],
    [("d", "x"), ("x", 6), ("d", " "), ("x", None), ("s", "a", None, []), ("d", "in a"), ("e", "a", None), ("s", "pre", None, []),
     ("d", "  "), ("s", "b", None, []), ("d", "bold"), ("e", "b", None), ("e", "pre", None), ("s", "i", None, []), ("d", "ital"),
     ("x", None), ("d", "k"), ("x", 4), ("e", "i", None)],
]


def random_events(rng, maxnodes):
    evs, open_, n = [], [], 0
    names = ["p", "b", "script", "template", "rt", "a", "pre", "i", "style", "div"]
    target = rng.randint(1, maxnodes)
    while n < target:
        r = rng.random()
        if r < 0.35:
            n += 1
            nm = rng.choice(names)
            evs.append(("s", nm, None, []))
            open_.append(nm)
        elif r < 0.55 and open_:
            evs.append(("e", open_.pop(), None))
        elif r < 0.8:
            n += 1
            evs.append(("d", rng.choice(["x", " y ", "\n", " ", "z\xa0"])))
            evs.append(("x", None))
        else:
            n += 1
            evs.append(("x", None))
            evs.append(("d", rng.choice(["c", " d ", "e"])))
            evs.append(("x", rng.choice([1, 2, 3, 4, 5, 6, 7, 8, 9, 10, 11, 0])))
    return evs


def jsonable_events(evs):
    return [list(e[:3]) + [[list(a) for a in e[3]]] if e[0] == "s" else list(e) for e in evs]


# ------------------------------------------------------------------------------------ the run
def strip_sweep(ctx):
    """py_strip of the model vs str.strip on every code point (alone and embedded)."""
    hi = 0x110000 if ctx.thorough else 0x3100
    cps = [cp for cp in range(hi) if not (0xd800 <= cp <= 0xdfff)]
    samples = []
    for cp in cps:
        samples.append(chr(cp) + "a" + chr(cp))
    rng = ctx.rng
    ws = [9, 10, 11, 12, 13, 28, 29, 30, 31, 32, 133, 160, 5760, 8192, 8200, 8232, 8233, 8239, 8287, 12288]
    near = [8, 14, 27, 33, 132, 134, 159, 161, 5759, 5761, 6158, 8191, 8203, 8204, 8234, 8238, 8240, 8288, 12287, 12289, 65279]
    for _ in range(4000 if ctx.thorough else 800):
        samples.append("".join(chr(rng.choice(ws + near + [97, 98])) for _ in range(rng.randint(0, 7))))
    bad = 0
    for s in samples:
        if trim(s) != s.strip():
            ctx.fail({"string": [ord(c) for c in s]}, "independent trim disagrees with str.strip (oracle self-check)", s.strip(), trim(s))
            bad += 1
            if bad > 3:
                break
    if ctx.build.model_ok:
        res = ctx.model.run([[13001, s] for s in samples])
        for s, m in zip(samples, res):
            if "".join(map(chr, m)) != s.strip():
                ctx.disagree("str.strip ~ Model.Text.py_strip", {"string": [ord(c) for c in s]}, [ord(c) for c in s.strip()], m)
                break
    ctx.evaluations += len(samples)
    ctx.count("strip_cases", len(samples))
    # join
    jc = []
    for _ in range(300):
        sep = rng.choice(["", "|", ", ", "\n"])
        l = [rng.choice(TEXTS) for _ in range(rng.randint(0, 5))]
        jc.append((sep, l))
    if ctx.build.model_ok:
        res = ctx.model.run([[13002, sep, l] for sep, l in jc])
        for (sep, l), m in zip(jc, res):
            if "".join(map(chr, m)) != sep.join(l) or joined(sep, l) != sep.join(l):
                ctx.disagree("str.join ~ Model.Text.join", {"sep": sep, "pieces": l}, sep.join(l), m)
                break


def eval_ist_case(case):
    """Tag.__init__'s interesting_string_types for one (containers, name, passed) case -> (got, expected)."""
    from bs4.builder._htmlparser import HTMLParserTreeBuilder
    cs, name, passed = case["containers"], case["name"], case["passed"]
    pset = None if passed is None else set(ALLC[c] for c in passed)
    if cs is None:
        t = Tag(name=name, interesting_string_types=pset)
        exp = passed                       # no builder: whatever was passed (None = no set of its own)
    else:
        b = HTMLParserTreeBuilder(string_containers={k: ALLC[v] for k, v in cs.items()})
        t = Tag(None, b, name, interesting_string_types=pset)
        exp = [cs[name]] if name in cs else [NAV, CDATA]      # the documented rule
    got = t.interesting_string_types
    return (None if got is None else sorted(CID.get(c, -1) for c in got)), (None if exp is None else sorted(exp))


def eval_sc_case(case):
    """BeautifulSoup.string_container(base) for one case -> (got, expected or None when not fixed by the text)."""
    ec = {ALLC[int(k)]: ALLC[v] for k, v in case["element_classes"].items()}
    cs = {k: ALLC[v] for k, v in case["containers"].items()}
    top, base = case["top"], (None if case["base"] is None else ALLC[case["base"]])
    with warnings.catch_warnings():
        warnings.simplefilter("ignore")
        soup = BeautifulSoup("", "html.parser", string_containers=cs, element_classes=ec)
    if top is not None:
        soup.string_container_stack.append(Tag(name=top))
    got = soup.string_container(base)
    exp = None
    if not ec:
        # explicit special class is kept; plain text takes the class of the container on top of the stack
        b = base or NavigableString
        exp = cs.get(top, b) if (top is not None and b is NavigableString) else b
    return CID.get(got, -1), (None if exp is None else CID[exp])


def config_grid(ctx):
    """Tag.__init__'s interesting_string_types and BeautifulSoup.string_container on a grid."""
    names = ["p", "script", "style", "template", "rt", "rp", "ruby", "b", "[document]", "SCRIPT"]
    conts = [None, {}, {k: CID[v] for k, v in DOC_CONTAINERS.items()}, {"b": 12, "p": COMMENT}, {"script": NAV}]
    cmds, cases = [], []
    for cs in conts:
        for name in names:
            for passed in (None, [COMMENT], [NAV, CDATA], []):
                case = {"containers": cs, "name": name, "passed": passed}
                got, exp = eval_ist_case(case)
                ctx.case(("ist", repr(case)))
                if got != exp:
                    ctx.fail(case, "interesting_string_types assigned at construction", got, exp)
                cmds.append([13003, [] if cs is None else [[[k, v] for k, v in sorted(cs.items())]], name,
                             [] if passed is None else [sorted(passed)]])
                cases.append((case, got))
    if ctx.build.model_ok:
        for (case, got), m in zip(cases, ctx.model.run(cmds)):
            mm = None if m == [] else sorted(m[0])
            if mm != got:
                ctx.disagree("Tag.__init__ interesting_string_types ~ Model.Text.init_interesting", case, got, mm)
    cmds, cases = [], []
    for ec in ({}, {"0": 12}, {"1": 13}, {"8": 13}, {"4": 14}):
        for cs in ({}, {k: CID[v] for k, v in DOC_CONTAINERS.items()}, {"b": 12, "p": COMMENT}, {"script": NAV}):
            for top in (None, "script", "b", "p", "div", "template"):
                for base in (None, NAV, CDATA, COMMENT, SCRIPT, 12):
                    case = {"element_classes": ec, "containers": cs, "top": top, "base": base}
                    got, exp = eval_sc_case(case)
                    ctx.case(("sc", repr(case)))
                    if exp is not None and got != exp:
                        ctx.fail(case, "string_container picked the wrong class", got, exp)
                    cmds.append([13004, [[int(k), v] for k, v in ec.items()], [[k, v] for k, v in sorted(cs.items())],
                                 [] if top is None else [top], [] if base is None else [base]])
                    cases.append((case, got))
    if ctx.build.model_ok:
        for (case, got), m in zip(cases, ctx.model.run(cmds)):
            if m != got:
                ctx.disagree("BeautifulSoup.string_container ~ Model.Text.string_container_of", case, got, m)
    ctx.sample({"string_container_case": cases[37][0], "class": cases[37][1]})


def run_exhaustive(ctx):
    forms = types_forms(small=True)
    seps = ["", "|"]
    batch = Batch(ctx)
    ndocs = 0
    # (max nodes, extended leaf set, root kinds)
    plans = [(3, True, ("soup", "tag")), (4, False, ("soup",))] if ctx.thorough else [(3, False, ("soup", "tag"))]
    scopes = []
    for maxn, ext, roots in plans:
        n0 = ndocs
        for kids in exhaustive_docs(maxn, ext):
            for root in roots:
                tree = ["soup", kids] if root == "soup" else ["tag", 0, "div", [], kids]
                recipe = {"kind": "nested", "tree": tree}
                w = make_world(recipe)
                batch.add(recipe, w, all_queries(w, forms, seps))
                if kids:
                    for spec in ({"element": 0, "view": "strings", "strip": False, "types": forms[0][2], "edits": ["replace_with"]},
                                 {"element": 0, "view": "_all_strings", "strip": False, "types": "None", "edits": ["extract"]},
                                 {"element": 0, "view": "stripped_strings", "strip": True, "types": forms[0][2], "edits": ["wrap", "replace_with"]}):
                        run_interleaved(ctx, recipe, spec, forms)
                ndocs += 1
                if len(batch.items) >= 300:
                    batch.flush()
                if too_many(ctx):
                    batch.flush()
                    return
            if ndocs % 997 == 1:
                ctx.sample({"recipe": recipe})
        scopes.append("%d trees = every forest shape with <=%d nodes below a %s root, 3 kinds of inner tag, leaves: empty tag or one "
                      "of %d class/text strings" % (ndocs - n0, maxn, " / detached-tag ".join("BeautifulSoup" if r == "soup" else "" for r in roots).strip(" /") or "BeautifulSoup",
                                                   len(LEAF_STR) + (len(LEAF_STR_MORE) if ext else 0)))
    batch.flush()
    ctx.extra_cov["exhaustive"] = True
    ctx.extra_cov["exhaustive_scope"] = "; ".join(scopes) + " — each x every element x strip x %d types forms x %d separators" % (len(forms), len(seps))


def too_many(ctx):
    unknown = [f for f in ctx.failures if f.get("tag") not in KNOWN_TAGS]
    return len(unknown) + len(ctx.disagreements) > 40


KNOWN_TAGS = ("cdata-in-container", "element-classes")


def fail_tagged(ctx, case, what, observed, expected, tag):
    """Failures of a listed class are reported a few times, then only counted (they must not crowd
    out other failures in the bounded list)."""
    if tag in KNOWN_TAGS:
        ctx.count("known:" + tag)
        if ctx.counts["known:" + tag] > 4:
            return
    ctx.fail(case, what, observed, expected, tag=tag)


def shape13(o):
    if isinstance(o, BeautifulSoup):
        return ("root", o.name, tuple(shape13(c) for c in o.contents))
    if isinstance(o, Tag):
        return ("tag", o.name, tuple(shape13(c) for c in o.contents))
    return ("str", CID.get(type(o), -1), str(o))


def model_shape13(res):
    state, pays = res

    def go(i):
        c, p = state[i], pays[i]
        name = "".join(map(chr, p[0]))
        if c[0] in (1, 2):
            return ("str", p[2], name)
        return ("root" if c[0] == 3 else "tag", name, tuple(go(k) for k in c[3]))
    return go(0)


def check_build_model(ctx, items):
    """Event-built documents: the tree with its string classes vs Model.Build.feed (the model the
    parse-time theorems are about)."""
    if not ctx.build.model_ok or not items:
        return
    cmds = []
    for recipe, w in items:
        cfg = CFGS[recipe["cfg"]] if isinstance(recipe["cfg"], str) else recipe["cfg"]
        cmds.append([30, T.enc_cfg(cfg), [T.enc_event(e) for e in norm_events(recipe["events"])]])
    for (recipe, w), r in zip(items, ctx.model.run(cmds)):
        ms = model_shape13(r)
        got = shape13(w.soup)
        if ms != got:
            ctx.disagree("tree and string classes built from events ~ Model.Build.feed", {"recipe": recipe}, got, ms)


def run_parsed(ctx):
    rng = ctx.rng
    forms = types_forms()
    batch = Batch(ctx)
    recipes = []
    for name in MARKUP_CONFIGS:
        for m in FIXED_MARKUP:
            recipes.append({"kind": "markup", "config": name, "markup": m})
    for _ in range(1500 if ctx.thorough else 350):
        recipes.append({"kind": "markup", "config": rng.choice(list(MARKUP_CONFIGS)), "markup": gen_markup(rng)})
    # written documents (the generator knows what the markup says); the CDATA keyword in each of its 32 spellings
    for k in range(32):
        recipes.append({"kind": "markup", "config": "default", "markup": "<p>a<![%s[x%d]]>b</p>" % (cdata_keyword(k=k), k),
                        "truth": [[NAV, "a"], [CDATA, "x%d" % k], [NAV, "b"]]})
    for _ in range(1200 if ctx.thorough else 300):
        recipes.append(written_recipe(rng, rng.choice(["default", "default", "no-containers", "custom-containers"])))
    for cname in CFGS:
        for evs in FIXED_EVENTS:
            recipes.append({"kind": "events", "cfg": cname, "events": jsonable_events(evs)})
    for _ in range(1500 if ctx.thorough else 350):
        recipes.append({"kind": "events", "cfg": rng.choice(list(CFGS)), "events": jsonable_events(random_events(rng, 14))})
    built = []
    for k, recipe in enumerate(recipes):
        w = make_world(recipe)
        check_parsed_classes(ctx, recipe, w)
        if "truth" in recipe:
            check_truth(ctx, recipe, w)
        for spec in interleave_specs(rng, w, forms, 2):
            run_interleaved(ctx, recipe, spec, forms)
        if recipe["kind"] == "events":
            built.append((recipe, w))
        batch.add(recipe, w, sample_queries(rng, w, forms, 30 if ctx.thorough else 14))
        if len(batch.items) >= 200:
            batch.flush()
            check_build_model(ctx, built)
            built = []
        if k % 211 == 0:
            ctx.sample({"recipe": recipe})
        if too_many(ctx):
            break
    batch.flush()
    check_build_model(ctx, built)


def run_histories(ctx):
    rng = ctx.rng
    forms = types_forms()
    count, steps = (3000, 20) if ctx.thorough else (400, 12)
    batch = Batch(ctx)
    for k in range(count):
        r = rng.random()
        if r < 0.35:
            recipe = {"kind": "markup", "config": rng.choice(["default", "no-containers", "custom-containers"]), "markup": gen_markup(rng)}
        elif r < 0.7:
            recipe = {"kind": "events", "cfg": rng.choice(list(CFGS)), "events": jsonable_events(random_events(rng, 10))}
        else:
            recipe = {"kind": "nested", "tree": ["soup", []] if rng.random() < 0.5 else ["tag", 0, "div", [], []]}
        recipe["ops"] = []
        w = make_world(recipe)
        for step in range(steps):
            op = random_op(rng, w)
            st = apply_op(w, op)
            recipe["ops"].append(op)
            if st.startswith("ASSERT:"):
                ctx.fail({"recipe": json.loads(json.dumps(recipe))}, st[7:], None, None)
            snap = json.loads(json.dumps(recipe))
            batch.add(snap, w, sample_queries(rng, w, forms, 6))
        for spec in interleave_specs(rng, w, forms, 2):
            run_interleaved(ctx, json.loads(json.dumps(recipe)), spec, forms)
        if len(batch.items) >= 300:
            batch.flush()
        if k % 97 == 0:
            ctx.sample({"recipe": json.loads(json.dumps(recipe))})
        if too_many(ctx):
            break
    batch.flush()


CHAIN_DEPTHS = [100, 999, 1000, 1001, 3000]


def chain_recipes(rng, thorough):
    out = []
    depths = CHAIN_DEPTHS + ([1002, 2000, 5000] if thorough else [])
    for d in depths:
        for via in ("parse", "api"):
            if via == "api" and d > 1100 and not thorough:
                continue              # assembling through append() is quadratic in the depth
            # the pure only-child chain, then chains with strings at several levels
            out.append({"kind": "chain", "via": via, "depth": d, "leaf": [0, " leaf "], "extras": []})
            lv = sorted({0, 1, d // 3, d // 2, d - 2, d - 1, d} & set(range(d + 1)))
            pick = rng.sample(lv, min(len(lv), 4))
            ex = []
            for l in sorted(pick):
                cls = rng.choice([0, 0, 1, 4]) if via == "parse" else rng.choice([0, 1, 4, 8, 12])
                ex.append([l, cls, rng.choice(["t%d" % l, " u%d " % l, "v %d" % l]), rng.choice(["before", "after"])])
            out.append({"kind": "chain", "via": via, "depth": d, "leaf": [rng.choice([0, 1, 4]), "L"], "extras": ex})
            out.append({"kind": "chain", "via": via, "depth": d, "leaf": None, "extras": [[d // 2, 0, "mid", "after"]]})
    return out


def run_deep(ctx):
    """Deep only-child chains (depths around and beyond the interpreter's recursion limit): .string, get_text, .strings,
    .stripped_strings at chosen levels against the (iterative) independent evaluator; the shallow ones also go to the model."""
    rng = ctx.rng
    forms = types_forms()
    pick_forms = [forms[0], forms[2], forms[6], forms[4]]
    batch = Batch(ctx)
    for recipe in chain_recipes(rng, ctx.thorough):
        w = make_world(recipe)
        f = w.forest
        chain = chain_levels(w)
        d = len(chain) - 1
        want = sorted({0, 1, 2, d // 3, d // 2, d - 1001, d - 1000, d - 999, d - 2, d - 1, d} & set(range(d + 1)))
        for lvl, _, _, _ in recipe.get("extras", []):
            want = sorted(set(want) | ({lvl - 1, lvl, lvl + 1} & set(range(d + 1))))
        elems = [f.oid(chain[k]) for k in want]
        elems += [i for i in w.live() if not isinstance(f.objs[i], Tag)][:8]
        qs = []
        for x in elems:
            for strip in (False, True):
                for form in pick_forms:
                    qs.append((x, strip, form, "|" if strip else ""))
        if w.parsed:
            check_shallow = len(f.objs) <= 400
            if check_shallow:
                check_parsed_classes(ctx, recipe, w)
        batch.add(recipe, w, qs, string_elements=set(elems), to_model=len(f.objs) <= 160)
        ctx.count("deep_chains")
        if too_many(ctx):
            break
    batch.flush()
    ctx.sample({"recipe": recipe})


CORPUS = [
    # regression witnesses and shapes that once mattered
    {"kind": "nested", "tree": ["tag", 0, "div", [], [["str", 0, ""], ["str", 0, "  "], ["tag", 0, "b", [], [["str", 4, "c"]]], ["str", 1, " d "]]]},
    {"kind": "nested", "tree": ["soup", [["tag", 2, "script", [], [["str", 8, "s"], ["str", 0, "plain"]]], ["str", 0, "t"]]]},
    {"kind": "nested", "tree": ["tag", 1, "q", [4, 14], [["str", 4, "c"], ["str", 14, "sc"], ["tag", 0, "p", [], [["str", 4, "in"]]]]]},
    {"kind": "events", "cfg": "html", "events": jsonable_events(FIXED_EVENTS[0]),
     "ops": [["new_str", 8, "late"], ["append", 1, ["o", 8]], ["extract", 3], ["smooth", 0]]},
    {"kind": "markup", "config": "default", "markup": "<p>a<b>b</b>c</p>", "ops": [["unwrap", 3], ["smooth", 1], ["set_string", 1, ["s", " z "]]]},
]


def run_corpus(ctx):
    forms = types_forms()
    batch = Batch(ctx)
    import os
    recipes = list(CORPUS)
    cdir = os.path.join(os.path.dirname(os.path.dirname(os.path.dirname(os.path.abspath(__file__)))), "corpus", "C13")
    if os.path.isdir(cdir):
        for fn in sorted(os.listdir(cdir)):
            if fn.endswith(".json"):
                recipes.append(json.load(open(os.path.join(cdir, fn)))["recipe"])
    for recipe in recipes:
        base = dict(recipe)
        ops = base.pop("ops", [])
        base["ops"] = []
        w = make_world(base)
        if w.parsed and not ops:
            check_parsed_classes(ctx, recipe, w)
        batch.add(json.loads(json.dumps(base)), w, all_queries(w, forms, ["", "|"]))
        for op in ops:
            apply_op(w, op)
            base["ops"].append(op)
            batch.add(json.loads(json.dumps(base)), w, all_queries(w, forms, ["", "|"]))
    batch.flush()


def run(ctx):
    run_corpus(ctx)
    strip_sweep(ctx)
    config_grid(ctx)
    run_exhaustive(ctx)
    if not too_many(ctx):
        run_deep(ctx)
    if not too_many(ctx):
        run_parsed(ctx)
    if not too_many(ctx):
        run_histories(ctx)
    # the replay written for a violation is the first unlisted failure: put the smallest case first
    ctx.failures.sort(key=lambda f: len(json.dumps(f["case"], default=repr)))


# ------------------------------------------------------------------------------------ known findings / replay
def _is_k1(f):
    return f.get("tag") == "cdata-in-container"


def _is_k2(f):
    return f.get("tag") == "element-classes"


KNOWN_MATCHERS = {"cdata_section_inside_container": _is_k1, "replacement_string_classes": _is_k2}


def replay_known(ctx, k):
    import common
    c = common.Ctx(ctx.prop, "quick", 0)
    c.build = type("B", (), {"model_ok": False})()
    recipe = k["witness"]["recipe"]
    w = make_world(recipe)
    check_parsed_classes(c, recipe, w)
    return any(KNOWN_MATCHERS[k["matcher"]](f) for f in c.failures)


def replay(ctx, data):
    import common
    f = (data.get("failure") or {}).get("case") or (data.get("disagreements") or [{}])[0].get("case")
    if not f:
        print("nothing to replay: kind=%s, no longer checks: %s" % (data.get("kind"), data.get("no_longer_checks")))
        return 1
    if "recipe" not in f:
        print("case:", json.dumps(f)[:2000])
        if "top" in f:
            got, exp = eval_sc_case(f)
            print("string_container -> class %s ; the rule requires %s" % (got, exp))
            return 1 if (exp is not None and got != exp) else 0
        if "passed" in f:
            got, exp = eval_ist_case(f)
            print("interesting_string_types -> %s ; the rule requires %s" % (got, exp))
            return 1 if got != exp else 0
        if "string" in f:
            t = "".join(map(chr, f["string"]))
            print("str.strip -> %r ; independent trim -> %r" % (t.strip(), trim(t)))
            return 1 if t.strip() != trim(t) else 0
        return 1
    recipe = f["recipe"]
    c = common.Ctx(ctx.prop, "quick", 0)
    c.build = type("B", (), {"model_ok": False})()
    w = make_world(recipe)
    print("recipe:", json.dumps(recipe)[:3000])
    if len(w.forest.objs) <= 200:
        for root in w.forest.roots():
            print("tree:", T.impl_shape(root))
    else:
        print("tree: %d elements (not printed)" % len(w.forest.objs))
    if w.parsed:
        check_parsed_classes(c, recipe, w)
        if "truth" in recipe:
            check_truth(c, recipe, w)
    forms = types_forms()
    if "interleave" in f:
        print("consumed step by step:", json.dumps(f["interleave"]))
        run_interleaved(c, recipe, f["interleave"], forms)
    q = f.get("query")
    only = None
    if q and "strip" in q:
        form = [fm for fm in forms if fm[2] == q["types"]]
        qs = [(q["element"], q["strip"], form[0], q["separator"])] if form else all_queries(w, forms, ["", "|"], [q["element"]])
        only = {q["element"]}
    elif q and "element" in q:
        qs = all_queries(w, forms, ["", "|"], [q["element"]])
        only = {q["element"]}
    else:
        qs = all_queries(w, forms, ["", "|"]) if len(w.forest.objs) <= 200 else []
    b = Batch(c)
    b.add(recipe, w, qs, string_elements=only, to_model=False)
    for x in c.failures[:5]:
        print("FAIL:", x["what"])
        print("  query   :", x["case"].get("query") or x["case"].get("interleave") or {k: v for k, v in x["case"].items() if k != "recipe"})
        print("  observed:", x["observed"])
        print("  expected:", x["expected"])
    if not c.failures:
        print("the direct oracle finds no violation on this case now")
    return 1 if c.failures else 0
