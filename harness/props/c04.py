"""C04 — html.parser documents become the tree the markup describes.

Tie: the standard library's callback stream is *recorded* (a logging subclass installed in place of
BeautifulSoupHTMLParser, so HTMLParserTreeBuilder.feed itself stays on the path) and replayed through
coq/Model/Adapter.v + Model/Build.v; compared: the calls made on the soup object, the tree (names, attributes
after the multi-valued split, string classes and values, nesting) and, on writer-generated documents, the
Spec side (Spec/DocSpec.v: ideal callbacks, expected tree).
Direct oracles (independent of the model): (1) the generating tree of a random document written by an
independent writer; (2) an independent Python fold of the recorded callbacks by the documented rules.
C18 (harness/props/c18.py) reuses the writer, the recorder and the configurations.
"""
import codecs, html.entities, html.parser, itertools, json, os, re, warnings
import bs4
from bs4 import BeautifulSoup
import bs4.builder._htmlparser as HP
from bs4.element import (Tag, NavigableString, Comment, CData, ProcessingInstruction, XMLProcessingInstruction,
                         Declaration, Doctype, Stylesheet, Script, TemplateString, RubyTextString,
                         RubyParenthesisString)
import common, tokrec

RULE = ("(a) documents written from a random tree model by an independent writer: void elements spelled <br>, <br/>, "
        "<br></br> at random (also with blanks inside the tags), non-void empty elements as <p></p> or <p/>, tag and "
        "attribute names in random case, attribute values double-/single-/un-quoted or absent, duplicates, text "
        "characters literal or as decimal / hex / named references (with and without ';'), comments, CDATA, doctype, "
        "marked sections, processing instructions (content empty and whitespace-only included), script/style raw text, pre/textarea, ruby/template containers, "
        "random whitespace and newlines; (b) exhaustive: every concatenation of <= 4 (quick) / <= 5 (thorough) pieces "
        "of {<br>, <br/>, </br>, <p>, </p>, <p/>, x, blank, <!--c-->}; (c) malformed: token soup and character-level "
        "mutations of (a); each under 11 builder configurations (default; on_duplicate_attribute replace / ignore / "
        "callable; multi_valued_attributes None / custom; custom string_containers; custom preserve_whitespace_tags; "
        "custom, None and EMPTY empty_element_tags; string_containers mapping to PreformattedString classes; store_line_numbers off); plus whitespace-centred documents (multi-character whitespace-only text, lone tab/CR/FF, elements nested in elements of the same whitespace-preserving / container name) and all concatenations of <= 4/5 pieces of {<pre>, </pre>, <b>, </b>, blank+tab, two newlines, x}. Non-trivial: the tree has >= 3 nodes. Distinct "
        "by (configuration, markup).")
ASSUMPTIONS = [
    "the standard-library tokenizer (html.parser.HTMLParser, convert_charrefs=False) is not part of the repository: the "
    "theorems about arbitrary input take its callback stream as recorded; Model/Tokenizer.v models it (tied by "
    "correspondence on every input here and in C18's check, and by pattern / source fingerprints proved in Props/C18.v), "
    "and for the sub-grammar Spec.DocWrite.simple_doc (lower-case names, script/style with raw text free of '<', attributes bare or "
    "double-quoted without '&', text without '<' '&', ...) C04_string_tree_partial proves that the written TEXT becomes the tree; outside that sub-grammar, that "
    "the tokenizer tokenizes a written document as Spec.DocSpec.hevents_of says is measured on every generated document, "
    "not proved",
    "handle_charref: int() is modelled on the tokenizer's grammar ([0-9]+ | [xX][0-9a-fA-F]+) with unbounded "
    "integers; names outside it (never sent by the tokenizer) and int()'s digit limit (> 4300 digits; left to C06) "
    "are outside the model",
    "bytearray([b]).decode(original_encoding) is a recorded table of the Python codec; windows-1252 is the oracle "
    "table Gen/Stdlib.v",
    "str.upper() in unknown_decl modelled on ASCII letters (translator checks no other character upper-cases into "
    "CDATA[)",
    "parse_only / element_classes are not used (handle_starttag never rejects a tag)",
    "the on_duplicate_attribute callable on both sides is the fixed function d[k] = d[k] + ',' + v",
]

CLASSES = [NavigableString, CData, ProcessingInstruction, XMLProcessingInstruction, Comment, Declaration, Doctype,
           Stylesheet, Script, TemplateString, RubyTextString, RubyParenthesisString]
CLASS_ID = {c: i for i, c in enumerate(CLASSES)}
SPACES = " \n\t\x0c\r"                      # the documented ASCII whitespace (not read from the implementation)
ROOT = "[document]"

# the documented defaults, written out here (the oracle must not read them from the implementation)
DOC_VOID = ["area", "base", "br", "col", "embed", "hr", "img", "input", "keygen", "link", "menuitem", "meta", "param",
            "source", "track", "wbr", "basefont", "bgsound", "command", "frame", "image", "isindex", "nextid", "spacer"]
DOC_PW = ["pre", "textarea"]
DOC_CONT = {"rt": 10, "rp": 11, "style": 7, "script": 8, "template": 9}
DOC_MVA = {"*": ["class", "accesskey", "dropzone"], "a": ["rel", "rev"], "link": ["rel", "rev"], "td": ["headers"],
           "th": ["headers"], "form": ["accept-charset"], "object": ["archive"], "area": ["rel"], "icon": ["sizes"],
           "iframe": ["sandbox"], "output": ["for"]}


def concat_dupe(d, k, v):
    d[k] = d[k] + "," + v


def mk_config(name, kwargs, void=DOC_VOID, pw=DOC_PW, cont=DOC_CONT, mva=DOC_MVA, dup=0, store=True):
    return {"name": name, "kwargs": kwargs, "void": None if void is None else sorted(void), "pw": sorted(pw),
            "cont": dict(cont), "mva": mva, "dup": dup, "store": store}


CONFIGS = [
    mk_config("default", {}),
    mk_config("dup-replace", {"on_duplicate_attribute": "replace"}),
    mk_config("dup-ignore", {"on_duplicate_attribute": "ignore"}, dup=1),
    mk_config("dup-callable", {"on_duplicate_attribute": concat_dupe}, dup=2),
    mk_config("mva-none", {"multi_valued_attributes": None}, mva=None),
    mk_config("mva-custom", {"multi_valued_attributes": {"*": {"id"}, "p": {"data-x", "class"}}},
              mva={"*": ["id"], "p": ["data-x", "class"]}),
    mk_config("containers-custom", {"string_containers": {"b": RubyTextString, "p": Script},
                                    "preserve_whitespace_tags": {"p", "span"}},
              cont={"b": 10, "p": 8}, pw=["p", "span"]),
    mk_config("void-custom", {"empty_element_tags": {"br", "p", "xv"}, "store_line_numbers": False},
              void=["br", "p", "xv"], store=False),
    mk_config("void-none", {"empty_element_tags": None, "preserve_whitespace_tags": set(), "string_containers": {}},
              void=None, pw=[], cont={}),
    # an EMPTY collection says "no element is void" (None says "any childless element may be")
    mk_config("void-empty", {"empty_element_tags": set()}, void=[]),
    # string_containers only chooses the CLASS of the text, also when that class is a PreformattedString subclass:
    # whitespace-only text is still text
    mk_config("containers-preformatted", {"string_containers": {"b": CData, "p": Comment, "pre": CData, "td": Declaration}},
              cont={"b": 1, "p": 4, "pre": 1, "td": 5}),
]
CONFIG = {c["name"]: c for c in CONFIGS}


def enc_acfg(c, orig=None):
    bcfg = [[] if c["void"] is None else [list(c["void"])], list(c["pw"]),
            [[k, v] for k, v in sorted(c["cont"].items())], SPACES, ROOT]
    return [bcfg, c["dup"], c["store"], [] if orig is None else [orig]]


def enc_mva(c):
    m = c["mva"]
    return [] if m is None else [[[k, sorted(v)] for k, v in sorted(m.items())]]


# ------------------------------------------------------------------ recording the callbacks
RealParser = HP.BeautifulSoupHTMLParser
CALLBACKS = ["handle_starttag", "handle_startendtag", "handle_endtag", "handle_data", "handle_charref",
             "handle_entityref", "handle_comment", "handle_decl", "unknown_decl", "handle_pi"]


class Log:
    def __init__(self):
        self.hevs = []        # top-level callbacks: (kind, args..., getpos())
        self.calls = []       # calls made on the soup object by the adapter
        self.toks = []        # (slice consumed by updatepos, getpos() afterwards)
        self.final_ac = None


class SoupProxy:
    """Stands between the adapter and the BeautifulSoup object and notes the four construction calls."""

    def __init__(self, soup, log):
        object.__setattr__(self, "_soup", soup)
        object.__setattr__(self, "_log", log)

    def __getattr__(self, k):
        return getattr(self._soup, k)

    def __setattr__(self, k, v):
        setattr(self._soup, k, v)

    def handle_starttag(self, name, namespace, nsprefix, attrs, sourceline=None, sourcepos=None, namespaces=None):
        self._log.calls.append(("s", name, nsprefix, [(str(k), v if isinstance(v, str) else repr(v)) for k, v in attrs.items()],
                                None if sourceline is None and sourcepos is None else (sourceline, sourcepos)))
        return self._soup.handle_starttag(name, namespace, nsprefix, attrs, sourceline=sourceline,
                                          sourcepos=sourcepos, namespaces=namespaces)

    def handle_endtag(self, name, nsprefix=None):
        self._log.calls.append(("e", name, nsprefix))
        return self._soup.handle_endtag(name, nsprefix)

    def handle_data(self, data):
        self._log.calls.append(("d", data))
        return self._soup.handle_data(data)

    def endData(self, containerClass=None):
        self._log.calls.append(("x", None if containerClass is None else CLASS_ID.get(containerClass, -1)))
        return self._soup.endData(containerClass)


CURRENT = [None]


def _wrap(name):
    real = getattr(RealParser, name)

    def f(self, *args, **kw):
        if self._vdepth == 0:
            self._vlog.hevs.append((name,) + tuple(args) + (self.getpos(),))
        self._vdepth += 1
        try:
            return real(self, *args, **kw)
        finally:
            self._vdepth -= 1
    f.__name__ = name
    return f


class LogParser(RealParser):
    def __init__(self, soup, *a, **kw):
        self._vlog = CURRENT[0]
        self._vdepth = 0
        super().__init__(SoupProxy(soup, self._vlog), *a, **kw)

    def updatepos(self, i, j):
        r = super().updatepos(i, j)
        if i < j:
            self._vlog.toks.append((self.rawdata[i:j], self.getpos()))
        return r

    def close(self):
        r = super().close()
        self._vlog.final_ac = list(self.already_closed_empty_element)
        return r


for _n in CALLBACKS:
    setattr(LogParser, _n, _wrap(_n))


def parse_plain(markup, kwargs):
    with warnings.catch_warnings():
        warnings.simplefilter("ignore")
        try:
            return BeautifulSoup(markup, "html.parser", **kwargs)
        except Exception as e:
            return "EXC:" + type(e).__name__


def parse_logged(markup, kwargs):
    log = Log()
    CURRENT[0] = log
    HP.BeautifulSoupHTMLParser = LogParser
    try:
        with warnings.catch_warnings():
            warnings.simplefilter("ignore")
            try:
                soup = BeautifulSoup(markup, "html.parser", **kwargs)
            except Exception as e:
                soup = "EXC:" + type(e).__name__
    finally:
        HP.BeautifulSoupHTMLParser = RealParser
        CURRENT[0] = None
    return soup, log


class PureLogger(html.parser.HTMLParser):
    """The standard-library parser on its own (no bs4 code): the callbacks it emits for an input, fed whole and
    closed -- the reference for 'the event stream the standard-library parser emits for that input'."""

    def __init__(self):
        super().__init__(convert_charrefs=False)
        self.events = []
        self._d = 0


def _pure(name):
    real = getattr(html.parser.HTMLParser, name)

    def f(self, *args):
        if self._d == 0:
            self.events.append((name,) + tuple(args) + (self.getpos(),))
        self._d += 1
        try:
            return real(self, *args)
        finally:
            self._d -= 1
    return f


for _n in CALLBACKS:
    setattr(PureLogger, _n, _pure(_n))


def stdlib_events(markup):
    p = PureLogger()
    try:
        p.feed(markup)
        p.close()
    except AssertionError:
        return None
    return p.events


HKIND = {n: i for i, n in enumerate(CALLBACKS)}


def enc_hev(h):
    k = HKIND[h[0]]
    if k in (0, 1):
        return [k, h[1], [[a, [] if v is None else [v]] for a, v in h[2]], list(h[-1])]
    return [k, h[1]]


# ------------------------------------------------------------------ shapes
def impl_shape(o):
    """("root", kids) | ("tag", name, attrs, pos, kids) | ("str", class id, text)"""
    if isinstance(o, BeautifulSoup):
        return ("root", tuple(impl_shape(c) for c in o.contents))
    if isinstance(o, Tag):
        attrs = tuple((str(k), tuple(str(x) for x in v) if isinstance(v, list) else str(v)) for k, v in o.attrs.items())
        pos = None if o.sourceline is None and o.sourcepos is None else (o.sourceline, o.sourcepos)
        return ("tag", o.name if o.prefix is None else "%s:%s" % (o.prefix, o.name), attrs, pos,
                tuple(impl_shape(c) for c in o.contents))
    return ("str", CLASS_ID.get(type(o), -1), str(o))


def strip_pos(s):
    if s[0] == "root":
        return ("root", tuple(strip_pos(c) for c in s[1]))
    if s[0] == "tag":
        return ("tag", s[1], s[2], tuple(strip_pos(c) for c in s[4]))
    return s


def positions(s, out=None):
    """(name, pos) of every tag in document order."""
    out = [] if out is None else out
    if s[0] == "tag":
        out.append((s[1], s[3]))
    if s[0] != "str":
        for c in s[-1]:
            positions(c, out)
    return out


def count_nodes(s):
    return 1 if s[0] == "str" else 1 + sum(count_nodes(c) for c in s[-1])


def _s(l):
    return "".join(map(chr, l))


def model_shape(nodes, tagpos):
    """Model/Build heap (4001) -> the same shape. nodes[i] = [kind, par, kids, name, cls, void, attrs];
    tag positions come in creation order = index order."""
    order = [i for i, n in enumerate(nodes) if n[0] == 0]
    pmap = {i: np for i, np in zip(order, tagpos)}

    def go(i):
        kind, par, kids, name, cls, void, attrs = nodes[i]
        if kind in (1, 2):
            return ("str", cls, _s(name))
        if kind == 3:
            return ("root", tuple(go(k) for k in kids))
        n, p = pmap[i]
        at = tuple((_s(k), tuple(_s(x) for x in v[1]) if v[0] == 1 else _s(v[1])) for k, v in attrs)
        return ("tag", _s(name), at, None if not p else tuple(p[0]), tuple(go(k) for k in kids))
    return go(0)


# ------------------------------------------------------------------ oracle 2: independent fold of the callbacks
def split_mva(c, tag, attrs):
    """attrs: list of (k, v) unique keys. The documented multi-valued rule, written independently."""
    m = c["mva"]
    if not m:
        return tuple(attrs)
    out = []
    for k, v in attrs:
        if k in m.get("*", ()) or k in m.get(tag.lower(), ()):
            v = tuple(v.split())
        out.append((k, v))
    return tuple(out)


def fold_attrs(c, attrs):
    vals, order = {}, []
    for k, v in attrs:
        v = "" if v is None else v
        if k in vals:
            if c["dup"] == 0:
                vals[k] = v
            elif c["dup"] == 2:
                vals[k] = vals[k] + "," + v
        else:
            vals[k] = v
            order.append(k)
    return [(k, vals[k]) for k in order]


def is_void(c, name):
    return c["void"] is None or name in c["void"]


def cp1252_char(v):
    try:
        return bytes([v]).decode("windows-1252")
    except UnicodeDecodeError:
        return None


def charref_denotation(name, orig=None):
    """The characters a numeric reference denotes (HTML: C1 range read as windows-1252)."""
    v = int(name[1:], 16) if name[:1] in "xX" else int(name)
    if v < 256:
        ch = cp1252_char(v)
        if ch is not None:
            return ch
        if orig:
            try:
                d = bytes([v]).decode(orig)
                if d:
                    return d
            except UnicodeDecodeError:
                pass
    if v < 0x110000:
        return chr(v)
    return "�"


HTML5 = html.entities.html5


def entity_denotation(name):
    if name + ";" in HTML5:
        return HTML5[name + ";"]
    if name in HTML5:
        return HTML5[name]
    return "&" + name


class N:
    __slots__ = ("kind", "name", "attrs", "cls", "text", "kids")

    def __init__(self, kind, name=None, attrs=(), cls=0, text=None):
        self.kind, self.name, self.attrs, self.cls, self.text, self.kids = kind, name, attrs, cls, text, []

    def shape(self):
        if self.kind == "str":
            return ("str", self.cls, self.text)
        if self.kind == "root":
            return ("root", tuple(k.shape() for k in self.kids))
        return ("tag", self.name, self.attrs, tuple(k.shape() for k in self.kids))


def oracle_fold(hevs, c, orig=None):
    """Independent statement: the documented adapter rules + the documented construction rules (C03)."""
    root = N("root", ROOT)
    stack = [root]
    pending = []
    awaiting = {}            # void names auto-closed and awaiting a possible redundant end tag (a multiset)

    def flush(cls=None):
        if not pending:
            return
        text = "".join(pending)
        del pending[:]
        if not cls and not any(n.name in c["pw"] for n in stack) and all(ch in SPACES for ch in text):
            text = "\n" if "\n" in text else " "          # whitespace-only TEXT collapses; special strings keep their content
        if not cls:
            cls = 0
            for n in reversed(stack):
                if n.name in c["cont"]:
                    cls = c["cont"][n.name]
                    break
        stack[-1].kids.append(N("str", cls=cls, text=text))

    def start(name, attrs):
        flush()
        n = N("tag", name, split_mva(c, name, fold_attrs(c, attrs)))
        stack[-1].kids.append(n)
        stack.append(n)

    def end(name):
        flush()
        if name == ROOT:
            return
        for i in range(len(stack) - 1, 0, -1):
            if stack[i].name == name:
                del stack[i:]
                break

    def special(text, cls):
        flush()
        pending.append(text)
        flush(cls)
    for h in hevs:
        k = h[0]
        if k == "handle_starttag":
            start(h[1], h[2])
            if is_void(c, h[1]):
                end(h[1])
                awaiting[h[1]] = awaiting.get(h[1], 0) + 1
        elif k == "handle_startendtag":
            start(h[1], h[2])
            end(h[1])
        elif k == "handle_endtag":
            if awaiting.get(h[1], 0) > 0:
                awaiting[h[1]] -= 1          # the redundant end tag of <br></br>: nothing happens
            else:
                end(h[1])
        elif k == "handle_data":
            pending.append(h[1])
        elif k == "handle_charref":
            pending.append(charref_denotation(h[1], orig))
        elif k == "handle_entityref":
            pending.append(entity_denotation(h[1]))
        elif k == "handle_comment":
            special(h[1], 4)
        elif k == "handle_decl":
            special(h[1][8:], 6)
        elif k == "unknown_decl":
            if h[1][:6].upper() == "CDATA[":
                special(h[1][6:], 1)
            else:
                special(h[1], 5)
        elif k == "handle_pi":
            special(h[1], 2)
    flush()
    return root.shape()


# ------------------------------------------------------------------ oracle 1: random documents and their writer
# document model (JSON-able lists):
#  ["text", s] ["comment", s] ["cdata", s] ["doctype", s] ["decl", s] ["pi", s]
#  ["void", name, attrs] ["elem", name, attrs, kids] ["raw", name, attrs, text]      attrs: [[k, v|None], ...]
NAMED = {}
for _k, _v in HTML5.items():
    if _k.endswith(";") and len(_v) == 1:
        NAMED.setdefault(_v, []).append(_k[:-1])
NOSEMI = {k for k in HTML5 if not k.endswith(";")}

TEXT_ALPHA = ["a", "b", "xy", "Z", "0", " ", " ", "  ", "\n", "\t", "<", ">", "&", "\"", "'", "é", "\xa0", "—", "€",
              "☃", "\U0001f600", ";", "#", "&amp", "&lt;", "=", "/", "-", "]", "\x85", "\x0c", "\r"]
ELEMS = ["p", "div", "b", "span", "a", "td", "ul", "li", "pre", "textarea", "rt", "rp", "ruby", "template", "table",
         "x-y", "h1", "xv", "title"]
VOIDS_GEN = ["br", "hr", "img", "input", "meta", "link", "wbr"]
RAWS = ["script", "style"]
ATTR_NAMES = ["class", "id", "href", "rel", "headers", "data-x", "title", "accesskey", "x:y", "disabled", "rev"]
ATTR_VALS = ["", "v", "a b", " x  y\tz ", "1", "é", "a&b", "q\"q", "it's", "<x>", "a\nb", "&amp;", "x=y", "☃ ☃"]


def gen_text(rng, allow_ws_only=True):
    while True:
        s = "".join(rng.choice(TEXT_ALPHA) for _ in range(rng.randint(1, 6)))
        if allow_ws_only or s.strip(SPACES):
            return s


def ok_comment(s):
    return not ("--" in s or s.startswith(">") or s.startswith("->") or s.endswith("-"))


def ok_cdata(s):
    m = re.search(r"\]\s*\]\s*>", s + "]]>")
    return m is not None and m.end() == len(s) + 3 and ">" not in s


def gen_special_text(rng, ok):
    while True:
        s = "".join(rng.choice(["a", "b c", " ", " ", "\n", "\t", "-", "<", "&amp;", "é", "]", "x", "=", "\"", "'", "/", "!", "?"])
                    for _ in range(rng.choice([0, 1, 1, 2, 3, 4, 5])))
        if ok(s):
            return s


def gen_attrs(rng, dups=True):
    out = []
    for _ in range(rng.choice([0, 0, 1, 1, 2, 3])):
        k = rng.choice(ATTR_NAMES)
        if not dups and any(k == a for a, _ in out):
            continue
        out.append([k, rng.choice(ATTR_VALS + [None])])
    return out


def gen_nodes(rng, c, depth, budget):
    out = []
    n = rng.randint(0, 4) if depth else rng.randint(1, 5)
    for _ in range(n):
        if budget[0] <= 0:
            break
        budget[0] -= 1
        r = rng.random()
        if r < 0.28:
            out.append(["text", gen_text(rng)])
        elif r < 0.34:
            out.append(["comment", gen_special_text(rng, ok_comment)])
        elif r < 0.38:
            out.append(["cdata", gen_special_text(rng, ok_cdata)])
        elif r < 0.41:
            out.append(["pi", gen_special_text(rng, lambda s: ">" not in s)])
        elif r < 0.43:
            out.append(["doctype", gen_special_text(rng, lambda s: ">" not in s)])
        elif r < 0.45:
            out.append(["decl", "if " + gen_special_text(rng, lambda s: ">" not in s and "]" not in s)])
        elif r < 0.62:
            pool = VOIDS_GEN if c["void"] is not None else VOIDS_GEN + ELEMS
            pool = [x for x in pool + (["xv", "p"] if c["void"] and "xv" in c["void"] else []) if is_void(c, x)]
            if not pool:                      # a configuration without void elements: the tag is an ordinary element
                pool2 = [x for x in VOIDS_GEN + ELEMS if not is_void(c, x)]
                out.append(["elem", rng.choice(pool2), gen_attrs(rng), []])
                continue
            out.append(["void", rng.choice(pool), gen_attrs(rng)])
        elif r < 0.67 and c["void"] is not None:
            raw = rng.choice(RAWS)
            txt = rng.choice(["", "x", "a&amp;b", "if (a<b) {}", " \n ", "&#65;", "<!--c-->", "a\n\nb"])
            out.append(["raw", raw, gen_attrs(rng), txt])
        else:
            pool = [x for x in ELEMS if not is_void(c, x)]
            if not pool:
                continue
            out.append(["elem", rng.choice(pool), gen_attrs(rng),
                        gen_nodes(rng, c, depth + 1, budget) if depth < 4 else []])
    # adjacent text nodes are one run of character data
    merged = []
    for x in out:
        if x[0] == "text" and merged and merged[-1][0] == "text":
            merged[-1] = ["text", merged[-1][1] + x[1]]
        else:
            merged.append(x)
    return merged


WS_TEXTS = ["  ", " \t", "\n\n", "\n ", "\t", "\r", "\x0c", " \n ", "   ", " ", "\n"]


def gen_ws_nodes(rng, c, depth, parent, budget):
    """Documents about the whitespace and string-class rules: whitespace-only text of several characters (and lone
    tab / CR / FF) between and inside elements drawn from the configuration's whitespace-preserving names, its
    string-container names and two plain ones, with an element often nested in another of the SAME name."""
    pool = [n for n in dict.fromkeys(list(c["pw"]) + list(c["cont"]) + ["pre", "b", "div", "p"])
            if not is_void(c, n) and n not in RAWS]
    out = []
    for _ in range(rng.randint(1, 4)):
        if budget[0] <= 0:
            break
        budget[0] -= 1
        r = rng.random()
        if r < 0.42:
            out.append(["text", rng.choice(WS_TEXTS)])
        elif r < 0.50:
            out.append(["text", rng.choice(["x", "a b", " x "])])
        elif r < 0.56:
            out.append(["comment", rng.choice(["", " ", "\n\n", "c", " \t"])])
        elif pool and depth < 4:
            name = parent if (parent in pool and rng.random() < 0.45) else rng.choice(pool)
            out.append(["elem", name, [], gen_ws_nodes(rng, c, depth + 1, name, budget)])
        else:
            out.append(["text", rng.choice(WS_TEXTS)])
    merged = []
    for x in out:
        if x[0] == "text" and merged and merged[-1][0] == "text":
            merged[-1] = ["text", merged[-1][1] + x[1]]
        else:
            merged.append(x)
    return merged


def gen_ws_doc(rng, c):
    return gen_ws_nodes(rng, c, 0, None, [rng.choice([5, 9, 14])])


def gen_doc(rng, c, size=None):
    return gen_nodes(rng, c, 0, [size or rng.choice([4, 8, 14, 25])])


def expected_tree(doc, c):
    """The tree the document describes (no positions)."""
    def attrs(tag, a):
        return split_mva(c, tag, fold_attrs(c, [(k.lower(), v) for k, v in a]))

    def string(text, cls, pres, cont):
        if cls == 0:
            cls = cont
        return ("str", cls, text)

    def go(nodes, pres, cont):
        out = []
        for x in nodes:
            k = x[0]
            if k == "text":
                t = x[1]
                if not pres and all(ch in SPACES for ch in t):
                    t = "\n" if "\n" in t else " "
                out.append(("str", cont, t))
            elif k in ("comment", "cdata", "pi", "doctype", "decl"):
                out.append(("str", {"comment": 4, "cdata": 1, "pi": 2, "doctype": 6, "decl": 5}[k], x[1]))
            elif k == "void":
                out.append(("tag", x[1].lower(), attrs(x[1].lower(), x[2]), ()))
            elif k == "raw":
                n = x[1].lower()
                p2 = pres or n in c["pw"]
                c2 = c["cont"].get(n, cont)
                kids = go([["text", x[3]]], p2, c2) if x[3] else ()
                out.append(("tag", n, attrs(n, x[2]), tuple(kids)))
            else:
                n = x[1].lower()
                out.append(("tag", n, attrs(n, x[2]), tuple(go(x[3], pres or n in c["pw"], c["cont"].get(n, cont)))))
        return out
    return ("root", tuple(go(doc, False, 0)))


def case_mix(rng, s):
    return "".join(ch.upper() if rng.random() < 0.3 else ch for ch in s)


class Writer:
    """Writes a document model as markup, choosing spellings at random. Records, besides the markup, the
    Spec.DocSpec document (the pieces as written: text / charref / entity runs, void spellings) and the offset of
    every start tag."""

    def __init__(self, rng, c):
        self.rng, self.c = rng, c
        self.parts = []
        self.n = 0
        self.tags = []          # (name, offset) per start tag, document order

    def emit(self, s):
        self.parts.append(s)
        self.n += len(s)

    def ws(self, must=False):
        r = self.rng.random()
        if r < 0.7:
            return " " if must else ""
        return self.rng.choice([" ", "  ", "\n", " \n ", "\t", "\r\n"])

    def write_text(self, t):
        """-> list of dnodes [0,text] / [1,charref name] / [2,entity name]"""
        rng = self.rng
        dn = []

        def lit(s):
            if dn and dn[-1][0] == 0:
                dn[-1][1] += s
            else:
                dn.append([0, s])
            self.emit(s)
        i = 0
        while i < len(t):
            ch = t[i]
            nxt = t[i + 1] if i + 1 < len(t) else ""
            r = rng.random()
            must = ch in "<&"
            if ch == "<" and nxt and nxt in " 0=;" and r < 0.3:
                lit(ch)                                   # '<' not followed by a letter, '/', '!' or '?' is text
            elif ch == "&" and nxt and nxt in " <=;\"'" and r < 0.3:
                lit(ch)                                   # '&' not followed by a letter or '#' is text
            elif must or r < 0.25:
                forms = ["d", "x", "X"]
                if ch in NAMED:
                    forms += ["n", "n", "n"]
                f = rng.choice(forms)
                if f == "n":
                    name = rng.choice(NAMED[ch])
                    semi = ";"
                    if name in NOSEMI and nxt == " " and rng.random() < 0.5:
                        semi = ""                         # a legacy reference followed by a blank needs no ';'
                    dn.append([2, name])
                    self.emit("&" + name + semi)
                else:
                    v = ord(ch)
                    if 0x80 <= v <= 0x9f or v == 0x0d:
                        lit(ch)                           # C1 references are re-read as windows-1252: write the character
                    else:
                        name = {"d": "%d" % v, "x": "x%x" % v, "X": "X%X" % v}[f]
                        if rng.random() < 0.15:
                            name = name[0] + "000" + name[1:] if f != "d" else "00" + name
                        dn.append([1, name])
                        self.emit("&#" + name + ";")
            else:
                lit(ch)
            i += 1
        return dn

    def write_attrs(self, attrs):
        rng = self.rng
        last_bare = False
        for k, v in attrs:
            self.emit(self.ws(True) or " ")
            self.emit(case_mix(rng, k))
            last_bare = False
            if v is None:
                last_bare = True
                continue
            eq = rng.choice(["=", "=", " = ", "=\n"])
            bare_ok = v != "" and re.fullmatch(r"[A-Za-z0-9_.:é☃-]+", v) is not None
            style = rng.choice(["dq", "sq", "bare"] if bare_ok else ["dq", "sq"])
            if style == "bare":
                self.emit(eq + v)
                last_bare = True
            else:
                q = '"' if style == "dq" else "'"
                esc = v.replace("&", "&amp;").replace(q, "&quot;" if q == '"' else "&#39;")
                if rng.random() < 0.3:
                    esc = esc.replace("<", "&lt;").replace(">", "&gt;")
                self.emit(eq + q + esc + q)
        return last_bare

    def start(self, name, attrs, selfclose=False):
        off = self.n
        self.tags.append((name.lower(), off))
        self.emit("<" + case_mix(self.rng, name))
        bare = self.write_attrs(attrs)
        sep = self.ws()
        if selfclose:
            if bare and sep == "":
                sep = " "                 # "<br x=a/>" would make the slash part of the value
            self.emit(sep + "/>")
        else:
            self.emit(sep + ">")
        return off

    def end(self, name):
        self.emit("</" + case_mix(self.rng, name) + self.ws() + ">")

    def hattrs(self, attrs):
        return [[k.lower(), [] if v is None else [v]] for k, v in attrs]

    def write_nodes(self, nodes):
        rng = self.rng
        dn = []
        for x in nodes:
            k = x[0]
            if k == "text":
                dn += self.write_text(x[1])
            elif k == "comment":
                self.emit("<!--" + x[1] + "-->")
                dn.append([3, x[1]])
            elif k == "cdata":
                kw = rng.choice(["CDATA[", "CDATA[", "cdata[", "CdAtA["])
                self.emit("<![" + kw + x[1] + "]]>")
                dn.append([5, kw, x[1]])
            elif k == "pi":
                self.emit("<?" + x[1] + ">")
                dn.append([7, x[1]])
            elif k == "doctype":
                kw = rng.choice(["DOCTYPE ", "DOCTYPE ", "doctype ", "DocType\n", "DOCTYPE\t"])
                self.emit("<!" + kw + x[1] + ">")
                dn.append([4, kw, x[1]])
            elif k == "decl":
                self.emit("<![" + x[1] + "]>")
                dn.append([6, x[1]])
            elif k == "void":
                sp = rng.choice([0, 1, 2])
                off = self.start(x[1], x[2], selfclose=(sp == 1))
                if sp == 2:
                    self.end(x[1])
                dn.append([8, x[1].lower(), self.hattrs(x[2]), off, sp])
            elif k == "raw":
                off = self.start(x[1], x[2])
                kids = []
                if x[3]:
                    self.emit(x[3])
                    kids = [[0, x[3]]]
                self.end(x[1])
                dn.append([10, x[1].lower(), self.hattrs(x[2]), off, kids])
            else:
                if not x[3] and rng.random() < 0.3:
                    off = self.start(x[1], x[2], selfclose=True)
                    dn.append([9, x[1].lower(), self.hattrs(x[2]), off])
                else:
                    off = self.start(x[1], x[2])
                    kids = self.write_nodes(x[3])
                    self.end(x[1])
                    dn.append([10, x[1].lower(), self.hattrs(x[2]), off, kids])
        return dn


def linecol(text, off):
    """The property's position: 1-based line, 0-based column ('\\n' ends a line)."""
    return (text.count("\n", 0, off) + 1, off - (text.rfind("\n", 0, off) + 1))


def write_doc(rng, c, doc):
    w = Writer(rng, c)
    dn = w.write_nodes(doc)
    markup = "".join(w.parts)

    def fix(nodes):
        for d in nodes:
            if d[0] in (8, 9, 10):
                d[3] = list(linecol(markup, d[3]))
                if d[0] == 10:
                    fix(d[4])
    fix(dn)
    return markup, dn, [(n, linecol(markup, off)) for n, off in w.tags]


def merge_data(hevs):
    """Adjacent handle_data callbacks are one run (the tokenizer may split text arbitrarily)."""
    out = []
    for h in hevs:
        if h[0] == 3 and out and out[-1][0] == 3:
            out[-1] = [3, out[-1][1] + h[1]]
        else:
            out.append(list(h))
    return out


# ------------------------------------------------------------------ malformed input
SOUP = ["<", ">", "</", "/>", "<br", "<br>", "<br/>", "</br>", "<p>", "</p>", "<p", "<b>", "</b>", "<a href=", "\"", "'",
        "=", " ", "\n", "x", "text", "&", "&#", "&#x", "&amp", "&amp;", "&lt", ";", "&#65;", "&#x41", "&#150;", "&foo;",
        "<!--", "-->", "--", "<!", "<![CDATA[", "]]>", "<![if x]>", "<?", "?>", "<!DOCTYPE html>", "<!doctype", "<script>",
        "</script>", "<style>", "</style>", "<pre>", "</pre>", "<textarea>", "</textarea>", "<hr/>", "<img src=x>",
        "</img>", "<rt>", "</rt>", "<template>", "class=\"a b\"", "id=1 id=2", "<td headers='h g'>", "é", "\x00", "\ud800",
        "<xv>", "</xv>", "<P>", "</P >", "<br></br>", "<br/></br>", "<a/>", "<a / >", "<a b/c>", "&#1114112;", "&#0;",
        "&#xD800;", "&#x80;", "&#129;", "<![", "]>", "<!-", "<?php", "\r", "\x0c", "</", "</>", "</ >", "<<", "&&"]


def gen_soup(rng):
    return "".join(rng.choice(SOUP) for _ in range(rng.randint(1, 14)))


def mutate(rng, s):
    s = list(s)
    for _ in range(rng.randint(1, 4)):
        if not s:
            break
        i = rng.randrange(len(s))
        r = rng.random()
        if r < 0.35:
            del s[i]
        elif r < 0.7:
            s.insert(i, rng.choice(["<", ">", "/", "&", ";", "\"", "'", "=", "-", "!", "#", " ", "\n", "]", "[", "x", "?"]))
        elif r < 0.85:
            s[i] = rng.choice(["<", ">", "/", "&", ";", "\"", " ", "x"])
        else:
            j = rng.randrange(len(s))
            s[i], s[j] = s[j], s[i]
    return "".join(s)


# ------------------------------------------------------------------ the checks
class Batch:
    """Cases are collected, the model is run once per batch."""

    def __init__(self, ctx):
        self.ctx = ctx
        self.items = []

    def add(self, c, markup, kind, doc=None, written=None, orig=None):
        self.items.append((c, markup, kind, doc, written, orig))
        if len(self.items) >= 1500:
            self.flush()

    def flush(self):
        items, self.items = self.items, []
        if items:
            check_batch(self.ctx, items)


def check_batch(ctx, items):
    cmds_calls, cmds_tree, cmds_spec = [], [], []
    rows = []
    for c, markup, kind, doc, written, orig in items:
        kwargs = dict(c["kwargs"])
        src = markup.encode("ascii") if orig else markup
        plain = parse_plain(src, kwargs)
        soup, log = parse_logged(src, kwargs)
        case = {"config": c["name"], "markup": markup, "kind": kind}
        if doc is not None:
            case["doc"] = doc
        if isinstance(plain, str) or isinstance(soup, str):
            # the parser refused the input (C06's subject); both runs must agree on that
            ctx.case((c["name"], markup), nontrivial=False)
            ctx.count("rejected_inputs")
            if kind in ("written", "exhaustive", "corpus", "bytes"):
                ctx.fail(case, "no tree: the parser raised on a well-formed document", plain if isinstance(plain, str) else soup,
                         "a tree", tag="rejected-wellformed")
            if (plain if isinstance(plain, str) else "tree") != (soup if isinstance(soup, str) else "tree"):
                ctx.disagree("recording parser ~ plain parser (outcome)", case, plain if isinstance(plain, str) else "tree",
                             soup if isinstance(soup, str) else "tree")
            continue
        shape = impl_shape(plain)
        lshape = impl_shape(soup)
        if shape != lshape:
            ctx.disagree("recording parser ~ plain parser (tree)", case, repr(shape)[:400], repr(lshape)[:400])
            continue
        nop = strip_pos(shape)
        ctx.case((c["name"], markup), nontrivial=count_nodes(nop) >= 3)
        ctx.count("kind_" + kind)
        # ---- oracle 3: what reached the tree builder is what the standard-library parser emits for this input
        if not orig:
            ref = stdlib_events(markup)
            if ref is not None and ref != log.hevs:
                ctx.fail(case, "callbacks that reached the tree builder differ from the stream the standard-library parser "
                         "emits for this input (fed whole, then closed)", repr(first_diff(log.hevs, ref))[:600], None, tag="stream")
        # ---- oracle 2: independent fold of the recorded callbacks
        exp2 = oracle_fold(log.hevs, c, orig)
        if nop != exp2:
            ctx.fail(case, "tree differs from the documented fold of the callbacks the standard-library parser sent",
                     repr(nop)[:1500], repr(exp2)[:1500], tag="fold")
        # ---- oracle 1: the generating tree
        if doc is not None:
            exp1 = expected_tree(doc, c)
            if nop != exp1:
                ctx.fail(case, "tree differs from the tree the markup describes (generating model)",
                         repr(nop)[:1500], repr(exp1)[:1500], tag="writer")
        henc = [enc_hev(h) for h in log.hevs]
        acfg = enc_acfg(c, orig_table(orig) if orig else None)
        cmds_calls.append([4000, acfg, henc])
        cmds_tree.append([4001, acfg, henc, enc_mva(c)])
        if written is not None:
            cmds_spec.append([4004, acfg, written[0]])
        rows.append((case, c, log, shape, henc, written))
    if not ctx.build.model_ok or not rows:
        return
    r_calls = ctx.model.run(cmds_calls)
    r_tree = ctx.model.run(cmds_tree)
    r_spec = iter(ctx.model.run(cmds_spec)) if cmds_spec else iter(())
    for (case, c, log, shape, henc, written), mc, mt in zip(rows, r_calls, r_tree):
        sp = next(r_spec) if written is not None else None
        # the calls the adapter made on the soup object
        mcalls = []
        for ev, p in mc[0]:
            if ev[0] == 0:
                mcalls.append(("s", _s(ev[1]), _s(ev[2][0]) if ev[2] else None, [(_s(k), _s(v)) for k, v in ev[3]],
                               tuple(p[0]) if p else None))
            elif ev[0] == 1:
                mcalls.append(("e", _s(ev[1]), _s(ev[2][0]) if ev[2] else None))
            elif ev[0] == 2:
                mcalls.append(("d", _s(ev[1])))
            else:
                mcalls.append(("x", ev[1][0] if ev[1] else None))
        if mcalls != log.calls or mc[2] != 1:
            ctx.disagree("BeautifulSoupHTMLParser callbacks -> soup calls ~ Model.Adapter.adapter_run", case,
                         repr(first_diff(log.calls, mcalls)), "ok=%s" % mc[2])
            continue
        if log.final_ac is not None and [_s(x) for x in mc[1]] != log.final_ac:
            ctx.disagree("already_closed_empty_element ~ Model.Adapter (final list)", case, log.final_ac,
                         [_s(x) for x in mc[1]])
        ok, nodes, consistent, refines, tagpos = mt
        ms = model_shape(nodes, [(_s(n), p) for n, p in tagpos])
        if ms != shape:
            ctx.disagree("BeautifulSoup(markup, 'html.parser') tree ~ Model.Adapter.parse", case,
                         repr(strip_pos(shape))[:1200], repr(strip_pos(ms))[:1200])
        if consistent != 1:
            ctx.disagree("model tree link check (Spec.Tree.consistent_b)", case, None, consistent)
        if refines != 1:
            ctx.disagree("Model.Build.feed ~ Spec.BuildSpec.spec_run on the adapter's events (evaluated)", case, None, refines)
        if written is not None:
            wf, hev_ideal, canon, flat, thm = sp
            if wf != 1:
                ctx.disagree("generated document is not well-formed in the sense of Spec.DocSpec.wf_doc (generator defect)",
                             case, None, wf)
                continue
            if merge_data(hev_ideal) != merge_data(dec_henc(henc)):
                ctx.disagree("standard-library tokenizer ~ Spec.DocSpec.hevents_of (ideal tokenization of the written document)",
                             case, repr(first_diff(merge_data(dec_henc(henc)), merge_data(hev_ideal)))[:800], None)
                continue
            if thm != 1:
                ctx.disagree("Props.C04 tree theorem, evaluated: spec_run (adapter (hevents_of doc)) = flat (expect doc)",
                             case, None, thm)
            # canonical calls vs the recorded ones, up to the splitting of character data
            ctx.count("spec_side_checked")


def dec_henc(henc):
    out = []
    for h in henc:
        if h[0] in (0, 1):
            out.append([h[0], [ord(ch) for ch in h[1]], [[[ord(ch) for ch in a], [[ord(ch) for ch in v[0]]] if v else []]
                                                          for a, v in h[2]], list(h[3])])
        else:
            out.append([h[0], [ord(ch) for ch in h[1]]])
    return out


def first_diff(a, b):
    for i, (x, y) in enumerate(zip(a, b)):
        if x != y:
            return {"index": i, "impl": x, "model": y}
    return {"index": min(len(a), len(b)), "impl": a[len(b):len(b) + 2], "model": b[len(a):len(a) + 2]}


_ORIG = {}


def orig_table(enc):
    if enc not in _ORIG:
        t = []
        for b in range(256):
            try:
                t.append([bytes([b]).decode(enc)])
            except UnicodeDecodeError:
                t.append([])
        _ORIG[enc] = t
    return _ORIG[enc]


# ------------------------------------------------------------------ references in isolation
class _StubBuilder:
    attribute_dict_class = dict
    store_line_numbers = False


class _StubSoup:
    def __init__(self, enc):
        self.builder = _StubBuilder()
        self.original_encoding = enc
        self.got = []

    def handle_data(self, d):
        self.got.append(d)


def reference_cases(ctx):
    rng = ctx.rng
    vals = set(range(0, 700)) | {0x2014, 0xD7FF, 0xD800, 0xDFFF, 0xE000, 0xFFFD, 0xFFFF, 0x10000, 0x10FFFF, 0x110000,
                                 0x110001, 2 ** 31, 2 ** 32, 2 ** 64 + 7, 10 ** 30}
    step = 3 if ctx.thorough else 97
    vals |= set(range(0, 0x110000, step))
    for _ in range(400):
        vals.add(rng.randrange(0x120000))
    names = []
    for v in sorted(vals):
        names.append("%d" % v)
        if v < 70000 or v % 7 == 0:
            names.append("x%x" % v)
            names.append("X%X" % v)
        if v < 300:
            names.append("00%d" % v)
            names.append("x0%X" % v)
    cmds, rows = [], []
    for enc in (None, "koi8-r", "iso-8859-7", "utf-8"):
        sub = names if enc is None else [n for n in names if len(n) < 5]
        stub = _StubSoup(enc)
        p = RealParser(stub)
        for n in sub:
            del stub.got[:]
            try:
                p.handle_charref(n)
                got = "".join(stub.got)
            except Exception as e:
                got = "EXC:" + type(e).__name__
            case = {"charref": n, "original_encoding": enc}
            ctx.case(("charref", n, enc))
            exp = charref_denotation(n, enc)
            v = int(n[1:], 16) if n[0] in "xX" else int(n)
            if got != exp:
                ctx.fail(case, "numeric character reference does not become the character it denotes", repr(got), repr(exp),
                         tag="charref")
            cmds.append([4002, n, [] if enc is None else [orig_table(enc)]])
            rows.append((case, got))
    enames = sorted({k.rstrip(";") for k in HTML5})
    extra = ["foo", "AMP", "amp", "Amp", "aMp", "lt", "LT", "nbsp", "NBSP", "x", "amp.", "a-b", "quot", "apos", "zzz",
             "lang", "rang", "NotEqualTilde", "fjlig", "ThickSpace", "bne", "acE"]
    stub = _StubSoup(None)
    p = RealParser(stub)
    for n in enames + extra:
        del stub.got[:]
        p.handle_entityref(n)
        got = "".join(stub.got)
        case = {"entityref": n}
        ctx.case(("entity", n))
        exp = entity_denotation(n)
        if got != exp:
            ctx.fail(case, "named reference does not become the characters it denotes", repr(got), repr(exp), tag="entityref")
        cmds.append([4003, n])
        rows.append((case, got))
    ctx.sample({"charref": "x80", "impl": charref_denotation("x80"), "entityref": "NotEqualTilde",
                "impl2": entity_denotation("NotEqualTilde")})
    if ctx.build.model_ok:
        for (case, got), m in zip(rows, ctx.model.run(cmds)):
            if "charref" in case:
                mv = "EXC:ValueError" if not m else _s(m[0])
            else:
                mv = _s(m)
            if mv != got:
                ctx.disagree("handle_charref / handle_entityref ~ Model.Adapter.charref_data / entity_data", case, repr(got), repr(mv))


# ------------------------------------------------------------------ run
PIECES = ["<br>", "<br/>", "</br>", "<p>", "</p>", "<p/>", "x", " ", "<!--c-->"]
WS_PIECES = ["<pre>", "</pre>", "<b>", "</b>", " \t", "\n\n", "x"]
CORPUS = [
    ("default", "<p><br>a<br/>b</p>"),            # fixed defect: the second br swallowed "b"
    ("default", "<br><br/>x</br>y"),
    ("void-custom", "<xv>a<xv/>b</xv>c"),
    ("default", "<p><br/>a<br>b</br>c</p>"),
    ("void-none", "<a>x<b/>y</a>z"),
    ("default", "<pre><pre>a</pre>  \n  </pre>"),             # nested same-name whitespace-preserving elements
    ("containers-custom", "<span><span></span> \t </span><p><p></p>\n\n</p>"),
    ("containers-preformatted", "<b>  \n </b><p>\t</p><td>   </td>x<pre>  </pre>"),
    ("void-empty", "<p>text<br>more</br>end</p>"),
]


def load_corpus():
    out = list(CORPUS)
    d = os.path.join(common.VERIF, "corpus", "C04")
    if os.path.isdir(d):
        for fn in sorted(os.listdir(d)):
            if fn.endswith(".json"):
                j = json.load(open(os.path.join(d, fn)))
                out.append((j["config"], j["markup"]))
    return out


def run(ctx):
    rng = ctx.rng
    b = Batch(ctx)
    if "TRANSLATOR-FAILED gen_c18" in (getattr(ctx.build, "tables_msg", "") or ""):
        # the text-level theorems rest on Model/Tokenizer.v, which translator/gen_c18.py ties to the installed html.parser
        ctx.disagree("translator/gen_c18.py (fail-closed): the tokenizer model is no longer tied to the installed html.parser / "
                     "to the way bs4 drives it", {"markup": "", "kind": "translator"}, ctx.build.tables_msg[-400:], None)
    for cname, markup in load_corpus():
        b.add(CONFIG[cname], markup, "corpus")
    # (b) exhaustive small scope
    L = 5 if ctx.thorough else 4
    for n in range(L + 1):
        for combo in itertools.product(PIECES, repeat=n):
            m = "".join(combo)
            b.add(CONFIG["default"], m, "exhaustive")
            if n <= L - 1:
                b.add(CONFIG["void-custom"], m, "exhaustive")
    LW = 5 if ctx.thorough else 4
    for n in range(1, LW + 1):
        for combo in itertools.product(WS_PIECES, repeat=n):
            m = "".join(combo)
            b.add(CONFIG["default"], m, "exhaustive")
            b.add(CONFIG["containers-preformatted"], m, "exhaustive")
    ctx.extra_cov["exhaustive"] = True
    ctx.extra_cov["exhaustive_scope"] = ("all concatenations of <= %d pieces of %r (default configuration; <= %d under "
                                         "empty_element_tags={br,p,xv}); all concatenations of <= %d pieces of %r (default "
                                         "and PreformattedString string_containers)" % (L, PIECES, L - 1, LW, WS_PIECES))
    # (a) written documents
    n_docs = 3600 if ctx.thorough else 280
    sampled = 0
    for i in range(n_docs):
        for c in CONFIGS:
            doc = gen_doc(rng, c)
            markup, dn, tags = write_doc(rng, c, doc)
            b.add(c, markup, "written", doc=doc, written=(dn, tags))
            if sampled < 3 and len(markup) > 40 and c["name"] == "default":
                sampled += 1
                ctx.sample({"config": c["name"], "markup": markup[:300]})
            # (c) mutations of it
            if i % 2 == 0:
                b.add(c, mutate(rng, markup), "mutated")
            if i % 2 == 1:
                doc = gen_ws_doc(rng, c)
                markup, dn, tags = write_doc(rng, c, doc)
                b.add(c, markup, "written", doc=doc, written=(dn, tags))
    # empty / whitespace-only special strings keep their content (fixed defect 3cf9718): witnesses, with their documents
    for m, d in WS_SPECIAL:
        b.add(CONFIG["default"], m, "corpus", doc=d)
    # (c) token soup
    for i in range(30000 if ctx.thorough else 2500):
        c = CONFIGS[i % len(CONFIGS)]
        b.add(c, gen_soup(rng), "soup")
    # bytes input: original_encoding takes part in handle_charref
    for enc in ("koi8-r", "iso-8859-7", "utf-8", "windows-1252"):
        for body in ("<p>&#129;&#150;&#x8d;&#233;&#65;</p>", "<br>&#144;<br/>&#157;x"):
            data = ("<meta charset=\"%s\">" % enc + body).encode("ascii")
            soup = parse_plain(data, {"from_encoding": enc})
            if not isinstance(soup, str) and soup.original_encoding:
                b.add(dict(CONFIG["default"], kwargs={"from_encoding": enc}), data.decode("ascii"), "bytes",
                      orig=soup.original_encoding)
    bridge_cases(ctx, rng, b)
    wider_cases(ctx, rng, b)
    b.flush()
    reference_cases(ctx)
    tokenizer_correspondence(ctx, rng)
    ctx.sample({"exhaustive_piece_example": "<br><br/>x</br>",
                "tree": repr(strip_pos(impl_shape(parse_plain("<br><br/>x</br>", {}))))})


# ------------------------------------------------------------------ the text-level theorems (Props.C04 C04_string_tree_partial)
SIMPLE_NAMES = ["p", "div", "b", "i", "a", "td", "ul", "li", "pre", "rt", "template", "h1", "x9", "scriptx", "styles", "xv",
                "my-tag", "svg:rect", "a_b", "x.y", "h-1:z_"]
SIMPLE_VOIDS = ["br", "hr", "img", "input", "wbr"]
SIMPLE_TEXT = ["a", "xy", " ", "\n", "  \t", "é", ">", "\"", "'", ";", "#", "]]", "--", "/", "=", "1 2", "\u2028", "\x00", "☃"]
BRIDGE_NAME = ("Props.C04 C04_string_tree_partial, evaluated on a generated document of the sub-grammar: simple_doc, wf_doc, "
               "not rejected, spec_run (adapter (tokenizer (write doc))) = flat (expect doc)")


SIMPLE_ATTR_NAMES = ["_z", ":x", "class", "id", "href", "rel", "headers", "datax", "title", "accesskey", "disabled", "rev", "a1",
                     "data-x", "xml:lang", "a_b", "v.w"]
SIMPLE_ATTR_VALS = ["", "v", "a b", " x  y\tz ", "1", "é", "it's", "<x>", "a\nb", "x=y", "☃ ☃", ">", "/>", "a/b", "=", " ",
                    "say \"hi\"", "\"", "\"/>", "a=\"b\" c"]


def gen_simple_attrs(rng):
    """attributes inside Spec.DocWrite.simple_attrs: lower-case names (repeats allowed), value absent or without the
    double quote and without '&' (a value with a double quote is written between single quotes)"""
    out = []
    for _ in range(rng.choice([0, 0, 0, 1, 1, 2, 3])):
        k = rng.choice(SIMPLE_ATTR_NAMES)
        out.append([k, [] if rng.random() < 0.25 else [rng.choice(SIMPLE_ATTR_VALS)]])
    return out


def gen_simple_nodes(rng, c, depth, budget):
    """dnode encodings (Run/D_C04.v g_dnode) inside Spec.DocWrite.simple_doc: lower-case names, simple attributes, no two
    adjacent pieces of text."""
    out = []
    last_text = False
    voids = [v for v in SIMPLE_VOIDS if is_void(c, v)]
    elems = [n for n in SIMPLE_NAMES if not is_void(c, n)]
    for _ in range(rng.randint(0, 5)):
        if budget[0] <= 0:
            break
        budget[0] -= 1
        r = rng.random()
        n0 = len(out)
        if r < 0.22 and not last_text:
            out.append([0, "".join(rng.choice(SIMPLE_TEXT) for _ in range(rng.randint(1, 3)))])
            last_text = True
            continue
        if r < 0.30:
            out.append([1, rng.choice(["65", "0", "150", "1114112", "x41", "X4a", "xD800", "00065", "9999999999"])])
        elif r < 0.38:
            out.append([2, rng.choice(["amp", "lt", "eacute", "bogus", "a-b", "x.y", "AMP", "nbsp"])])
        elif r < 0.45:
            out.append([3, rng.choice(["", " ", "c", "a b", "<p>", "&amp;", ">", "é", "-", "a-b", " - ", "x-", "-x", "a->b", "-!>"])])
        elif r < 0.49 and depth == 0:
            out.append([4, rng.choice(["DOCTYPE ", "doctype "]), rng.choice(["html", "", "html PUBLIC \"x\"", " \n"])])
        elif r < 0.55:
            out.append([5, rng.choice(["CDATA[", "cdata["]), rng.choice(["", "x", " <a> ", "&amp;", "a>b", "[x"])])
        elif r < 0.60:
            out.append([7, rng.choice(["", "pi", "xml version='1'", "php echo 1 ?", " "])])
        elif r < 0.72 and voids:
            out.append([8, rng.choice(voids), gen_simple_attrs(rng), [1, 0], rng.randint(0, 2)])
        elif r < 0.78:
            out.append([9, rng.choice(elems), gen_simple_attrs(rng), [1, 0]])
        elif r < 0.84:
            raw = rng.choice(["script", "style"])
            if not is_void(c, raw):
                body = rng.choice(["", "x", "a&b", "if (a > b) { x = \"&amp;\"; }", "p { color: red }\n", "&#65;", "]]>", "-->", "/* é */", " "])
                out.append([10, raw, gen_simple_attrs(rng), [1, 0], [[0, body]] if body else []])
        elif depth < 4:
            out.append([10, rng.choice(elems), gen_simple_attrs(rng), [1, 0], gen_simple_nodes(rng, c, depth + 1, budget)])
        if len(out) > n0:            # (nothing is appended at the depth limit: the previous node stays the last one)
            last_text = False
    return out


def bridge_cases(ctx, rng, batch):
    """Documents of the sub-grammar the text-level theorems cover: the model writes them (Spec.DocWrite.write), evaluates the
    theorem's hypotheses and conclusion, and the written text goes through every check of this harness like any other
    written document (real parse ~ model parse of the recorded callbacks ~ ideal callbacks ~ expected tree)."""
    if not ctx.build.model_ok:
        return
    cfgs = [c for c in CONFIGS if c["name"] in ("default", "void-custom", "containers-custom", "pw-custom", "store-off")] or [CONFIG["default"]]
    docs = []
    for i in range(3000 if ctx.thorough else 300):
        c = cfgs[i % len(cfgs)]
        docs.append((c, gen_simple_nodes(rng, c, 0, [rng.randint(1, 14)])))
    res = ctx.model.run([[4006, enc_acfg(c), d] for c, d in docs])
    n_ok = 0
    for (c, d), m in zip(docs, res):
        simple, wf, text, tevs, notrej, thm = m
        text = _s(text)
        case = {"config": c["name"], "markup": text, "kind": "bridge", "dnodes": d}
        if simple != 1 or wf != 1:
            ctx.disagree("generated document is not in Spec.DocWrite.simple_doc / Spec.DocSpec.wf_doc (generator defect)", case,
                         None, [simple, wf])
            continue
        if notrej != 1 or thm != 1:
            ctx.disagree(BRIDGE_NAME, case, None, [notrej, thm])
            continue
        # the real tokenizer fires the ideal callbacks for the written text
        rec = tokrec.record(text)
        real = [e for it in rec["items"] for e in it[3]]
        ideal = tokrec.decode_model([[[0, [1, 0], [], tevs]], 0, [], [], 0, [1, 0]])["items"][0][3]
        if rec["status"] != 0 or rec["rest"] or real != ideal:
            ctx.disagree("html.parser.HTMLParser on Spec.DocWrite.write doc ~ Spec.DocWrite.tevs_of doc (the ideal callbacks)", case,
                         repr(first_diff(real, ideal))[:600], None)
            continue
        n_ok += 1
        # the positions the ideal callbacks carry: those of the start tags, in document order (their truth is C18's subject)
        starts = iter([it[1] for it in rec["items"] for e in it[3] if e[0] in (0, 1)])

        def label(nodes):
            for nd in nodes:
                if nd[0] in (8, 9, 10):
                    nd[3] = list(next(starts))
                    if nd[0] == 10:
                        label(nd[4])
        label(d)
        batch.add(c, text, "bridge", written=(d, None))
    ctx.count("bridge_documents", n_ok)


WIDER_ATTR_VALS = ["a&amp;b", "&lt;x&gt;", "&#65;&#x42;", "&bogus;", "x&y", "&amp", "caf&eacute;", "&quot;q&quot;", "a &amp; 'b'",
                   "&#0;", "&#x110000;", "1&2=3", "&", "&&amp;;", "&notit;", "&#xD800;"]
WIDER_NAME = ("Props.C04 C04_string_tree_wider_partial, evaluated on a generated document whose attribute values contain "
              "references: wider_doc, wf_doc of the denoted document, not rejected, spec_run (adapter (tokenizer (write doc))) "
              "= flat (expect (udoc html.unescape doc))")


def wider_cases(ctx, rng, batch):
    """Documents of the wider sub-grammar (attribute values as written, with references): command 4007 (hypotheses and
    conclusion with C09's model of html.unescape), the real tokenizer's callbacks (real html.unescape) against the ideal
    callbacks of the denoted document, and the written text through every other check with the denoted document."""
    import html
    if not ctx.build.model_ok:
        return
    cfgs = [c for c in CONFIGS if c["name"] in ("default", "void-custom", "containers-custom", "store-off")] or [CONFIG["default"]]

    def widen(nodes):
        for nd in nodes:
            if nd[0] in (8, 9, 10):
                for kv in nd[2]:
                    if kv[1] and rng.random() < 0.6:
                        kv[1] = [rng.choice(WIDER_ATTR_VALS)]
                if rng.random() < 0.3:
                    nd[2].append([rng.choice(SIMPLE_ATTR_NAMES), [rng.choice(WIDER_ATTR_VALS)]])
            if nd[0] == 10:
                widen(nd[4])
    docs = []
    for i in range(2000 if ctx.thorough else 200):
        c = cfgs[i % len(cfgs)]
        d = gen_simple_nodes(rng, c, 0, [rng.randint(1, 12)])
        widen(d)
        docs.append((c, d))
    res = ctx.model.run([[4007, enc_acfg(c), d] for c, d in docs])
    n_ok = 0
    for (c, d), m in zip(docs, res):
        wider, wf, text, tevs, notrej, thm = m
        text = _s(text)
        case = {"config": c["name"], "markup": text, "kind": "bridge-wider", "dnodes": d}
        if wider != 1 or wf != 1:
            ctx.disagree("generated document is not in Spec.DocWrite.wider_doc / its denoted document not in wf_doc (generator defect)",
                         case, None, [wider, wf])
            continue
        if notrej != 1 or thm != 1:
            ctx.disagree(WIDER_NAME, case, None, [notrej, thm])
            continue
        rec = tokrec.record(text)
        real = [e for it in rec["items"] for e in it[3]]
        ideal = tokrec.decode_model([[[0, [1, 0], [], tevs]], 0, [], [], 0, [1, 0]], unescape=False)["items"][0][3]
        if rec["status"] != 0 or rec["rest"] or real != ideal:
            ctx.disagree("html.parser.HTMLParser (real html.unescape) on Spec.DocWrite.write doc ~ tevs_of (udoc unescape-model doc)",
                         case, repr(first_diff(real, ideal))[:600], None)
            continue
        n_ok += 1
        starts = iter([it[1] for it in rec["items"] for e in it[3] if e[0] in (0, 1)])

        def denote(nodes):
            for nd in nodes:
                if nd[0] in (8, 9, 10):
                    nd[3] = list(next(starts))
                    nd[2] = [[k, [html.unescape(v[0])] if v and v[0] else v] for k, v in nd[2]]
                    if nd[0] == 10:
                        denote(nd[4])
        denote(d)
        batch.add(c, text, "bridge-wider", written=(d, None))
    ctx.count("bridge_wider_documents", n_ok)


def tokenizer_correspondence(ctx, rng):
    """Model.Tokenizer against the plain standard-library parser (the full-size run is in C18's check)."""
    s = tokrec.run_correspondence(ctx, (tokrec.gen_random(rng) for _ in range(40000 if ctx.thorough else 3000)), "random")
    s3 = tokrec.run_correspondence(ctx, tokrec.exhaustive_small(4 if ctx.thorough else 3), "small")
    ctx.extra_cov["tokenizer_model"] = {"malformed_stream": s, "exhaustive": s3,
                                        "exhaustive_scope": "every string of length <= %d over %r" % (4 if ctx.thorough else 3, tokrec.SMALL_ALPHA),
                                        "skipped_as_unmodelled": 0}


WS_SPECIAL = [("<!---->", [["comment", ""]]), ("<p><!--  --></p>", [["elem", "p", [], [["comment", "  "]]]]),
              ("<![CDATA[]]>", [["cdata", ""]]), ("<![CDATA[ \n ]]>x", [["cdata", " \n "], ["text", "x"]]),
              ("<!--\n\n-->", [["comment", "\n\n"]]), ("<? >", [["pi", " "]]), ("<?>", [["pi", ""]]),
              ("<!DOCTYPE >", [["doctype", ""]]), ("<!DOCTYPE  \n>", [["doctype", " \n"]]), ("<![if ]>", [["decl", "if "]]),
              ("a <!-- --> b", [["text", "a "], ["comment", " "], ["text", " b"]]),
              (" <!--\t--> ", [["text", " "], ["comment", "\t"], ["text", " "]])]


def replay(ctx, data):
    f = data.get("failure") or {}
    case = f.get("case") or (data.get("disagreements") or [{}])[0].get("case")
    if not case:
        print("nothing to replay")
        return 1
    c = CONFIG.get(case.get("config"), CONFIG["default"])
    if "markup" not in case:
        print(case)
        return 1
    soup, log = parse_logged(case["markup"], dict(c["kwargs"]))
    if isinstance(soup, str):
        print("parser outcome:", soup)
        return 1
    got = strip_pos(impl_shape(soup))
    bad = 0
    exp2 = oracle_fold(log.hevs, c)
    print("markup :", repr(case["markup"]))
    print("config :", c["name"])
    print("tree   :", got)
    if got != exp2:
        print("fold of the recorded callbacks requires:", exp2)
        bad = 1
    if case.get("doc") is not None:
        exp1 = expected_tree(case["doc"], c)
        if got != exp1:
            print("generating tree requires:", exp1)
            bad = 1
    print("VIOLATION reproduced" if bad else "no violation on the current tree")
    return bad
