"""C02 — each editing call has exactly its documented effect. Direct oracle: the independent list-of-lists
reference with anchor semantics (treeimpl.RefForest), compared after every step; correspondence as C01."""
from props import c01

RULE = c01.RULE + (" Multi-argument forms weighted up (40% of calls carry 2-3 arguments drawn from fresh strings, "
                   "fresh tags, earlier/later siblings, elements of other trees, whole BeautifulSoup objects).")
ASSUMPTIONS = c01.ASSUMPTIONS + ["the reference hands out fresh ids the way the call creates objects (needed to name them later)"]


def run(ctx):
    c01.run(ctx, props={"C02"})


def replay(ctx, data):
    import treeimpl as T, histrun as R, common
    f = (data.get("failure") or {}).get("case") or (data.get("disagreements") or [{}])[0].get("case")
    if not f:
        print("nothing to replay"); return 1
    evs = [tuple(e) for e in f["events"]]
    evs = [(e[0], e[1], e[2], [tuple(a) for a in e[3]]) if e[0] == "s" else e for e in evs]
    ref = T.ref_from_spec(T.spec_fold(evs, T.HTML_CFG))
    exp = []
    for op in f["ops"]:
        st = ref.apply(op)
        exp.append((st, R.ref_shapes(ref)))
    c = common.Ctx(ctx.prop, "quick", 0)
    c.build = type("B", (), {"model_ok": False})()
    R.replay(c, T.HTML_CFG, evs, f["ops"], exp, None, {"C02"})
    print("events:", evs); print("ops:", f["ops"])
    for x in c.failures:
        print("FAIL:", x["what"]); print(" observed:", x["observed"]); print(" expected:", x["expected"])
    return 1 if c.failures else 0
