"""C14 — prettify() changes only whitespace and shows the nesting.
Correspondence: prettify() / decode(indent_level=k) / decode_contents(indent_level=k) vs Model.Render.decode, the line
structure (Spec.RenderSpec.items_spec) and the whitespace-preserving blocks (pw_blocks_spec) the theorems speak about vs
what an independent walk of the implementation's tree gives, Formatter(indent=...) vs Model.Render.formatter_indent.
Direct oracle (Python, independent of the model): only whitespace differs from decode(); the re-parse equals the
re-parse of decode() once whitespace inside text is disregarded, exactly inside pre/textarea; every tag and non-blank
string on its own line at indent * depth; trailing newline; whitespace-preserving elements reproduced verbatim."""
import json, os, random, warnings
import rendergen as G
from rendergen import Tag, NavigableString, BeautifulSoup
from bs4.formatter import Formatter, HTMLFormatter, XMLFormatter
from bs4.dammit import EntitySubstitution
from props.c05 import Batch, G_to_str, build_from_origin

RULE = ("render histories on the same objects (complete renderings of descendants then ancestors and back; renderings that raise part-way at each string / a few strings; an edit; each followed by a comparison with the rendering of a fresh copy); trees as for C05, plus documents nested 140 / 300 (thorough: 600) elements deep (documents written from a random tree model and parsed, token soup, API-built and edited trees, "
        "HTML- and XML-flavoured, nested pre/textarea/script, void elements, empty and blank strings, every string class); "
        "starting element: the root and random inner tags (every tag of the tree in the thorough tier for small trees); "
        "formatter: every registry name of the tree's flavour (minimal, html, html5, html5-4.12, None) and Formatter objects "
        "with indent in {None, -2, 0, 1, 3, 8, True, '', tab, two spaces, space+tab, NBSP, '--', 2.5, object()}; "
        "indent_level 0 (prettify) and a few other starting levels (None, 1, 2, -1) for the string tie.  Non-trivial: the "
        "pretty rendering has >= 3 lines or contains a whitespace-preserving element.  Distinct by (pretty text, indent).")
ASSUMPTIONS = [
    "whitespace is the set str.strip() removes (generated from the interpreter into Gen/Stdlib.v): NBSP at the edge of a text counts as whitespace",
    "entity substitution functions other than substitute_xml are passed to the model as their recorded graph on the strings of the case",
    "the tree handed to the model is read from .contents (C01 ties .contents to the element chain decode() walks)",
    "HTMLFormatter / XMLFormatter constructors are not used for indent settings (they drop the argument: C15's finding); the base Formatter class is",
]

INDENTS = [None, -2, 0, 1, 3, 8, True, "", "\t", "  ", " \t", "\xa0", "--", 2.5, "OBJ"]


def enc_indent_arg(x):
    if x is None:
        return [0]
    if isinstance(x, int):        # bool included, as in the code
        return [1, int(x)]
    if isinstance(x, str) and x != "OBJ":
        return [2, x]
    return [3]


_MK = [0]


def mk_formatter(el, name, indent):
    """A Formatter object like the registry's `name` for this flavour, with the given indent argument."""
    base = el.formatter_for_name(name)
    arg = object() if indent == "OBJ" else indent
    _MK[0] += 1
    if _MK[0] % 2 and type(base) is not Formatter:
        # every other time through the flavour's own class (HTMLFormatter / XMLFormatter), which must forward the
        # options - the indent setting included - exactly like the base class
        return type(base)(entity_substitution=base.entity_substitution,
                          void_element_close_prefix=base.void_element_close_prefix,
                          cdata_containing_tags=base.cdata_containing_tags,
                          empty_attributes_are_booleans=base.empty_attributes_are_booleans, indent=arg)
    return Formatter(language=base.language, entity_substitution=base.entity_substitution,
                     void_element_close_prefix=base.void_element_close_prefix,
                     cdata_containing_tags=base.cdata_containing_tags,
                     empty_attributes_are_booleans=base.empty_attributes_are_booleans, indent=arg)


def is_pw(t):
    return bool(t.preserve_whitespace_tags) and t.name in t.preserve_whitespace_tags


def expected_items(el, f):
    """The line structure the property describes, from the tree and the *plain* renderings only.
    Returns list of (depth, is_block, text) or None when an inner tag is hidden."""
    items = []

    def open_close(t):
        whole = t.decode(formatter=f)
        if t.is_empty_element:
            return whole, None           # an empty-element tag
        inner = t.decode_contents(formatter=f)
        close = "</%s>" % G.qname(t)
        return whole[:len(whole) - len(inner) - len(close)], close

    def walk(x, d):
        if isinstance(x, Tag):
            if x.hidden:
                raise ValueError("hidden")
            o, c = open_close(x)
            if c is None:
                items.append((d, False, o))
            elif is_pw(x):
                items.append((d, True, x.decode(formatter=f)))
            else:
                items.append((d, False, o))
                for k in x.contents:
                    walk(k, d + 1)
                items.append((d, False, c))
        else:
            s = x.output_ready(f).strip()
            if s:
                items.append((d, False, s))
    try:
        if isinstance(el, BeautifulSoup) or el.hidden:
            for k in el.contents:
                walk(k, 0)
        else:
            walk(el, 0)
    except ValueError:
        return None
    return items


def nows(s):
    return "".join(c for c in s if not c.isspace())


def text_blind(children, pw_names):
    """A re-parsed tree with whitespace inside text disregarded (outside the given whitespace-preserving elements)."""
    out = []
    pend = []

    def flush():
        if pend:
            s = nows("".join(pend))
            del pend[:]
            if s:
                out.append(("text", s))
    for c in children:
        if isinstance(c, Tag):
            flush()
            q = G.qname(c)
            attrs = tuple(sorted((str(k), G.attr_text(v)) for k, v in (c.attrs or {}).items()))
            if q in pw_names:
                out.append(("tag", q, attrs, G.canon(c.contents)))
            else:
                out.append(("tag", q, attrs, text_blind(c.contents, pw_names)))
        elif G.CLASS_ID[type(c)] in G.TEXT_CLASSES:
            pend.append(str.__str__(c))
        else:
            flush()
            out.append(("special", type(c).__name__, str.__str__(c)))
    flush()
    return tuple(out)


def oracle(ctx, case, el, f, pretty, plain, xml, parsed):
    ws_indent = all(c.isspace() for c in f.indent)
    # (1) only whitespace changes
    if ws_indent and nows(pretty) != nows(plain):
        ctx.fail(case, "prettify() differs from decode() in more than whitespace", nows(pretty)[:300], nows(plain)[:300])
    # (2) ends with a newline
    items = expected_items(el, f)
    if items is not None and pretty and not pretty.endswith("\n"):
        ctx.fail(case, "pretty-printed output does not end with a newline", pretty[-40:], None)
    # (3) line structure and (4) whitespace-preserving elements verbatim
    if items is not None:
        want = "".join(f.indent * max(d, 0) + text + "\n" for d, blk, text in items)
        if pretty != want:
            ctx.fail(case, "a tag or non-blank string is not on its own line at indent * depth (or a whitespace-preserving "
                           "element is not reproduced verbatim)", pretty[:400], want[:400])
        pos = 0
        for d, blk, text in items:
            if blk:
                k = pretty.find(text, pos)
                if k < 0:
                    ctx.fail(case, "a whitespace-preserving element is not reproduced character for character", text[:200], None)
                    break
                pos = k + len(text)
    # (5) the re-parse is the re-parse of the plain output, whitespace inside text disregarded
    # (not under 'html5', which leaves "&name" without a semicolon unescaped: whether the parser takes it for a
    #  reference then depends on the next character, newline included — C09's known finding, not prettify's doing)
    html5 = getattr(f.entity_substitution, "__func__", f.entity_substitution) is EntitySubstitution.substitute_html5.__func__
    # an empty-element tag written without the slash (html5 formatters) is read back as an open element unless HTML knows it as void
    unreadable_void = (not f.void_element_close_prefix) and any(t.is_empty_element and t.name not in G.HTML_VOID for t in G.tags_of(el))
    if (ws_indent and f.entity_substitution is not None and not html5 and not unreadable_void
            and (parsed or G.representable(el, xml) is None)):
        try:
            a = G.parse(pretty)
            b = G.parse(plain)
        except G.ParserRejectedMarkup:
            return
        pw_names = set(G.HTML_PW)
        # inside elements the *tree* does not preserve but the HTML re-parser does (XML-flavoured pre), whitespace was added
        own_pw = {G.qname(t) for t in G.tags_of(el) if is_pw(t)}
        pw_names &= own_pw
        if any(G.qname(t) in G.HTML_PW and not is_pw(t) for t in G.tags_of(el)):
            pw_names = set()
        ta, tb = text_blind(a.contents, pw_names), text_blind(b.contents, pw_names)
        if ta != tb:
            ctx.fail(case, "pretty-printed output re-parses to a different tree than the plain output", ta, tb)


CHECK = []


def pretty_token_level(ctx, batch, case, fe, dumped, pretty_body, py_rep):
    """The vocabulary of C14_reparse_modulo_whitespace against the implementation: the pretty rendering is the spelling
    of Spec.PrettyTokens.pretty_tokens; where the theorem's hypotheses hold (evaluated by the model), html.parser's events
    on prettify()'s output are what read_tokens makes of pretty_tokens, the re-parsed tree is norm (pretty_tree t), and it
    equals the re-parse of the plain output with whitespace inside text disregarded."""
    if not CHECK:
        CHECK.append(G.startend_checks_closed())
    chk = CHECK[0]
    batch.add([14005, fe, True, dumped], lambda r, case=case, pretty_body=pretty_body:
              (G_to_str(r) != pretty_body) and
              ctx.disagree("prettify() ~ spelled Spec.PrettyTokens.pretty_tokens", case, pretty_body[:300], G_to_str(r)[:300]))
    if not py_rep:
        return
    try:
        back, log = G.parse_logged(pretty_body)
    except G.ParserRejectedMarkup:
        return
    want_ev = G.canon_events(log)
    flat = G.flat_impl(back)
    state = {}

    def hyp(r):
        state["ok"] = (r == [1, 1, 1])
        state["pre"] = (r[0] == 1 and r[1] == 1)
        if state["pre"]:
            ctx.count("pretty_token_level_cases")
            if r[2] != 1:
                ctx.disagree("pretty_ok_top t and representable_top t => representable_top (pretty_tree t)", case, True, r)
    batch.add([14010, fe, True, chk, dumped], hyp)
    batch.add([14006, fe, True, chk, dumped], lambda r: state.get("ok") and
              (G.canon_events(G.dec_model_events(r)) != want_ev) and
              ctx.disagree("html.parser's events on prettify() ~ read_tokens (pretty_tokens t)", case, want_ev[:14],
                           G.canon_events(G.dec_model_events(r))[:14]))
    batch.add([14007, fe, True, chk, dumped], lambda r: state.get("ok") and (G.dec_model_flat(r) != flat) and
              ctx.disagree("re-parse of prettify() ~ spec_run (read_tokens (pretty_tokens t))", case, flat[:14], G.dec_model_flat(r)[:14]))
    batch.add([14008, fe, True, dumped], lambda r: state.get("ok") and (G.dec_model_flat(r) != flat) and
              ctx.disagree("re-parse of prettify() ~ norm (pretty_tree t)", case, flat[:14], G.dec_model_flat(r)[:14]))
    batch.add([14009, fe, True, dumped], lambda r: state.get("ok") and (r[0] != r[1]) and
              ctx.disagree("ws_equiv (norm (pretty_tree t)) (norm t) (conclusion of C14_reparse_modulo_whitespace, evaluated)", case,
                           G.dec_model_flat(r[1])[:14], G.dec_model_flat(r[0])[:14]))


class _Refused(Exception):
    pass


def _refusing_formatter(el, refuse):
    """The 'minimal' formatter of el's flavour whose substitution function raises at one chosen string."""
    base = el.formatter_for_name("minimal")

    def fn(text):
        if text == refuse:
            raise _Refused(text)
        return EntitySubstitution.substitute_xml(text)
    return Formatter(language=base.language, entity_substitution=fn, void_element_close_prefix=base.void_element_close_prefix,
                     cdata_containing_tags=base.cdata_containing_tags, empty_attributes_are_booleans=base.empty_attributes_are_booleans,
                     indent=base.indent)


def render_histories(ctx, origin, root):
    """A rendering is a function of the tree and the formatter, not of earlier renderings of the same objects:
    after other renderings of the element, of its descendants and ancestors — complete ones and ones that raised part-way
    (a substitution function refusing one string), plain and pretty, with edits in between — prettify() / decode() of the
    element give what they give on a fresh copy of the tree."""
    import copy
    rng = ctx.rng
    tags = G.tags_of(root)
    inner = tags[1:]
    watched = [root] + rng.sample(inner, min(1, len(inner)))

    def renderings(t):
        return (t.decode(indent_level=0, formatter="minimal"), t.decode(formatter="minimal"), t.decode(indent_level=0, formatter="html"))

    def expect_fresh(step, history):
        for t in watched:
            if t is not root and not G.is_ancestor_or_self(root, t):
                continue                      # edited out of the tree
            fresh = copy.copy(t)
            got, want = renderings(t), renderings(fresh)
            ctx.case(("history", step, got[0]), nontrivial=len(history) > 1)
            if got != want:
                k = [i for i in range(3) if got[i] != want[i]][0]
                ctx.fail({"origin": origin, "history": history, "start": G.qname(t) if t is not root else "[root]",
                          "which": ["prettify minimal", "decode minimal", "prettify html"][k]},
                         "a rendering depends on earlier renderings of the same objects (it differs from the rendering of a fresh copy of the tree)",
                         got[k][:400], want[k][:400])
                return False
        return True
    history = []
    if not expect_fresh(0, ["(nothing before)"]):
        return
    # complete renderings of descendants, then ancestors, and the other way round
    for t in (list(reversed(watched)) + watched):
        t.prettify()
        t.decode()
        history.append("prettify+decode %s" % (G.qname(t) if t is not root else "[root]"))
    if not expect_fresh(1, list(history)):
        return
    # renderings that raise part-way: at every string of a small tree, at a few of a large one
    strings = sorted(G.value_texts(root))
    if len(strings) > 8:
        strings = rng.sample(strings, 3)
    for sref in strings:
        for t in watched:
            f = _refusing_formatter(t, sref)
            for lvl in (0, None):
                try:
                    t.decode(indent_level=lvl, formatter=f)
                    outcome = "completed"
                except _Refused:
                    outcome = "raised"
                history.append("decode(indent_level=%r) of %s with a substitution function refusing %r: %s"
                               % (lvl, G.qname(t) if t is not root else "[root]", sref[:30], outcome))
        if not expect_fresh(2, history[-8:]):
            return
    # an edit, and again
    if tags:
        target = rng.choice(tags)
        target.append(rng.choice(["tail text", " "]))
        target.insert(0, root.new_tag("b") if isinstance(root, BeautifulSoup) else Tag(name="b"))
        history.append("append a string and insert <b> in %s" % (G.qname(target) if target is not root else "[root]"))
        expect_fresh(3, history[-6:])


def check_tree(ctx, batch, origin, root, xml, parsed, every_start=False, histories=True):
    rng = ctx.rng
    inner = G.tags_of(root)[1:]
    starts = [root] + (inner if every_start else rng.sample(inner, min(2, len(inner))))
    for el in starts:
        dumped = G.dump(el)
        texts = G.value_texts(el)
        names = ["minimal", "html", None] + ([] if xml else ["html5", "html5-4.12"])
        configs = []
        for name in names:
            try:
                el.formatter_for_name(name)
            except KeyError:
                continue
            configs.append((name, "registry", el.formatter_for_name(name)))
        for _ in range(3):
            name = rng.choice(names)
            ind = rng.choice(INDENTS)
            try:
                configs.append((name, ind, mk_formatter(el, name, ind)))
            except KeyError:
                continue
        if el is root:
            # the flavour's own class with each falsy indent setting (no indentation at all), deterministically
            base = el.formatter_for_name("minimal")
            if type(base) is not Formatter:
                for ind in (0, None, ""):
                    configs.append(("minimal", ind, type(base)(entity_substitution=base.entity_substitution,
                                                              void_element_close_prefix=base.void_element_close_prefix,
                                                              cdata_containing_tags=base.cdata_containing_tags,
                                                              empty_attributes_are_booleans=base.empty_attributes_are_booleans,
                                                              indent=ind)))
        for name, ind, f in configs:
            pretty = el.decode(indent_level=0, formatter=f)
            if ind == "registry" and el.prettify(formatter=name) != pretty:
                ctx.fail({"origin": origin}, "prettify() is not decode(indent_level=0)", None, None)
            # every way of asking for the pretty form gives the same text: prettify(formatter=object) and the bytes form
            # prettify(encoding) decoded again (a document-level object writes its XML declaration / meta charset for that
            # encoding, so the bytes form is compared through utf-8, the default eventual encoding of decode())
            try:
                via_obj = el.prettify(formatter=f)
                via_bytes = el.prettify("utf-8", formatter=f).decode("utf-8")
            except Exception as e:
                via_obj = via_bytes = "EXC:" + type(e).__name__
            if via_obj != pretty or via_bytes != pretty:
                ctx.fail({"origin": origin, "formatter": name, "indent": repr(ind)},
                         "prettify(formatter=<object>) / prettify(encoding, formatter=<object>) differ from decode(indent_level=0, formatter=<object>)",
                         (via_obj[:200], via_bytes[:200]), pretty[:200], tag="prettify-entry-points")
            plain = el.decode(formatter=f)
            case = {"origin": origin, "formatter": name, "indent": repr(ind), "start": G.qname(el) if el is not root else "[root]",
                    "pretty": pretty}
            nontrivial = pretty.count("\n") >= 3 or any(is_pw(t) for t in G.tags_of(el))
            ctx.case((pretty, repr(ind), name), nontrivial=nontrivial)
            fe = G.enc_formatter(f, name, texts)
            is_soup_xml = isinstance(el, BeautifulSoup) and el.is_xml
            strip_decl = len('<?xml version="1.0" encoding="utf-8"?>\n') if is_soup_xml else 0
            batch.add([14000, fe, True, [0], dumped], lambda r, pretty=pretty[strip_decl:], case=case:
                      (G_to_str(r) != pretty) and ctx.disagree("decode(indent_level=0) ~ Model.Render.decode", case, pretty, G_to_str(r)))
            if rng.random() < 0.25:
                lv = rng.choice([None, 1, 2, -1, 5])
                got = el.decode(indent_level=lv, formatter=f)[strip_decl:]
                batch.add([14000, fe, True, [] if lv is None else [lv], dumped],
                          lambda r, got=got, case=case, lv=lv:
                          (G_to_str(r) != got) and ctx.disagree("decode(indent_level=%r) ~ Model.Render.decode" % lv, case, got, G_to_str(r)))
                gc = el.decode_contents(indent_level=lv, formatter=f)[strip_decl:]
                batch.add([14004, fe, True, [] if lv is None else [lv], dumped], lambda r, gc=gc, case=case, lv=lv:
                          (G_to_str(r) != gc) and ctx.disagree("decode_contents(indent_level=%r) ~ Model.Render.decode_contents" % lv, case, gc, G_to_str(r)))
            if is_soup_xml:
                pretty_body, plain_body = pretty[strip_decl:], plain[strip_decl:]
            else:
                pretty_body, plain_body = pretty, plain
            oracle(ctx, case, el, f, pretty_body, plain_body, xml, parsed)
            if ind == "registry" and name in ("minimal", "html"):
                # (string-level conditions of representable content are the oracle's: names the tokenizer accepts, ...)
                py_rep = (not any(t.name in G.HTML_VOID and t.contents for t in G.tags_of(el))) if parsed else (G.representable(el, xml) is None)
                pretty_token_level(ctx, batch, case, fe, dumped, pretty_body, py_rep)
            # the statements' own vocabulary, against an independent walk of the implementation's tree
            items = expected_items(el, f)
            if items is not None:
                batch.add([14002, fe, True, dumped], lambda r, items=items, case=case:
                          ([(d, bool(b), G_to_str(t)) for d, b, t in r] != [(d, bool(b), t) for d, b, t in items]) and
                          ctx.disagree("line structure of the tree ~ Spec.RenderSpec.items_spec", case, items[:8],
                                       [(d, bool(b), G_to_str(t)) for d, b, t in r][:8]))
                blocks = [t for d, b, t in items if b]
                batch.add([14003, fe, True, dumped], lambda r, blocks=blocks, case=case:
                          ([G_to_str(t) for t in r] != blocks) and
                          ctx.disagree("whitespace-preserving blocks ~ Spec.RenderSpec.pw_blocks_spec", case, blocks[:4], [G_to_str(t) for t in r][:4]))
    if len(ctx.samples) < 4 and root.contents:
        ctx.sample({"origin": origin, "prettify": root.prettify()[:300]})
    if histories and len(G.all_elements(root)) <= 150:
        render_histories(ctx, origin, root)          # last: it edits the tree


def indent_cases(ctx, batch):
    vals = [None, True, False, "", " ", "\t", "ab", "\xa0 ", 2.5, "OBJ"] + list(range(-3, 12)) + [40]
    for v in vals:
        arg = object() if v == "OBJ" else v
        got = Formatter(indent=arg).indent
        ctx.case(("indent", repr(v)))
        # the documented rule, stated independently
        if v is None:
            exp = ""
        elif isinstance(v, int):
            exp = " " * max(v, 0)
        elif isinstance(v, str) and v != "OBJ":
            exp = v
        else:
            exp = " "
        if got != exp:
            ctx.fail({"indent": repr(v)}, "Formatter(indent=...) does not give the documented indent unit", got, exp)
        batch.add([14001, enc_indent_arg(v)], lambda r, got=got, v=v:
                  (G_to_str(r) != got) and ctx.disagree("Formatter.__init__ indent ~ Model.Render.formatter_indent", {"indent": repr(v)}, got, G_to_str(r)))


FIXED = [
    "<div><pre> <i> y </i>\n</pre><br/><script> 1<2 </script><p>a<b>c</b> d</p></div>",
    "<pre><pre> x </pre> y </pre><textarea>\n t \n</textarea>",
    "<a><b></b><c/> <d>  </d>\n</a><!-- c --><!DOCTYPE html><?pi x?>",
    "<p>\xa0x\xa0</p><p> </p><p></p>",
    "<ul><li>1<li>2<pre>3<li>4</ul>",
]


def run(ctx):
    rng = ctx.rng
    batch = Batch(ctx)
    with warnings.catch_warnings():
        warnings.simplefilter("ignore")
        indent_cases(ctx, batch)
        origins = [{"kind": "doc", "markup": m} for m in FIXED]
        n_doc, n_soup, n_api, n_edit = (3000, 1200, 5000, 1500) if ctx.thorough else (220, 100, 420, 120)
        for _ in range(n_doc):
            origins.append({"kind": "doc", "markup": G.gen_doc(rng)})
        for _ in range(n_soup):
            origins.append({"kind": "soup", "markup": G.gen_soup(rng)})
        for i in range(n_api):
            origins.append({"kind": "api", "seed": rng.randrange(1 << 40), "xml": i % 3 == 0, "rich": i % 4 != 1})
        for _ in range(n_edit):
            origins.append({"kind": "edit", "markup": G.gen_doc(rng), "seed": rng.randrange(1 << 40), "rich": rng.random() < 0.5})
        # nesting far deeper than any fixed bound on indentation (indent * depth must hold at every depth)
        for depth in ((140, 300, 600) if ctx.thorough else (140, 300)):
            origins.append({"kind": "doc", "markup": G.gen_chain(rng, depth)})
        for k, origin in enumerate(origins):
            try:
                root, xml, parsed = build_from_origin(origin)
            except G.ParserRejectedMarkup:
                ctx.count("rejected_by_parser")
                continue
            ctx.count("trees_" + origin["kind"])
            small = len(G.all_elements(root)) <= 12
            check_tree(ctx, batch, origin, root, xml, parsed, every_start=(ctx.thorough and small) or k < len(FIXED),
                       histories=ctx.thorough or k < len(FIXED) or rng.random() < 0.35)
            if len(batch.cmds) > 4000:
                batch.flush()
        batch.flush()


def replay(ctx, data):
    class B:
        model_ok = os.path.exists(ctx.model.exe)
        proof_ok = True
    ctx.build = B()
    f = data.get("failure") or {}
    case = f.get("case") or ((data.get("disagreements") or [{}])[0].get("case"))
    if not case or "origin" not in case:
        print("nothing to replay")
        return 1
    origin = case["origin"]
    batch = Batch(ctx)
    with warnings.catch_warnings():
        warnings.simplefilter("ignore")
        root, xml, parsed = build_from_origin(origin)
        ctx.rng = random.Random(0)
        for _ in range(6):
            check_tree(ctx, batch, origin, root, xml, parsed, every_start=len(G.all_elements(root)) <= 40)
        batch.flush()
    for x in ctx.failures[:3]:
        print("FAIL", json.dumps(x, default=repr)[:1500])
    for x in ctx.disagreements[:3]:
        print("DISAGREE", json.dumps(x, default=repr)[:1500])
    return 1 if (ctx.failures or ctx.disagreements) else 0
