"""Runs edit histories on the implementation, the extracted model and the reference, step by step."""
import copy
from treeimpl import (build, Forest, RefForest, compare_states, walk_check, spec_fold, ref_from_spec, enc_cfg,
                      enc_event, impl_shape, HTML_CFG)
from histgen import OpGen


def gen_history(rng, events, cfg, steps, multi=0.4):
    """Generate an admissible history on the document the events describe. Returns (ops, expected)
    where expected[k] = (status, sorted root shapes) after op k according to the reference."""
    ref = ref_from_spec(spec_fold(events, cfg))
    gen = OpGen(ref)
    ops, expected = [], []
    while len(ops) < steps:
        for op in gen.random_op(rng, multi):
            st = ref.apply(op)
            ops.append(op)
            expected.append((st, ref_shapes(ref)))
    return ops, expected


def ref_shapes(ref):
    return sorted(ref.shape(i) for i in range(ref.n) if ref.P[i] is None and i not in ref.dead)


def impl_shapes(forest):
    return sorted(impl_shape(o) for o in forest.roots())


def model_cmd(cfg, events, ops):
    # the 4th field of an extend op only says how the implementation is handed the children (Tag / lazy iterable)
    return [10, enc_cfg(cfg), [enc_event(e) for e in events], [o[:3] if o[0] == 2 else o for o in ops]]


def replay(ctx, cfg, events, ops, expected, mres, props):
    """props: subset of {'C01','C02'} deciding which oracle failures are reported.
    mres: model result for this history or None."""
    soup = build(events, cfg)
    forest = Forest(soup)
    # .hidden only says whether an element's own tag is written on output; it must not change how the element is
    # treated as an argument or target of the editing calls (only a BeautifulSoup object stands for its children)
    from bs4 import BeautifulSoup as _BS
    from bs4.element import Tag as _Tag
    for i, o in enumerate(forest.objs):
        if i % 4 == 2 and isinstance(o, _Tag) and not isinstance(o, _BS):
            o.hidden = True
    case0 = {"events": events, "ops": []}
    if "C01" in props:
        bad = walk_check(forest)
        if bad:
            ctx.fail({"events": events, "ops": [], "step": -1}, "parsed tree is not consistently linked: " + bad[0], bad[:5])
            return
    if mres is not None:
        if not mres[0][1]:
            ctx.disagree("Spec.Tree.consistent_b holds on the parsed model heap", {"events": events}, None, 0)
            return
        d = compare_states(forest, mres[0][0])
        if d:
            ctx.disagree("parse-time linking ~ Model.Build.feed", {"events": events}, d[:4], None)
            return
    for k, op in enumerate(ops):
        le = listedit_before(forest, op)
        status = forest.apply(op)
        if le is not None and status == 0 and ctx.build.model_ok:
            ctx.listedit.append((le, [forest.oid(c) for c in le[4].contents], {"events": events, "ops": ops[:k + 1], "step": k}))
        case = {"events": events, "ops": ops[:k + 1], "step": k}
        if isinstance(status, str):
            if "C01" in props:
                try:
                    bad = walk_check(forest)
                except Exception as e:
                    bad = ["walking the tree raised %s" % type(e).__name__]
                if bad:
                    ctx.fail(case, "an editing call raised %s and left the forest inconsistently linked: %s" % (status[4:], bad[0]), bad[:5])
            ctx.disagree("editing call raised an unexpected exception", case, status, None)
            return
        mstate = None
        probs = None
        if mres is not None:
            mstatus, mstate, mchk, mwf = mres[k + 1]
            # how much of what the implementation accepts lies inside the quantifier of Proofs.EditRep.history_consistent
            ctx.count("calls_admissible_by_wf_op_b" if mwf else "calls_outside_wf_op_b")
            if status == 0 and not mwf:
                ctx.count("calls_ok_in_impl_but_outside_wf_op_b")
                if len(ctx.notes) < 8:
                    ctx.notes.append("call accepted by the implementation but not admissible for Model.EditOps.wf_op_b: %r" % (op,))
            probs = forest.sync(mstate)
        else:
            forest.discover(None)
        # the direct oracles run first, so that a real violation is reported with its concrete history even when the
        # correspondence with the model is what notices it first
        if "C01" in props:
            bad = walk_check(forest)
            if bad:
                ctx.fail(case, "navigation views disagree after an editing call: " + bad[0], bad[:6])
                return
        if "C02" in props and expected is not None:
            est, eshape = expected[k]
            ish = impl_shapes(forest)
            if (status, ish) != (est, eshape):
                ctx.fail(case, "editing call did not have exactly its documented effect on the forest",
                         {"status": status, "forest": ish}, {"status": est, "forest": eshape})
                return
        if mres is not None:
            if not mchk:
                ctx.disagree("Spec.Tree.consistent_b (rep of the forest read off the child lists) holds after the call", case, None, 0)
                return
            if probs:
                ctx.disagree("elements created by the call ~ model allocation", case, probs[:3], None)
                return
        if mres is not None:
            if mstatus != status:
                ctx.disagree("editing call outcome (ok / ValueError) ~ Model.Edit", case, status, mstatus)
                return
            d = compare_states(forest, mstate)
            if d:
                ctx.disagree("six links after an editing call ~ Model.Edit / Model.Heap", case, d[:4], None)
                return
    if "C01" in props and not ctx.failures:
        from props import c01 as _c01
        _c01.empty_clones(ctx, forest, {"events": events, "ops": ops, "step": len(ops) - 1})
    if mres is not None and len(mres) == len(ops) + 2:
        compare_views(ctx, forest, mres[-1], {"events": events, "ops": ops, "step": len(ops) - 1})


def compare_views(ctx, forest, views, case):
    """The model's traversal generators (Model/Iter.v) vs the implementation's, for every live element."""
    from bs4.element import Tag
    names = ["next_elements", "previous_elements", "next_siblings", "previous_siblings", "parents", "descendants"]
    for i, o in enumerate(forest.objs):
        if o is None or forest.dead(o):
            continue
        got = [list(o.next_elements), list(o.previous_elements), list(o.next_siblings), list(o.previous_siblings),
               list(o.parents), list(o.descendants) if isinstance(o, Tag) else []]
        for k in range(6):
            ids = [forest.oid(e) for e in got[k]]
            if ids != views[i][k]:
                ctx.disagree("traversal generator %s ~ Model.Iter" % names[k], case, {"element": i, "ids": ids}, views[i][k])
                return


def listedit_before(forest, op):
    """For insert / insert_before / insert_after / replace_with whose arguments are all existing non-document elements:
    (kind, n, cs, K_before, parent_object) so that the call's effect on the parent's child list can be compared with
    the list-level model Spec.ListEdit (which is what the C02 theorems are about)."""
    from bs4 import BeautifulSoup
    c = op[0]
    if c not in (0, 4, 5, 7):
        return None
    args = op[3] if c == 0 else op[2]
    if not args or any(a[0] != 0 for a in args):
        return None
    if any(a[1] >= len(forest.objs) or forest.objs[a[1]] is None or isinstance(forest.objs[a[1]], BeautifulSoup) for a in args):
        return None
    cs = [a[1] for a in args]
    if len(set(cs)) != len(cs):
        return None
    o = forest.objs[op[1]]
    if o is None or forest.dead(o):
        return None
    if c == 0:
        parent, n = o, op[2]
    else:
        parent, n = o.parent, op[1]
        if parent is None or op[1] in cs:
            return None
    if c == 7 and forest.oid(parent) in cs:
        return None
    # an argument must not be an ancestor-or-self of the parent
    anc = parent
    while anc is not None:
        if forest.oid(anc) in cs:
            return None
        anc = anc.parent
    return (c, n, cs, [forest.oid(k) for k in parent.contents], parent)


def flush_listedit(ctx):
    """Run the collected list-level cases through the model: code's effect = kmove_all/kbefore/kafter/kreplace = documented splice."""
    items = ctx.listedit
    ctx.listedit = []
    if not items:
        return
    cmds = []
    for (c, n, cs, K, _), after, case in items:
        cmds.append([13, c, n, cs, K])
        cmds.append([13, 100 + c, n, cs, K])
    res = ctx.model.run(cmds)
    for i, ((c, n, cs, K, _), after, case) in enumerate(items):
        ctx.count("listedit_cases")
        if res[2 * i] != after:
            ctx.disagree("effect of the call on the parent's child list ~ Spec.ListEdit (kmove_all/kbefore/kafter/kreplace)",
                         case, after, res[2 * i])
            return
        if res[2 * i + 1] != after:
            ctx.fail(case, "arguments not contiguous / in order / at the requested place (documented splice, Spec.ListEdit)",
                     after, res[2 * i + 1])
            return
