#!/bin/sh
# tools/try_patch.sh PATCH Cxx [tier] : apply PATCH to /repo, run the check, always revert.
P="$1"; C="$2"; T="${3:-quick}"
git -C /repo apply "$P" || { echo "patch does not apply"; exit 3; }
/verif/check "$C" --tier "$T"; rc=$?
git -C /repo checkout -- .
PYTHONPATH=/repo PYTHONHASHSEED=0 /venv/bin/python /verif/translator/gen_tables.py >/dev/null
echo "exit=$rc"
