#!/usr/bin/env python3
"""Writes MANIFEST.json from the per-property table below (kept in one place so it stays valid)."""
import json, os
HERE = os.path.dirname(os.path.dirname(os.path.abspath(__file__)))

CHECKS = {}   # id -> dict(category, text, note, technique, design_ref)
NA = {}       # id -> reason

def claim(pid, text, note, technique, category="proof", design_ref=None):
    CHECKS[pid] = dict(category=category, text=text, note=note, technique=technique,
                       design_ref=design_ref or "DESIGN.md section 8, " + pid)

exec(open(os.path.join(HERE, "tools", "claims.py")).read())
import glob
for _p in sorted(glob.glob(os.path.join(HERE, "tools", "claims.d", "C*.py"))):
    exec(open(_p).read())

props = [json.loads(l)["id"] for l in open(os.path.join(HERE, "properties.jsonl"))]
checks = []
for pid in props:
    if pid not in CHECKS:
        continue
    c = CHECKS[pid]
    checks.append({
        "property_id": pid,
        "quick_cmd": "./check %s --tier quick" % pid,
        "thorough_cmd": "./check %s --tier thorough" % pid,
        "evidence_file": "/verif/evidence/%s.json" % pid,
        "replay_cmd_template": "./check %s --replay {path}" % pid,
        "engine": "coq-proof+correspondence",
        "level_claimed": {"category": c["category"], "text": c["text"], "design_ref": c["design_ref"]},
        "level_note": c["note"],
        "technique": c["technique"],
    })
man = {
    "version": 1,
    "setup_cmd": "./setup.sh",
    "hooks": {
        "guard": "LIVE_CLONES_BEAUTIFULSOUP_VERIF",
        "enable": "no source hooks are needed: the checks import bs4 from /repo's working tree (PYTHONPATH=/repo) and observe it from outside; the variable is exported by ./check but nothing in /repo reads it",
        "baseline_off_cmd": "cd /repo && /venv/bin/python -m pytest -q -p no:cacheprovider --timeout=900",
        "source_commits": [],
        "add_only": True,
    },
    "engines": [{
        "name": "coq-proof+correspondence",
        "path": "/verif/check",
        "serves_properties": [c["property_id"] for c in checks],
        "kind_free_text": "Coq 8.16.1 theorems over an executable Gallina model (coq/Model, coq/Proofs, coq/Props); tables regenerated from /repo by translator/gen_tables.py on every run and the table obligations re-proved; algorithms tied by a correspondence check that runs the extracted model (ExtrOcamlBasic, ocaml/driver.ml) and the implementation on the same cases; Python oracles search for a concrete failing input when a proof or the correspondence breaks",
    }],
    "checks": checks,
    "notes": "See DESIGN.md. known_findings.json lists genuine defects (open / fixed). seeded/ holds independently written breaking changes and which check catches each.",
    "not_applicable": [{"property_id": p, "reason": NA.get(p, "check not built yet in this round; see DESIGN.md section 11 (order of work)")}
                       for p in props if p not in CHECKS],
}
json.dump(man, open(os.path.join(HERE, "MANIFEST.json"), "w"), indent=1)
print("MANIFEST.json: %d checks, %d not_applicable" % (len(checks), len(man["not_applicable"])))
