#!/usr/bin/env python3
"""Regenerate the table of seeded breaking changes in DESIGN.md (section 14.4) from seeded/*/meta.json."""
import glob, json, os, re
rows = []
for d in sorted(glob.glob("/verif/seeded/*/meta.json")):
    m = json.load(open(d))
    sid = os.path.basename(os.path.dirname(d))
    oc = m.get("our_check") or {}
    lines = oc.get("lines") or []
    verdict = "VIOLATION" if any(l.startswith("VIOLATION") for l in lines) else ("exit %s" % oc.get("exit"))
    if any("no-failing-input-found" in l for l in lines):
        verdict += " (no-failing-input-found: broken obligation / tie)"
    def cell(x):
        return re.sub(r"\s+", " ", str(x or "")).replace("|", "\\|")[:260]
    hist = m.get("history")
    rows.append("| %s | %s | %s | %s%s |" % (sid, cell(m.get("summary")), cell(m.get("needs_to_manifest")),
                                             "`./check %s` quick: %s" % (m["property"], verdict),
                                             (" — " + cell(hist)) if hist else ""))
table = ("| Seeded change | What it changes | What it needs to manifest | Caught by |\n|---|---|---|---|\n" + "\n".join(rows) + "\n")
p = "/verif/DESIGN.md"
s = open(p).read()
start = s.index("| Seeded change |")
end = s.index("\n\n", start) if "\n\n" in s[start:] else len(s)
s = s[:start] + table + s[end + 1:]
open(p, "w").write(s)
print(len(rows), "rows")
