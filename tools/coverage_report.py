#!/usr/bin/env python3
"""Which lines of the library do the correspondence runs execute?  (Measurement, not a check.)

Runs every property's quick check from a scratch copy of /verif under coverage.py (in /venv), combines the data
and writes coverage/impl_coverage.json: per source file the share of executable lines reached, and per function /
method of bs4 (tests excluded) whether the union of all quick checks ever enters it.  Functions never entered are
outside the tie between model and code: nothing in /verif says anything about them.
usage: tools/coverage_report.py [Cxx ...]      (scratch: /tmp/verif-cov, removed afterwards)"""
import ast, json, os, shutil, subprocess, sys
HERE = os.path.dirname(os.path.dirname(os.path.abspath(__file__)))
REPO = os.environ.get("VERIF_REPO", "/repo")
SCR = "/tmp/verif-cov"
props = [a for a in sys.argv[1:] if a.startswith("C")] or ["C%02d" % i for i in range(1, 21)]
subprocess.run("rsync -a --delete --exclude .git --exclude replays %s/ %s/" % (HERE, SCR), shell=True, check=True)
env = dict(os.environ, VERIF_REPO=REPO, PYTHONPATH=REPO, PYTHONHASHSEED="0", LIVE_CLONES_BEAUTIFULSOUP_VERIF="1",
           COVERAGE_FILE=os.path.join(SCR, ".coverage"), COVERAGE_CORE="sysmon")
rc_file = os.path.join(SCR, "coveragerc")
open(rc_file, "w").write("[run]\nsource = %s/bs4\nomit = */tests/*\nparallel = True\n" % REPO)
status = {}
for p in props:
    r = subprocess.run(["/venv/bin/python", "-B", "-m", "coverage", "run", "--rcfile", rc_file,
                        os.path.join(SCR, "harness/check.py"), p, "--tier", "quick"],
                       env=env, cwd=SCR, stdout=subprocess.PIPE, stderr=subprocess.STDOUT, text=True)
    last = [l for l in r.stdout.split("\n") if l.startswith(("OK", "VIOLATION", "HARNESS", "KNOWN"))]
    status[p] = last[-1] if last else "rc=%d" % r.returncode
    print(p, status[p], flush=True)
subprocess.run(["/venv/bin/python", "-m", "coverage", "combine", "--rcfile", rc_file], env=env, cwd=SCR, check=True,
               stdout=subprocess.DEVNULL)
js = os.path.join(SCR, "cov.json")
subprocess.run(["/venv/bin/python", "-m", "coverage", "json", "--rcfile", rc_file, "-o", js], env=env, cwd=SCR, check=True,
               stdout=subprocess.DEVNULL)
data = json.load(open(js))
out = {"repo_head": subprocess.run("git -C %s rev-parse --short HEAD" % REPO, shell=True, capture_output=True, text=True).stdout.strip(),
       "checks": status, "files": {}, "functions_never_entered": {}, "functions_entered": 0, "functions_total": 0}
for path, info in sorted(data["files"].items()):
    rel = os.path.relpath(path, REPO)
    executed = set(info["executed_lines"])
    out["files"][rel] = {"executable_lines": info["summary"]["num_statements"], "executed": info["summary"]["covered_lines"],
                         "percent": round(info["summary"]["percent_covered"], 1)}
    tree = ast.parse(open(path).read())
    never = []

    def visit(node, prefix):
        for ch in ast.iter_child_nodes(node):
            if isinstance(ch, ast.ClassDef):
                visit(ch, prefix + ch.name + ".")
            elif isinstance(ch, (ast.FunctionDef, ast.AsyncFunctionDef)):
                body = [s for s in ch.body if not (isinstance(s, ast.Expr) and isinstance(getattr(s, "value", None), ast.Constant)
                                                   and isinstance(s.value.value, str))]
                lines = set()
                for s in body:
                    for n in ast.walk(s):
                        if hasattr(n, "lineno"):
                            lines.add(n.lineno)
                out["functions_total"] += 1
                if lines and not (lines & executed):
                    never.append(prefix + ch.name)
                else:
                    out["functions_entered"] += 1
                visit(ch, prefix + ch.name + ".")
    visit(tree, "")
    if never:
        out["functions_never_entered"][rel] = never
os.makedirs(os.path.join(HERE, "coverage"), exist_ok=True)
json.dump(out, open(os.path.join(HERE, "coverage", "impl_coverage.json"), "w"), indent=1, sort_keys=True)
tot = sum(f["executable_lines"] for f in out["files"].values())
ex = sum(f["executed"] for f in out["files"].values())
print("lines: %d / %d (%.1f%%); functions entered: %d / %d" % (ex, tot, 100.0 * ex / tot, out["functions_entered"], out["functions_total"]))
shutil.rmtree(SCR, ignore_errors=True)
