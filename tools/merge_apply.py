#!/usr/bin/env python3
"""Merge a builder group's work: copy new files, add its _CoqProject / Dispatch lines, apply its fix patches to /repo
(git am), append its known-findings entries with the new commit ids. usage: tools/merge_apply.py G15"""
import json, os, re, subprocess, sys, glob
g = sys.argv[1]
src = "/tmp/build/%s/verif" % g
BASE = "8c153ec"
def sh(cmd, check=True):
    r = subprocess.run(cmd, shell=True, capture_output=True, text=True)
    if check and r.returncode != 0:
        print(r.stdout, r.stderr); raise SystemExit("FAILED: " + cmd)
    return r.stdout
def base(rel):
    return sh("git -C /verif show %s:%s" % (BASE, rel))
print(sh("python3 /verif/tools/merge_group.py %s --copy" % g))
# _CoqProject
b = base("coq/_CoqProject").split("\n")
t = open(src + "/coq/_CoqProject").read().split("\n")
mine = open("/verif/coq/_CoqProject").read().rstrip("\n").split("\n")
added = [l for l in t if l and l not in b and l not in mine]
open("/verif/coq/_CoqProject", "w").write("\n".join(mine + added) + "\n")
print("_CoqProject +", added)
# Dispatch.v
bd = base("coq/Run/Dispatch.v").split("\n")
td = open(src + "/coq/Run/Dispatch.v").read().split("\n")
md = open("/verif/coq/Run/Dispatch.v").read()
for l in td:
    if l in bd or l in md.split("\n") or not l.strip():
        continue
    if l.startswith("From BS Require"):
        mods = re.findall(r"Run\.D_C\d+", l)
        if not mods:
            print("UNMERGED Dispatch import:", l); continue
        l = "From BS Require Import " + " ".join(mods) + "."
        md = md.replace("Import ListNotations.", l + "\nImport ListNotations.", 1) if l not in md else md
    elif re.match(r"\s*\|\s*\d+\s*=>\s*disp_c\d+", l):
        md = md.replace("  match nn with\n", "  match nn with\n" + l + "\n", 1)
    else:
        print("UNMERGED Dispatch line:", l)
open("/verif/coq/Run/Dispatch.v", "w").write(md)
# fixes
hashes = {}
for p in sorted(glob.glob("/tmp/build/%s/fixes/*.patch" % g)):
    subj = [l for l in open(p, errors="replace").read().split("\n") if l.startswith("Subject:")][0]
    old = open(p).readline().split()[1][:7]
    r = subprocess.run("git -C /repo am -3 %s" % p, shell=True, capture_output=True, text=True)
    if r.returncode != 0:
        print("PATCH FAILED:", p, r.stdout[-400:], r.stderr[-400:]); sh("git -C /repo am --abort", check=False); continue
    new = sh("git -C /repo rev-parse --short HEAD").strip()
    hashes[old] = new
    print("applied", os.path.basename(p), old, "->", new)
print(sh("cd /repo && /venv/bin/python -m pytest -q -p no:cacheprovider --timeout=900 2>&1 | tail -1"))
# known findings
bk = json.loads(base("known_findings.json"))["findings"]
tk = json.load(open(src + "/known_findings.json"))["findings"]
mk = json.load(open("/verif/known_findings.json"))
have = {e["id"] for e in mk["findings"]}
for e in tk:
    if e in bk or e["id"] in have:
        continue
    s = json.dumps(e)
    for o, n in hashes.items():
        s = s.replace(o, n)
    e = json.loads(s)
    mk["findings"].append(e)
    print("finding +", e["id"], e.get("status"), e.get("commit"))
json.dump(mk, open("/verif/known_findings.json", "w"), indent=1)
