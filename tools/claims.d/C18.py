claim("C18",
      "Proved in Coq (no size bound): the repository's part — C18_pos_pass_through: for every configuration and every "
      "callback stream whose callbacks return, the list of (name, sourceline/sourcepos) of the tags the adapter creates "
      "is exactly the list of (name, getpos()) of the start-tag / startend-tag callbacks, in order (one tag per "
      "callback, position handed on unchanged); C18_pos_enabled_all_some; C18_pos_disabled_all_none: with "
      "store_line_numbers=False every tag's position is None for EVERY stream; C18_run_ok_iff. About positions "
      "themselves: C18_position_spec (the property's line/column = 1 + newlines before, characters after the last "
      "one), C18_updatepos_exact (the standard library's count/rindex bookkeeping equals the character-by-character "
      "reading for every slice from every position) and C18_linecol_compositional (tracking token by token over ANY "
      "slicing of the text — multi-line text, comments, CDATA, references, tags — yields before every token the true "
      "position of its offset: positions do not drift); C18_positions_true composes both. "
      "Tied to the code on every run: every tag's (sourceline, sourcepos) of the real parse vs the offsets recorded by "
      "the independent writer (all configurations, store_line_numbers on and off), vs Model.Adapter.tag_positions on the "
      "recorded callbacks, Model.Pos.true_pos vs a Python statement, and Model.Pos.updatepos vs the recorded "
      "(slice, getpos()) pairs of the standard library's own tracking; exhaustive over all concatenations of <=5/6 "
      "pieces of a 7-piece alphabet; for malformed input (token soup, mutations) the writer-free form: the text at the "
      "reported position is '<'+name and positions increase in document order. "
      "PARTIAL: where HTMLParser.getpos() points when a start-tag callback fires (i.e. that the tokenizer fires the "
      "callback at the token that begins with the tag's '<') is the standard library's behaviour: measured on every "
      "input, not proved.",
      "Trusted: Coq kernel; hand-written model of the adapter and of _markupbase.updatepos tied by correspondence on "
      "recorded callbacks / token slices; harness. No axioms (all 10 theorems closed under the global context).",
      "Coq proof (induction over strings / token lists / callback streams) + recorded-callback correspondence + "
      "writer-recorded-offset oracle")
