claim("C08",
      "Proved in Coq (Props/C08.v, 55 theorems, all 'Closed under the global context'), with the codec as a parameter "
      "(enc_char : code point -> option bytes, a BOM, a decoder) and for ALL strings / attribute lists / trees / indent "
      "levels / both formatters: (1) str.encode(enc,'xmlcharrefreplace') and therefore encode(), prettify(enc) and "
      "encode_contents() never raise when the codec can write ASCII; strict raises exactly when a character is "
      "unencodable; (2) if the decoder inverts strict encoding, the bytes decode to the rendered text in which exactly "
      "the unencodable characters are decimal references (decimal proved correct for every N); (3) lossless: element "
      "text and attribute values, after substitute_xml / quoted_attribute_value / replacement, read back exactly "
      "through the reference reader (Base/Reader.v) whenever the reference of each unencodable character reads back "
      "as itself -- which is proved for every code point >= U+00A0 (attributes: scalar, no noncharacter) from the "
      "reader tables; the closing quote is never inside the value; tree level: the decoded output of encode() / "
      "encode_contents() of any tree is the concatenation of the pieces of its events, text segments read back; "
      "END TO END WITH C09 (Proofs/EncodeCompose.v): for the formatter as modelled and proved by C09 (Model/EntitySubst.v: substitute_xml = minimal, substitute_html = html, quoted_attribute_value) and C09's readers (element text: the Base/Reader instance shared with C19, shown identical to C08's; attribute values: C09's full html.unescape model behind the quote-delimiting read_quoted), for EVERY string: substitute -> encode(xmlcharrefreplace) -> decode -> read back = the original text / attribute value (C08_lossless_text_minimal, C08_lossless_attr_minimal, C08_lossless_text_html, C08_lossless_attr_html); C09's theorems (every substitution output is [enc o s]) discharge the substitution, this development adds that replacing unencodable characters by decimal references keeps both readers on the original (incl. html.unescape on a decimal reference), so the only hypotheses are the codec's (writes ASCII; decoder inverts strict encoding) and the excluded class of the open finding (unencodable characters in U+00A0..U+10FFFF; attributes: no surrogate/noncharacter); the two models are proved to be the same functions (C08_models_agree) and the two attribute readers to agree on minimal output; closed with NO codec hypothesis for UTF-8 (element text of every Python str, attribute values of scalar values; also utf-8-sig and the html formatter) and for ASCII / ISO-8859-1. ASCII, ISO-8859-1, UTF-8 and utf-8-sig (strict decoder defined and proved inverse in Coq) are instantiated with no hypothesis left (UTF-8: every text of scalar values, no exception); (4) <meta>: set_up_substitutions installs the "
      "placeholder in exactly the two documented situations; with a target encoding the charset attribute renders as "
      "the encoding (emptied for python-specific ones); the content scanner (the fixed CHARSET_RE as a left-to-right "
      "automaton) rewrites every charset parameter to the encoding, adds/removes none, is stable under re-reading, "
      "leaves values without a parameter alone and removes all parameters for python-specific targets; with "
      "eventual_encoding=None every tree renders exactly as the tree without placeholders; (5) the three entry points "
      "share the xmlcharrefreplace policy and pass the target encoding to decode; encode = open tag + encode_contents "
      "+ close tag, as text and as bytes. PARTIAL: the lossless clause is false of the faithful model for C1 controls "
      "and (attributes) noncharacters the codec cannot represent (C08_lossless_refuted, open known finding); codec "
      "behaviour and the re-parse's auto-detection are measured, not proved. Table obligations re-proved each run: "
      "PYTHON_SPECIFIC_ENCODINGS (contains Python's documented set, no real charset), CHARSET_RE pattern and flags, "
      "defaults and error policies of the entry points (incl. the errors argument inside encode_contents, read from "
      "its AST), string literals of set_up_substitutions, the 'minimal' formatter, substitute_xml's entities, "
      "quoted_attribute_value probes, reader tables.",
      "Trusted: Coq kernel + vm_compute; translator/gen_c08.py (incl. AST reading of three functions); Python codecs "
      "(parameters; hypotheses measured per codec and per case: ASCII encodable, decode inverts strict encode -- "
      "exceptions found in the interpreter's own codecs are listed in the evidence, e.g. U+3164 in euc_kr); stateful "
      "codecs compared at text level; html.parser / html.unescape as the readers (reference reader validated against "
      "them on the model's outputs; tables from the interpreter); the hand-written scanner for CHARSET_RE, the event "
      "stream / decode loop / _format_tag model tied by correspondence (every <=4-token parameter string, 330/1500 "
      "random documents (html.parser builder and an XML-flavoured subclass of it with is_xml = True, incl. the whole corpus and the set_up_substitutions grid through both) x 34 codecs x 3 entry points, every scalar value x codec through Tag.encode in blocks); "
      "auto-detection of the re-parsed bytes is checked by the oracle only. No axioms.",
      "Coq proof (induction over strings / attribute lists / trees, automaton argument for the regex scanner, "
      "vm_compute table obligations) + extracted-model correspondence + direct decode/re-parse/auto-detect oracle")

# ---- concrete codecs (Model/Codecs.v, Proofs/CodecsProofs.v, Gen/T_Codecs.v) ----
CHECKS["C08"]["text"] += (
    " CONCRETE TARGETS: for ascii, iso-8859-1, windows-1252 and utf-8 the encoder is defined in Coq (inverse of the single-byte decode table generated from the running interpreter; RFC 3629) together with a strict decoder, and the "
    "codec hypotheses are theorems (C08_concrete_codec_hypotheses: writes ASCII, decode inverts strict encode AND encode inverts strict decode; C08_codec_tables_invertible over the 256 generated entries; "
    "C08_encodable_by_target: ascii = below 128, iso-8859-1 = below 256, utf-8 = scalar values, windows-1252 = the table's characters and none of U+0080..U+009F). Hence, for EVERY string and tree and with no hypothesis: "
    "str.encode(target,'xmlcharrefreplace') succeeds and the bytes decode strictly in the target to the text with exactly the unrepresentable characters as decimal references (C08_concrete_encode_total; errors='replace' total too), "
    "the three entry points never raise (C08_concrete_entry_points_never_raise), and substitute -> encode -> decode -> read back is the identity on element text and attribute values for both formatters "
    "(C08_concrete_lossless_text/_attr/_html) whenever each character is representable in the target or lies in U+00A0..U+10FFFF (values: no surrogate / noncharacter) - for iso-8859-1 and utf-8 that is every Python str "
    "(C08_text_ok_by_target); for ascii and windows-1252 the excluded characters are exactly the class of the open finding, and the refutation is proved for both inside Coq (C08_concrete_lossless_refuted, witness U+0096). "
    "What no longer rests on measured codec tables: every encode()/prettify(enc)/encode_contents() call of the document runs whose target is one of these four (any spelling codecs.lookup and the model agree on) is also compared "
    "byte for byte with Model.Codecs.c_tag_encode, which takes only the tree and the encoding NAME (~1500 calls per quick run). What still does: all other codecs (30 of the 34).")
CHECKS["C08"]["note"] += (
    " Concrete codecs: translator/gen_cd.py (fail-closed) generates the single-byte tables and the codec-name table; str.encode (strict / xmlcharrefreplace / replace) and bytes.decode of the Coq codecs are compared with the "
    "interpreter on all single bytes, all 0x110000 code points (encodability), and seeded random strings incl. lone surrogates, C1 controls and noncharacters (harness/cdcodecs.py).")

# ---- the last sentence of the property, end to end on the concrete model (Model/Autodetect.v, Proofs/AutodetectProofs.v) ----
CHECKS["C08"]["text"] += (
    " SELF-DESCRIBING, END TO END ON THE CONCRETE MODEL: Tag.encode as modelled (concrete encoders) composed with UnicodeDammit as modelled (modelled declaration sniffer, concrete decoders): "
    "for every tree, every split of its events around a <meta> element rendered as <meta charset=\"e\"/> or <meta content=\"text/html; charset=e\" http-equiv=\"Content-Type\"/> (both proved to be what the model of "
    "_format_tag writes for a builder-created meta, both formatters), e any of the 14 spellings of ascii / iso-8859-1 / windows-1252 / utf-8 on which codecs.lookup and the model agree: the encoded bytes, given back to "
    "UnicodeDammit with any exclusion list not naming e, are detected as e (original_encoding = declared_html_encoding = e, no replacement flag) and decode to exactly the rendering (C08_autodetect_declared, "
    "C08_autodetect_declared_rendering for any str containing the tag) under four side conditions about the ENCODED BYTES, stated as the code has them: no byte-order mark is recognised; the declaration, through the "
    "character closing the name, lies in the first max(2048, len/20) bytes; the first 1024 bytes are not an XML declaration naming an encoding; nothing earlier in the searched part matches the html pattern "
    "(decidable forms proved sound, C08_autodetect_conditions_decidable). EACH CONDITION IS NEEDED - four refutations proved inside Coq on the concrete model and reproduced on the real library "
    "(C08_autodetect_declared_refuted_mark_lookalike: a rendering starting with the text 'ÿþ' in iso-8859-1 is re-detected as utf-16le; _stale_xml_declaration: a <?xml ... encoding=?> processing instruction in front is "
    "not rewritten and wins; _declaration_in_comment: <!-- <meta charset=x> --> wins; _later_charset_in_tag: <meta charset=\"utf-8\" x=\"charset=latin-1\"/> - inside one tag the rightmost charset is reported). "
    "BYTE-ORDER MARK: UTF-16 / UTF-32 encoders (both byte orders) defined in Coq with decode(encode s) = s for every string (C08_wide_decode_encode); encode('utf-16'/'utf-32') = the interpreter's mark + little-endian form; "
    "for EVERY non-empty string the bytes are re-detected through the mark as utf-16le / utf-32le and decode to the rendering, whatever the document declares (C08_autodetect_bom), provided - UTF-16 only - the first "
    "character is not U+0000 (refuted otherwise: FF FE 00 00 is the UTF-32LE mark, C08_autodetect_bom_refuted_nul_first).")
CHECKS["C08"]["note"] += (
    " The hypotheses of C08_autodetect_declared are evaluated by the extracted model (command 21010) on ~110 generated documents per quick run (declarations ending at byte offsets around 1024 / 2048 / the 5 % mark "
    "behind four kinds of head material - the generators of c08_r4 -, 13 kinds of adversarial material in front, 4 tag variants; 8 spellings of the 4 targets, both styles); for the instances inside the domain (about 70 %; "
    "counts cd_autodetect_*) the conclusion is checked on the real library; C08_autodetect_bom likewise on ~220 strings (first character from the code-unit classes, lone surrogates, U+0000). Other targets (koi8-r, shift_jis ...) "
    "remain covered by the oracle of c08_r4 only.")
