# ---- the library's Windows-1252 tables against the codec defined in Coq (extends the claim in tools/claims.py) ----
CHECKS["C19"]["text"] += (
    " WINDOWS-1252 ITSELF: the codec is defined in Coq (Model/Codecs.v; decode table generated from the running interpreter, proved invertible) and the oracle tables of the sweep are proved to be that codec's "
    "(C19_carrier_tables_are_the_codecs). Table obligations re-proved on every run: MS_CHARS has exactly the keys 0x80-0x9F (C19_ms_chars_keys); an entry is a (name, hex) pair exactly where windows-1252 defines the byte, "
    "the hex digits being the character's code point and &name; reading back as the character, and a plain ASCII substitute exactly for the undefined bytes 81 8D 8F 90 9D (C19_ms_chars_match_cp1252: no discrepancy "
    "after the repair of 0x9F); WINDOWS_1252_TO_UTF8 has exactly one entry per byte >= 0x80 that windows-1252 defines (123) and each is the UTF-8 encoding of the byte's character with ONE exception computed inside Coq, "
    "0xE1 -> A1 instead of C3 A1, which detwingle never consults (C19_w1252_keys, C19_w1252_matches_cp1252_except_e1). With no conversion requested, UnicodeDammit(data, [carrier]) is compared on all 256 bytes (alone and in markup, "
    "four spellings of the two carriers the model defines) with the fully concrete model, no recorded decoding.")
CHECKS["C19"]["note"] += (
    " The windows-1252 / iso-8859-1 decoders are now also defined in Coq and compared with the interpreter on every byte and every code point; iso-8859-2 remains an oracle table only.")
