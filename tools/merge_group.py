#!/usr/bin/env python3
"""Merge helper: compare a builder's private copy /tmp/build/<G>/verif with /verif.
usage: tools/merge_group.py G15 [--copy]   (--copy copies files that are NEW in the builder's copy)"""
import filecmp, os, shutil, subprocess, sys
g = sys.argv[1]
src = "/tmp/build/%s/verif" % g
dst = "/verif"
skip_dirs = {".git", "build", "replays", "evidence", "__pycache__", "spikes", "seeded"}
skip_ext = (".vo", ".vok", ".vos", ".glob", ".aux", ".pyc")
new, changed = [], []
for root, dirs, files in os.walk(src):
    dirs[:] = [d for d in dirs if d not in skip_dirs]
    for f in files:
        if f.endswith(skip_ext) or f in ("Makefile", "Makefile.conf", ".Makefile.d", ".lia.cache", "MANIFEST.json") or f.startswith(".nia") or f.startswith(".lia"):
            continue
        p = os.path.join(root, f)
        rel = os.path.relpath(p, src)
        if rel.startswith("coq/Gen/"):
            continue
        q = os.path.join(dst, rel)
        if not os.path.exists(q):
            new.append(rel)
        elif not filecmp.cmp(p, q, shallow=False):
            changed.append(rel)
BASE = "8c153ec"
def base_text(rel):
    r = subprocess.run(["git", "-C", dst, "show", "%s:%s" % (BASE, rel)], capture_output=True)
    return r.stdout if r.returncode == 0 else None
theirs = []
for rel in changed:
    b = base_text(rel)
    if b is None or open(os.path.join(src, rel), "rb").read() != b:
        theirs.append(rel)
changed = theirs
print("NEW:", *new, sep="\n  ")
print("CHANGED BY THE BUILDER (relative to base %s):" % BASE, *changed, sep="\n  ")
if "--copy" in sys.argv:
    for rel in new:
        os.makedirs(os.path.dirname(os.path.join(dst, rel)), exist_ok=True)
        shutil.copy2(os.path.join(src, rel), os.path.join(dst, rel))
    print("copied %d new files" % len(new))
