#!/usr/bin/env python3
"""Evaluate seeded mutants without touching /repo: a scratch worktree of /repo's HEAD is patched and the checks are run
from a scratch copy of /verif with VERIF_REPO pointing at it.
usage: tools/eval_mutants.py DIR... (each DIR holds m<k>.diff [+ m<k>_demo.py], named .../Cxx[...]) [--tier quick]"""
import glob, json, os, re, subprocess, sys, time
WT = os.environ.get("EVAL_WT", "/tmp/wt/eval")     # one user per directory at a time: give parallel runs their own pair
VE = os.environ.get("EVAL_VE", "/tmp/verif-eval")
tier = "quick"
dirs = []
for a in sys.argv[1:]:
    if a.startswith("--tier="):
        tier = a.split("=", 1)[1]
    else:
        dirs.append(a)

def sh(cmd, **kw):
    return subprocess.run(cmd, shell=True, stdout=subprocess.PIPE, stderr=subprocess.STDOUT, text=True, **kw)

if not os.path.isdir(WT):
    print(sh("git -C /repo worktree add --detach %s HEAD" % WT).stdout)
else:
    sh("git -C %s checkout -- . && git -C %s checkout --detach %s" % (WT, WT, sh("git -C /repo rev-parse HEAD").stdout.strip()))
sh("mkdir -p %s && rsync -a --delete --exclude .git --exclude replays /verif/ %s/" % (VE, VE))
env = dict(os.environ, VERIF_REPO=WT)
results = []
for d in dirs:
    m = re.search(r"(C\d\d)", d)
    prop = m.group(1)
    for diff in sorted(glob.glob(os.path.join(d, "m?.diff"))):
        name = os.path.basename(diff)[:-5]
        orig_diff = diff
        if os.path.exists(diff[:-5] + ".rebased.diff"):
            diff = diff[:-5] + ".rebased.diff"     # same change, re-made against the current code after a fix: commit moved the context
        sh("git -C %s checkout -- ." % WT)
        r = sh("git -C %s apply %s" % (WT, diff))
        if r.returncode != 0:
            results.append({"prop": prop, "mutant": diff, "status": "patch-does-not-apply"})
            print(prop, name, "patch-does-not-apply"); continue
        t0 = time.time()
        demo = orig_diff[:-5] + "_demo.py"
        if not os.path.exists(demo):
            demo = os.path.join(d, "demo.py")
        demo_rc = None
        if os.path.exists(demo):
            demo_rc = sh("/venv/bin/python %s" % demo, env=dict(os.environ, PYTHONPATH=WT), timeout=600).returncode
        r = sh("%s/check %s --tier %s" % (VE, prop, tier), env=env, timeout=3600)
        lines = [l for l in r.stdout.split("\n") if l.startswith(("VIOLATION", "KNOWN-FINDING", "HARNESS-ERROR", "OK "))]
        results.append({"prop": prop, "mutant": orig_diff, "rc": r.returncode, "lines": lines, "demo_rc": demo_rc,
                        "wall": round(time.time() - t0, 1)})
        print(prop, name, "rc=%s" % r.returncode, "demo_rc=%s" % demo_rc, "%.0fs" % (time.time() - t0), "|", " ; ".join(lines)[:300], flush=True)
        sh("git -C %s checkout -- ." % WT)
os.makedirs("/tmp/mut", exist_ok=True)
json.dump(results, open("/tmp/mut/results-%d-%d.json" % (int(time.time()), os.getpid()), "w"), indent=1)
caught = sum(1 for r in results if r.get("rc") == 1)
print("caught %d / %d" % (caught, len(results)))
