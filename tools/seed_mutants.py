#!/usr/bin/env python3
"""Confirm independently written breaking changes and file them under /verif/seeded/<id>/.
For each /tmp/mut/Cxx/m<k>.diff: in the scratch worktree /tmp/wt/eval (never /repo): demo on the clean tree must exit 0; the patch
must apply; the library's test suite must still pass; the demo must then exit non-zero. The verdict of our check on the patched
tree is taken from the newest /tmp/mut/results-*.json produced by tools/eval_mutants.py.
usage: tools/seed_mutants.py Cxx..."""
import glob, json, os, shutil, subprocess, sys
WT = "/tmp/wt/eval"
ROOT = os.environ.get("MUT_ROOT", "/tmp/mut")
TAG = os.environ.get("MUT_TAG", "")      # e.g. "r2-" for the second round
def sh(cmd, **kw):
    return subprocess.run(cmd, shell=True, stdout=subprocess.PIPE, stderr=subprocess.STDOUT, text=True, **kw)
head = sh("git -C /repo rev-parse HEAD").stdout.strip()
sh("git -C %s checkout -- . ; git -C %s checkout --detach %s" % (WT, WT, head))
verdicts = {}
for rf in sorted(glob.glob("/tmp/mut/results-*.json")):
    for r in json.load(open(rf)):
        verdicts[r["mutant"]] = r
for prop in sys.argv[1:]:
    for diff in sorted(glob.glob("%s/%s/m?.diff" % (ROOT, prop))):
        k = os.path.basename(diff)[:-5]
        demo = diff[:-5] + "_demo.py"
        orig_diff = diff
        rebased = os.path.exists(diff[:-5] + ".rebased.diff")
        if rebased:
            diff = diff[:-5] + ".rebased.diff"
        meta_in = json.load(open(orig_diff[:-5] + ".json")) if os.path.exists(orig_diff[:-5] + ".json") else {}
        env = dict(os.environ, PYTHONPATH=WT)
        sh("git -C %s checkout -- ." % WT)
        d0 = sh("/venv/bin/python %s" % demo, env=env, timeout=900).returncode
        ap = sh("git -C %s apply %s" % (WT, diff)).returncode
        suite = sh("cd %s && /venv/bin/python -m pytest -q -p no:cacheprovider --timeout=900 2>&1 | tail -1" % WT, env=env, timeout=1800).stdout.strip()
        d1 = sh("/venv/bin/python %s" % demo, env=env, timeout=900).returncode
        sh("git -C %s checkout -- ." % WT)
        ok = (d0 == 0 and ap == 0 and "passed" in suite and "failed" not in suite and d1 != 0)
        v = verdicts.get(orig_diff, {})
        print(prop, k, "confirmed" if ok else "NOT-CONFIRMED", "demo_clean=%s apply=%s suite=%r demo_mutant=%s" % (d0, ap, suite, d1),
              "| check rc=%s" % v.get("rc"))
        if not ok:
            continue
        dst = "/verif/seeded/%s-%s%s" % (prop, TAG, k)
        os.makedirs(dst, exist_ok=True)
        shutil.copy(diff, dst + "/patch.diff")
        shutil.copy(demo, dst + "/demo.py")
        meta = {"property": prop, "summary": meta_in.get("summary"), "needs_to_manifest": meta_in.get("needs_to_manifest"),
                "base_commit": head, "rebased": rebased,
                "confirmed": {"demo_on_clean_tree_exit": d0, "patch_applies": True, "suite_with_patch": suite, "demo_with_patch_exit": d1,
                              "how": "tools/seed_mutants.py in scratch worktree /tmp/wt/eval (git apply; pytest; demo; git checkout -- .)"},
                "our_check": {"cmd": "./check %s --tier quick (VERIF_REPO=scratch worktree with the patch applied)" % prop,
                              "exit": v.get("rc"), "lines": v.get("lines"), "wall_s": v.get("wall")}}
        json.dump(meta, open(dst + "/meta.json", "w"), indent=1)
