(* C20 — Builder selection picks the newest builder offering the requested features.
   Property theorems only: each is closed by [exact] of a lemma proved in Proofs/, followed by
   Print Assumptions. Quantification: every registration history, every request list. *)
From Coq Require Import List NArith Bool.
From BS Require Import Base.Types Model.Registry Spec.RegistrySpec Proofs.RegistryProofs Gen.Tables.
Import ListNotations.
Open Scope N_scope.

(* the code's per-feature index + candidate-set loop computes the documented lookup *)
Theorem C20_lookup_spec : forall hist features,
  lookup (state_of hist) features = lookup_spec hist features.
Proof. exact lookup_refines_spec. Qed.
Print Assumptions C20_lookup_spec.

(* in the property's own words, when each class is registered once *)
Theorem C20_lookup_newest_with_all_offered : forall hist features,
  NoDup (map fst hist) ->
  lookup (state_of hist) features = lookup_spec_simple hist features.
Proof. exact lookup_spec_simple_ok. Qed.
Print Assumptions C20_lookup_newest_with_all_offered.

Theorem C20_no_builders : forall features, lookup (state_of []) features = None.
Proof. exact lookup_empty_registry. Qed.
Print Assumptions C20_no_builders.

Theorem C20_no_features_newest : forall hist r,
  lookup (state_of (hist ++ [r])) [] = Some (fst r).
Proof. exact lookup_no_features. Qed.
Print Assumptions C20_no_features_newest.

Theorem C20_nothing_offered : forall hist features,
  features <> [] -> forallb (fun f => negb (offered hist f)) features = true ->
  lookup (state_of hist) features = None.
Proof. exact lookup_nothing_offered. Qed.
Print Assumptions C20_nothing_offered.

Theorem C20_unoffered_ignored : forall hist features,
  filter (offered hist) features <> [] ->
  lookup (state_of hist) features = lookup (state_of hist) (filter (offered hist) features).
Proof. exact unoffered_features_ignored. Qed.
Print Assumptions C20_unoffered_ignored.

Theorem C20_result_sound : forall hist features b,
  NoDup (map fst hist) -> features <> [] ->
  lookup (state_of hist) features = Some b ->
  exists r, In r hist /\ fst r = b /\
            forall f, In f features -> offered hist f = true -> memN f (snd r) = true.
Proof. exact lookup_result_sound. Qed.
Print Assumptions C20_result_sound.

(* constructor: FeatureNotFound iff lookup is None; explicit builder bypasses the registry;
   kwargs are forwarded to the instantiated class *)
Theorem C20_constructor_fnf_iff : forall r dflt features kwargs,
  construct_decision r dflt BNone features kwargs = FeatureNotFound <->
  lookup r (match features with None | Some [] => dflt | Some l => l end) = None.
Proof. exact constructor_fnf_iff. Qed.
Print Assumptions C20_constructor_fnf_iff.

Theorem C20_constructor_explicit : forall r r' dflt dflt' features features' kwargs,
  (forall c, construct_decision r dflt (BClass c) features kwargs =
             construct_decision r' dflt' (BClass c) features' kwargs) /\
  (forall i, construct_decision r dflt (BInstance i) features kwargs =
             construct_decision r' dflt' (BInstance i) features' kwargs).
Proof. exact constructor_explicit_bypasses_registry. Qed.
Print Assumptions C20_constructor_explicit.

Theorem C20_constructor_kwargs : forall r dflt b features kwargs c kw,
  construct_decision r dflt b features kwargs = Instantiate c kw -> kw = kwargs.
Proof. exact constructor_forwards_kwargs. Qed.
Print Assumptions C20_constructor_kwargs.

(* data obligation, re-checked against /repo on every run (Gen/Tables.v is regenerated):
   with the builders this installation registers, the default request resolves to a builder,
   namely the html.parser one *)
Theorem C20_default_request_resolves :
  lookup (state_of shipped_registrations) default_builder_features = Some htmlparser_builder_id.
Proof. vm_compute. reflexivity. Qed.
Print Assumptions C20_default_request_resolves.
