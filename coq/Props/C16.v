(* C16 — parse_only keeps exactly the outermost matching elements.

   Property theorems only.  The construction machine with the two parse_only checks is
   Model/Strainer.v (zfeed: handle_starttag consults allow_tag_creation only while no kept element is
   open; endData drops the top-level strings allow_string_creation refuses); a well-formed document is
   a forest of [dnode]s and [brackets_f] its event stream; the filter is any SoupStrainer [sr], the
   semantics of its regular expressions / functions are parameters.  Universally quantified over
   documents, filters, builder configurations (void / whitespace-preserving / string-container sets)
   and multi-valued attribute tables.  [ctx_ok] is the open finding C16-rejected-context-ancestor:
   C16_rejected_context_refuted shows the statement is false of the code without it. *)
From Coq Require Import List NArith ZArith Bool Arith String.
From BS Require Import Base.Sexp Base.Types Base.Lit Gen.Tables Model.Heap Model.Edit Model.Build Model.Attrs Model.Search Model.Strainer
                       Spec.StrainerSpec Proofs.StrainerProofs.
Import ListNotations.
Local Open Scope nat_scope.
Local Open Scope string_scope.

(* a filter on tag names and/or single-valued attributes: the selective parse is, in document order,
   exactly the outermost elements of the full parse that the filter matches, each with its complete
   subtree, and nothing else *)
Theorem C16_parse_only_outermost : forall pat_sem fun_sem cfg sr table ds,
  tag_filter sr = true -> forallb (names_ok (c_root cfg)) ds = true ->
  forallb (single_valued sr table) ds = true -> forallb (ctx_ok pat_sem fun_sem sr cfg) ds = true ->
  zfeed pat_sem fun_sem (Some sr) cfg (brackets_f ds) =
  outermost_f (tag_matches pat_sem fun_sem sr table) (zfeed pat_sem fun_sem None cfg (brackets_f ds)).
Proof. exact parse_only_outermost. Qed.
Print Assumptions C16_parse_only_outermost.

(* the second evaluation path: the decision taken on the raw attribute dictionary before the Tag
   exists is the match on the finished Tag (name function-free, constrained attributes single-valued) *)
Theorem C16_raw_vs_processed : forall pat_sem fun_sem sr table name prefix attrs,
  tag_filter sr = true -> single_valued_on sr table name = true ->
  tag_matches pat_sem fun_sem sr table name prefix attrs = allowed pat_sem fun_sem sr name prefix attrs.
Proof. exact raw_vs_processed. Qed.
Print Assumptions C16_raw_vs_processed.

(* a filter with only string criteria drops every tag and keeps exactly the text runs it matches *)
Theorem C16_string_only_filter : forall pat_sem fun_sem cfg sr ds,
  string_filter sr = true -> forallb (names_ok (c_root cfg)) ds = true -> forallb (ctx_free cfg) ds = true ->
  zfeed pat_sem fun_sem (Some sr) cfg (brackets_f ds) =
  keep_strings pat_sem fun_sem sr (zfeed pat_sem fun_sem None cfg (brackets_f ds)).
Proof. exact string_only_filter. Qed.
Print Assumptions C16_string_only_filter.

(* a filter mixing both kinds of criteria keeps nothing *)
Theorem C16_mixed_keeps_nothing : forall pat_sem fun_sem cfg sr ds,
  mixed_filter sr = true -> forallb (names_ok (c_root cfg)) ds = true ->
  zfeed pat_sem fun_sem (Some sr) cfg (brackets_f ds) = [].
Proof. exact mixed_keeps_nothing. Qed.
Print Assumptions C16_mixed_keeps_nothing.

(* the run of the machine on a document's events is the recursive denotation of the document, with
   or without a filter (every document, every filter) *)
Theorem C16_run_is_denotation : forall pat_sem fun_sem po cfg ds,
  forallb (names_ok (c_root cfg)) ds = true ->
  zfeed pat_sem fun_sem po cfg (brackets_f ds) = dsem_list pat_sem fun_sem po cfg true false None [] ds.
Proof. exact zfeed_dsem. Qed.
Print Assumptions C16_run_is_denotation.

(* OPEN FINDING: <pre><b> \n </b></pre> with SoupStrainer("b"), over the generated HTML tables *)
Theorem C16_rejected_context_refuted :
  exists ds,
    tag_filter sr_b = true /\ forallb (names_ok (c_root html_cfg)) ds = true /\
    forallb (single_valued sr_b (Some default_cdata_list_attributes)) ds = true /\
    zfeed no_pat16 no_fun16 (Some sr_b) html_cfg (brackets_f ds) <>
    outermost_f (tag_matches no_pat16 no_fun16 sr_b (Some default_cdata_list_attributes))
                (zfeed no_pat16 no_fun16 None html_cfg (brackets_f ds)).
Proof. exact rejected_context_refuted. Qed.
Print Assumptions C16_rejected_context_refuted.

(* the hypotheses are satisfiable (and the filter keeps something) *)
Theorem C16_domain_inhabited :
  tag_filter sr_b_id = true /\ forallb (names_ok (c_root html_cfg)) doc_ok = true /\
  forallb (single_valued sr_b_id (Some default_cdata_list_attributes)) doc_ok = true /\
  forallb (ctx_ok no_pat16 no_fun16 sr_b_id html_cfg) doc_ok = true /\
  List.length (zfeed no_pat16 no_fun16 (Some sr_b_id) html_cfg (brackets_f doc_ok)) = 1.
Proof. exact tag_domain_inhabited. Qed.
Print Assumptions C16_domain_inhabited.

(* table obligation (regenerated from the source on every run): id, href and name are single-valued
   on every tag, so filters on them lie in the domain of C16_parse_only_outermost *)
Theorem C16_single_valued_table : forall tag,
  is_multi default_cdata_list_attributes tag (lit "id") = false /\
  is_multi default_cdata_list_attributes tag (lit "href") = false /\
  is_multi default_cdata_list_attributes tag (lit "name") = false.
Proof. exact id_href_name_single_valued. Qed.
Print Assumptions C16_single_valued_table.
