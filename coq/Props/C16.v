(* C16 — parse_only keeps exactly the outermost matching elements.

   Property theorems only.  The construction machine with the two parse_only checks is
   Model/Strainer.v (zfeed: handle_starttag consults allow_tag_creation only while no kept element is
   open; endData drops the top-level strings allow_string_creation refuses); a well-formed document is
   a forest of [dnode]s and [brackets_f] its event stream; the filter is any SoupStrainer [sr], the
   semantics of its regular expressions / functions are parameters.  Universally quantified over
   documents (elements called like the document object included), filters, builder configurations (void / whitespace-preserving / string-container sets)
   and multi-valued attribute tables.  [ctx_ok] is the open finding C16-rejected-context-ancestor:
   C16_rejected_context_refuted shows the statement is false of the code without it. *)
From Coq Require Import List NArith ZArith Bool Arith String.
From BS Require Import Base.Sexp Base.Types Base.Lit Gen.Tables Model.Heap Model.Edit Model.Build Model.Attrs Model.Search Model.Strainer
                       Spec.BuildSpec Spec.StrainerSpec Proofs.StrainerProofs Proofs.StrainerSim.
Import ListNotations.
Local Open Scope nat_scope.
Local Open Scope string_scope.

(* a filter on tag names and/or single-valued attributes: the selective parse is, in document order,
   exactly the outermost elements of the full parse that the filter matches, each with its complete
   subtree, and nothing else *)
Theorem C16_parse_only_outermost : forall pat_sem fun_sem cfg sr table ds,
  tag_filter sr = true ->
  forallb (single_valued sr table) ds = true -> forallb (ctx_ok pat_sem fun_sem sr cfg) ds = true ->
  zfeed pat_sem fun_sem (Some sr) cfg (brackets_f ds) =
  outermost_f (tag_matches pat_sem fun_sem sr table) (zfeed pat_sem fun_sem None cfg (brackets_f ds)).
Proof. exact parse_only_outermost. Qed.
Print Assumptions C16_parse_only_outermost.

(* the second evaluation path: the decision taken on the raw attribute dictionary before the Tag
   exists is the match on the finished Tag (name function-free, constrained attributes single-valued) *)
Theorem C16_raw_vs_processed : forall pat_sem fun_sem sr table name prefix attrs,
  tag_filter sr = true -> single_valued_on sr table name = true ->
  tag_matches pat_sem fun_sem sr table name prefix attrs = allowed pat_sem fun_sem sr name prefix attrs.
Proof. exact raw_vs_processed. Qed.
Print Assumptions C16_raw_vs_processed.

(* a filter with only string criteria drops every tag and keeps exactly the text runs it matches *)
Theorem C16_string_only_filter : forall pat_sem fun_sem cfg sr ds,
  string_filter sr = true -> forallb (ctx_free cfg) ds = true ->
  zfeed pat_sem fun_sem (Some sr) cfg (brackets_f ds) =
  keep_strings pat_sem fun_sem sr (zfeed pat_sem fun_sem None cfg (brackets_f ds)).
Proof. exact string_only_filter. Qed.
Print Assumptions C16_string_only_filter.

(* ... and for EVERY well-formed document: the selective parse under a string-only filter is exactly the matching
   text runs of the document, in order.  A text run (Spec.StrainerSpec.text_runs) is a maximal sequence of
   character-data chunks not interrupted by any tag — kept or dropped — or comment-like item: adjacent text
   separated only by dropped tags is NOT merged; each run is stored the way the document level stores text. *)
Theorem C16_string_only_filter_runs : forall pat_sem fun_sem cfg sr ds,
  string_filter sr = true ->
  zfeed pat_sem fun_sem (Some sr) cfg (brackets_f ds) = keep_runs pat_sem fun_sem sr (text_runs cfg [] ds).
Proof. exact string_only_filter_runs. Qed.
Print Assumptions C16_string_only_filter_runs.

(* OPEN FINDING C16-string-filter-lost-context: against the full parse the statement fails once a dropped element
   would have changed how its text is stored: <pre> \n </pre>, SoupStrainer(string=" \n ") keeps nothing *)
Theorem C16_string_filter_context_refuted :
  exists ds,
    string_filter sr_ws = true /\
    zfeed no_pat16 no_fun16 (Some sr_ws) html_cfg (brackets_f ds) <>
    keep_strings no_pat16 no_fun16 sr_ws (zfeed no_pat16 no_fun16 None html_cfg (brackets_f ds)).
Proof. exact string_filter_context_refuted. Qed.
Print Assumptions C16_string_filter_context_refuted.

(* a filter mixing both kinds of criteria keeps nothing *)
Theorem C16_mixed_keeps_nothing : forall pat_sem fun_sem cfg sr ds,
  mixed_filter sr = true ->
  zfeed pat_sem fun_sem (Some sr) cfg (brackets_f ds) = [].
Proof. exact mixed_keeps_nothing. Qed.
Print Assumptions C16_mixed_keeps_nothing.

(* the run of the machine on a document's events is the recursive denotation of the document, with
   or without a filter (every document, every filter) *)
Theorem C16_run_is_denotation : forall pat_sem fun_sem po cfg ds,
  zfeed pat_sem fun_sem po cfg (brackets_f ds) = dsem_list pat_sem fun_sem po cfg true (root_pw cfg) (root_sc cfg) [] ds.
Proof. exact zfeed_dsem. Qed.
Print Assumptions C16_run_is_denotation.


(* ---- the frame machine of the theorems above IS the model of the code ----
   Model.Strainer.feed_po is Model/Build.v's heap machine (every link, open_tag_counter, the two auxiliary
   object stacks, exactly as the code keeps them) with the two parse_only checks inserted; for every
   configuration, every filter (or none) and EVERY event sequence — well-formed or not — its final heap is
   exactly the encoding of the frame machine's tree: node x (in creation order) has the parent, the payload
   and the contents that the pre-order listing of [zfeed]'s result dictates, and only the document object is
   left open.  So the three theorems above are statements about the model of the code itself. *)
Theorem C16_frame_machine_is_heap_machine : forall pat_sem fun_sem po cfg evs,
  let b := feed_po pat_sem fun_sem po cfg evs in
  let nodes := root_node cfg :: flat_list cfg (Some 0) 1 (zfeed pat_sem fun_sem po cfg evs) in
  nxt (b_st b) = List.length nodes /\
  (forall x, x < List.length nodes ->
     par (hp (b_st b) x) = sn_parent (nth x nodes (mksn None no_payload)) /\
     b_pay b x = sn_pay (nth x nodes (mksn None no_payload)) /\
     kids (hp (b_st b) x) = children_of nodes x) /\
  b_stack b = [0] /\ b_cur b = Some 0.
Proof. exact frame_machine_is_heap_machine. Qed.
Print Assumptions C16_frame_machine_is_heap_machine.

(* without a filter the machine with the checks is C03's machine (Model.Build.feed) itself *)
Theorem C16_no_filter_is_build : forall pat_sem fun_sem cfg evs,
  feed_po pat_sem fun_sem None cfg evs = feed cfg evs.
Proof. exact feed_po_none. Qed.
Print Assumptions C16_no_filter_is_build.

(* hence, on the heaps: the selective parse's heap encodes the outermost matching elements of the tree
   the full parse's heap encodes *)
Theorem C16_parse_only_outermost_heap : forall pat_sem fun_sem cfg sr table ds,
  tag_filter sr = true ->
  forallb (single_valued sr table) ds = true -> forallb (ctx_ok pat_sem fun_sem sr cfg) ds = true ->
  exists T,
    encodes cfg (feed cfg (brackets_f ds)) T /\
    encodes cfg (feed_po pat_sem fun_sem (Some sr) cfg (brackets_f ds)) (outermost_f (tag_matches pat_sem fun_sem sr table) T).
Proof. exact parse_only_outermost_heap. Qed.
Print Assumptions C16_parse_only_outermost_heap.

(* OPEN FINDING: <pre><b> \n </b></pre> with SoupStrainer("b"), over the generated HTML tables *)
Theorem C16_rejected_context_refuted :
  exists ds,
    tag_filter sr_b = true /\
    forallb (single_valued sr_b (Some default_cdata_list_attributes)) ds = true /\
    zfeed no_pat16 no_fun16 (Some sr_b) html_cfg (brackets_f ds) <>
    outermost_f (tag_matches no_pat16 no_fun16 sr_b (Some default_cdata_list_attributes))
                (zfeed no_pat16 no_fun16 None html_cfg (brackets_f ds)).
Proof. exact rejected_context_refuted. Qed.
Print Assumptions C16_rejected_context_refuted.

(* the hypotheses are satisfiable (and the filter keeps something) *)
Theorem C16_domain_inhabited :
  tag_filter sr_b_id = true /\
  forallb (single_valued sr_b_id (Some default_cdata_list_attributes)) doc_ok = true /\
  forallb (ctx_ok no_pat16 no_fun16 sr_b_id html_cfg) doc_ok = true /\
  List.length (zfeed no_pat16 no_fun16 (Some sr_b_id) html_cfg (brackets_f doc_ok)) = 1.
Proof. exact tag_domain_inhabited. Qed.
Print Assumptions C16_domain_inhabited.

(* table obligation (regenerated from the source on every run): id, href and name are single-valued
   on every tag, so filters on them lie in the domain of C16_parse_only_outermost *)
Theorem C16_single_valued_table : forall tag,
  is_multi default_cdata_list_attributes tag (lit "id") = false /\
  is_multi default_cdata_list_attributes tag (lit "href") = false /\
  is_multi default_cdata_list_attributes tag (lit "name") = false.
Proof. exact id_href_name_single_valued. Qed.
Print Assumptions C16_single_valued_table.
