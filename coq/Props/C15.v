(* C15 — Formatter options take effect and output is deterministic.

   "Every option accepted by a formatter constructor (entity_substitution function,
   void_element_close_prefix, cdata_containing_tags, empty_attributes_are_booleans, indent) has its
   documented effect on output, whichever formatter class (Formatter, HTMLFormatter, XMLFormatter) is used
   and however the formatter is supplied (object, registered name, bare function); a custom substitution
   function determines the rendered form of every text node and attribute value outside cdata-containing
   tags and of nothing else (comments, CDATA sections, doctypes and script/style contents are emitted
   verbatim). Output is a deterministic function of the tree: attributes appear in sorted order regardless
   of insertion order, and the result does not depend on interpreter hash randomisation."

   Property theorems only. Model: Model/Formatter.v (constructors, resolution, the decode loop),
   Model/EntityAlt.v (the entity regexes as ordered alternations); documented behaviour:
   Spec/FormatterSpec.v. Defaults, registries, string classes and regex particles are regenerated from the
   code on every run (Gen/T_C15.v). Hash randomisation itself is a runtime matter (measured by subprocess
   runs); the theorems remove its two sources in the code: attribute order and alternation order. *)
From Coq Require Import String List NArith ZArith Bool Permutation Sorted.
From BS Require Import Base.Sexp Base.Types Base.Lit Model.FmtTypes Gen.Stdlib Gen.T_C15 Model.Formatter
     Model.EntityAlt Spec.FormatterSpec Proofs.FormatterProofs Proofs.EntityAltProofs.
Import ListNotations.
Open Scope string_scope.
Open Scope list_scope.
Open Scope N_scope.

(* ---------------------------------------------------------------- options arrive, for every class *)

(* all three classes, all arguments (given, omitted, None): the constructed object has the documented
   attributes; in particular HTMLFormatter / XMLFormatter forward every argument, indent included *)
Theorem C15_ctor_options_effective : forall c a, construct c a = documented_formatter c a.
Proof. exact construct_documented. Qed.
Print Assumptions C15_ctor_options_effective.

(* indent: None / negative -> "", n >= 0 -> n spaces, str -> itself, any other object -> one space *)
Theorem C15_indent_normalisation : forall i,
  normalise_indent i =
  match i with INone => [] | IInt z => repeat 32 (Z.to_nat z) | IStr s => s | IOther => lit " " end.
Proof. exact normalise_indent_documented. Qed.
Print Assumptions C15_indent_normalisation.

(* table obligations: the signatures' defaults and the class constants are the documented ones *)
Theorem C15_ctor_defaults :
  formatter_defaults = mkdef None None (Some (lit "/")) None false (IInt 1) /\
  htmlformatter_defaults = mkdef None None (Some (lit "/")) None false (IInt 1) /\
  xmlformatter_defaults = mkdef None None (Some (lit "/")) None false (IInt 1).
Proof. exact ctor_defaults_documented. Qed.
Print Assumptions C15_ctor_defaults.

Theorem C15_language_constants :
  fmt_lang_html = lit "html" /\ fmt_lang_xml = lit "xml" /\
  fmt_html_default_cdata = [lit "script"; lit "style"].
Proof. exact language_constants_documented. Qed.
Print Assumptions C15_language_constants.

(* ---------------------------------------------------------------- however the formatter is supplied *)

(* table obligations: the registries contain exactly the documented names with the documented options *)
Theorem C15_html_registry :
  let cd := [lit "script"; lit "style"] in
  html_registry =
  [ (None,                     F (lit "html") None            (lit "/") cd false);
    (Some (lit "html"),        F (lit "html") (Some SubHtml)  (lit "/") cd false);
    (Some (lit "html5"),       F (lit "html") (Some SubHtml5) (lit "")  cd true);
    (Some (lit "html5-4.12"),  F (lit "html") (Some SubHtml)  (lit "")  cd true);
    (Some (lit "minimal"),     F (lit "html") (Some SubXml)   (lit "/") cd false) ].
Proof. exact html_registry_documented. Qed.
Print Assumptions C15_html_registry.

Theorem C15_xml_registry :
  xml_registry =
  [ (None,                 F (lit "xml") None           (lit "/") [] false);
    (Some (lit "html"),    F (lit "xml") (Some SubHtml) (lit "/") [] false);
    (Some (lit "minimal"), F (lit "xml") (Some SubXml)  (lit "/") [] false) ].
Proof. exact xml_registry_documented. Qed.
Print Assumptions C15_xml_registry.

(* the registered objects are what the (modelled) constructors make of the registration arguments *)
Theorem C15_registries_constructed :
  reg_get (Some (lit "html5")) html_registry =
    Some (construct CHTMLFormatter (mkargs None (Some (Some SubHtml5)) (Some (Some [])) None (Some true) None)) /\
  reg_get (Some (lit "minimal")) html_registry = Some (construct CHTMLFormatter (only_subst SubXml)) /\
  reg_get (Some (lit "html")) html_registry = Some (construct CHTMLFormatter (only_subst SubHtml)) /\
  reg_get None html_registry = Some (construct CHTMLFormatter (mkargs None (Some None) None None None None)) /\
  reg_get (Some (lit "minimal")) xml_registry = Some (construct CXMLFormatter (only_subst SubXml)) /\
  reg_get (Some (lit "html")) xml_registry = Some (construct CXMLFormatter (only_subst SubHtml)) /\
  reg_get None xml_registry = Some (construct CXMLFormatter (mkargs None (Some None) None None None None)).
Proof. exact registries_are_constructed. Qed.
Print Assumptions C15_registries_constructed.

(* an object is used as it is; a bare function becomes the flavour's class with that function and
   otherwise default options; a name is looked up in the flavour's registry *)
Theorem C15_formatter_object : forall is_xml f, formatter_for_name is_xml (FObj f) = Some f.
Proof. exact formatter_for_name_object. Qed.
Print Assumptions C15_formatter_object.

Theorem C15_formatter_function : forall is_xml s,
  formatter_for_name is_xml (FFunc s) =
  Some (documented_formatter (if is_xml then CXMLFormatter else CHTMLFormatter) (only_subst s)).
Proof. exact formatter_for_name_function. Qed.
Print Assumptions C15_formatter_function.

Theorem C15_formatter_name : forall is_xml n,
  formatter_for_name is_xml (FName n) = reg_get n (if is_xml then xml_registry else html_registry).
Proof. exact formatter_for_name_name. Qed.
Print Assumptions C15_formatter_name.

(* the flavour is the nearest known_xml on the way up, else the top object's is_xml (default False) *)
Theorem C15_flavour_resolution : forall chain top,
  is_xml_of chain top = match find known chain with Some (Some b) => b | _ => top end.
Proof. exact is_xml_of_spec. Qed.
Print Assumptions C15_flavour_resolution.

(* ---------------------------------------------------------------- documented effect on output *)

(* The decode loop (event stream, indent_level and string_literal_tag state) computes the structural
   rendering of Spec/FormatterSpec.v for every tree with distinct element identities, every formatter,
   every substitution function, every indent level, decode and decode_contents alike. *)
Theorem C15_decode_refines_spec : forall apply fmt lvl incl root,
  NoDup (node_ids root) ->
  decode apply fmt lvl incl root = render_spec apply fmt lvl incl root.
Proof. exact decode_refines_spec. Qed.
Print Assumptions C15_decode_refines_spec.

Theorem C15_decode_plain_refines_spec : forall apply fmt incl root,
  decode apply fmt None incl root = render_spec apply fmt None incl root.
Proof. exact decode_plain_refines_spec. Qed.
Print Assumptions C15_decode_plain_refines_spec.

(* constructor arguments to output, in one step: whichever class, the output is the structural rendering
   under the documented options (indent unit = documented_indent, cdata tags, void prefix, ...) *)
Theorem C15_options_end_to_end : forall apply c a lvl incl root,
  NoDup (node_ids root) ->
  decode apply (construct c a) lvl incl root = render_spec apply (documented_formatter c a) lvl incl root.
Proof. exact options_end_to_end. Qed.
Print Assumptions C15_options_end_to_end.

(* Tag._event_stream (explicit stack, parent-pointer comparisons over the document-order iterator)
   emits exactly the recursive bracket sequence the theorems above work with *)
Theorem C15_event_stream_brackets : forall incl root,
  NoDup (node_ids root) -> event_stream [] (root_items incl root) = root_events incl root.
Proof. exact event_stream_brackets. Qed.
Print Assumptions C15_event_stream_brackets.

Theorem C15_decode_stream_eq : forall apply fmt lvl incl root,
  NoDup (node_ids root) ->
  decode_stream apply fmt lvl incl root = decode apply fmt lvl incl root /\
  decode_stream_calls fmt incl root = decode_calls fmt incl root.
Proof. exact decode_stream_eq. Qed.
Print Assumptions C15_decode_stream_eq.

(* the whole pipeline as the code runs it *)
Theorem C15_stream_end_to_end : forall apply c a lvl incl root,
  NoDup (node_ids root) ->
  decode_stream apply (construct c a) lvl incl root = render_spec apply (documented_formatter c a) lvl incl root.
Proof. exact stream_end_to_end. Qed.
Print Assumptions C15_stream_end_to_end.

(* the entry point as a whole (Tag.decode / decode_contents / prettify with formatter=<object | name | function>):
   the structural rendering under the formatter that argument documentedly denotes on this tree's flavour
   (KeyError for a name the flavour's registry lacks), the substitution function called exactly on the call sites *)
Theorem C15_supplied_any_way : forall apply chain top sp lvl incl soup_xml root,
  NoDup (node_ids root) ->
  tag_decode apply chain top sp lvl incl soup_xml root =
  match denoted_formatter (is_xml_of chain top) sp with
  | None => None
  | Some f => Some ((if soup_xml then xml_declaration else []) ++ render_spec apply f lvl incl root,
                    match f_subst f with Some _ => root_sites (call_sites f) incl root | None => [] end)
  end.
Proof. exact tag_decode_spec. Qed.
Print Assumptions C15_supplied_any_way.

(* the pieces the structural rendering is made of, option by option *)
(* void_element_close_prefix goes to empty elements only (None counts as ""); attributes to start tags only *)
Theorem C15_tag_piece : forall apply fmt e opening,
  ei_hidden e = false ->
  format_tag apply fmt e opening =
  lit "<" ++ (if opening then [] else lit "/") ++ qname e
          ++ (if opening then attribute_string apply fmt e else [])
          ++ (if ei_empty e then match f_void fmt with Some v => v | None => [] end else []) ++ lit ">".
Proof. exact tag_piece. Qed.
Print Assumptions C15_tag_piece.

Theorem C15_attribute_string : forall apply fmt e,
  attribute_string apply fmt e =
  flat_map (fun kv => 32 :: attr_text apply fmt kv) (attributes fmt (ei_attrs e)).
Proof. exact attribute_string_spec. Qed.
Print Assumptions C15_attribute_string.

(* empty_attributes_are_booleans: exactly the empty-string values turn into bare names *)
Theorem C15_empty_attributes_are_booleans : forall fmt v,
  eab_conv fmt v = match v with AStr [] => if f_eab fmt then ANone else AStr [] | _ => v end.
Proof. exact eab_effect. Qed.
Print Assumptions C15_empty_attributes_are_booleans.

(* ---------------------------------------------------------------- substitution: where, and nowhere else *)

(* a text node: delimiters of its class around either the text itself (verbatim classes, parent in
   cdata_containing_tags, no function) or the function's result *)
Theorem C15_text_piece : forall apply fmt c s pn,
  output_ready apply fmt c s pn =
  fst (snd (class_row c)) ++
  (match f_subst fmt with
   | Some f => if verbatim_class c || in_cdata_parent fmt pn then s else apply f s
   | None => s
   end) ++ snd (snd (class_row c)).
Proof. exact text_piece. Qed.
Print Assumptions C15_text_piece.

(* an attribute: bare name for None, else name="value" with the function applied to the value (list
   values joined by a space first), whatever tag carries it *)
Theorem C15_attr_piece : forall apply fmt k v,
  attr_text apply fmt (k, v) =
  match attr_value_text v with
  | None => k
  | Some t => k ++ 61 :: quoted_attribute_value (match f_subst fmt with Some f => apply f t | None => t end)
  end.
Proof. exact attr_piece. Qed.
Print Assumptions C15_attr_piece.

(* table obligation: comments, CDATA sections, processing instructions, declarations and doctypes are the
   verbatim classes, with their delimiters; script / style / template strings are ordinary strings (what
   protects them is their parent's name) *)
Theorem C15_string_classes :
  c15_string_classes =
  [ (0, (false, ([], [])));
    (1, (true, (lit "<![CDATA[", lit "]]>")));
    (2, (true, (lit "<?", lit ">")));
    (3, (true, (lit "<?", lit "?>")));
    (4, (true, (lit "<!--", lit "-->")));
    (5, (true, (lit "<?", lit "?>")));
    (6, (true, (lit "<!DOCTYPE ", [62; 10])));
    (7, (false, ([], []))); (8, (false, ([], []))); (9, (false, ([], [])));
    (10, (false, ([], []))); (11, (false, ([], []))) ].
Proof. exact string_classes_documented. Qed.
Print Assumptions C15_string_classes.

(* locality: two families of substitution functions that agree on the text nodes outside
   cdata-containing tags (verbatim classes excluded) and on the attribute values give the same output —
   nothing else in the tree reaches the output through the function *)
Theorem C15_subst_locality : forall fmt a1 a2 lvl incl root,
  (forall f s, f_subst fmt = Some f -> In s (root_sites (subst_sites fmt) incl root) -> a1 f s = a2 f s) ->
  decode a1 fmt lvl incl root = decode a2 fmt lvl incl root.
Proof. exact subst_locality. Qed.
Print Assumptions C15_subst_locality.

Theorem C15_no_substitution : forall a1 a2 fmt lvl incl root,
  f_subst fmt = None -> decode a1 fmt lvl incl root = decode a2 fmt lvl incl root.
Proof. exact no_substitution. Qed.
Print Assumptions C15_no_substitution.

(* the function is called exactly on the attribute values of visible tags and on the strings whose parent
   is not a cdata-containing tag (verbatim classes included: called, result ignored), in document order *)
Theorem C15_substitution_calls : forall fmt incl root,
  decode_calls fmt incl root =
  match f_subst fmt with
  | Some _ => root_sites (call_sites fmt) incl root
  | None => []
  end.
Proof. exact decode_calls_spec. Qed.
Print Assumptions C15_substitution_calls.

(* ---------------------------------------------------------------- determinism *)

(* attributes come out strictly sorted by name and are exactly the tag's attributes *)
Theorem C15_attributes_sorted : forall fmt ats,
  NoDup (map fst ats) ->
  StronglySorted key_lt (attributes fmt ats) /\
  Permutation (map (fun kv : attr => (fst kv, eab_conv fmt (snd kv))) ats) (attributes fmt ats).
Proof. exact attributes_sorted. Qed.
Print Assumptions C15_attributes_sorted.

Theorem C15_attributes_order_invariant : forall fmt ats ats',
  Permutation ats ats' -> NoDup (map fst ats) -> attributes fmt ats = attributes fmt ats'.
Proof. exact attributes_order_invariant. Qed.
Print Assumptions C15_attributes_order_invariant.

(* whole trees: the same tree with its attribute dictionaries filled in any other order renders the same *)
Theorem C15_decode_attr_order_invariant : forall apply fmt lvl incl t t',
  attr_perm t t' -> decode apply fmt lvl incl t = decode apply fmt lvl incl t'.
Proof. exact decode_attr_order_invariant. Qed.
Print Assumptions C15_decode_attr_order_invariant.

(* the entity regexes are "|".join(<a set>): any other order of the alternatives substitutes the same *)
Theorem C15_alternation_order_irrelevant : forall ps' repl s,
  (Permutation entity_particles_amp ps' -> sub_alt ps' repl s = sub_alt entity_particles_amp repl s) /\
  (Permutation entity_particles ps' -> sub_alt ps' repl s = sub_alt entity_particles repl s).
Proof. exact alternation_order_irrelevant. Qed.
Print Assumptions C15_alternation_order_irrelevant.

(* table obligations behind it: no string is matched by two alternatives at the same position *)
Theorem C15_particles_exclusive :
  pairwise_excl entity_particles_amp = true /\ pairwise_excl entity_particles = true.
Proof. exact particles_exclusive. Qed.
Print Assumptions C15_particles_exclusive.

(* no alternative matches the empty string, each has an entity name; the two regexes differ by "&" only *)
Theorem C15_particles_wellformed :
  forallb particle_ok entity_particles_amp = true /\ forallb particle_ok entity_particles = true.
Proof. exact particles_wellformed. Qed.
Print Assumptions C15_particles_wellformed.

Theorem C15_ampersand_only_difference :
  forallb (fun p => lit_mem p entity_particles_amp) entity_particles = true /\
  forallb (fun p => lit_mem p entity_particles || str_eqb (p_lit p) [38]) entity_particles_amp = true /\
  lit_mem (mkp [38] []) entity_particles_amp = true /\ lit_mem (mkp [38] []) entity_particles = false /\
  length entity_particles_amp = S (length entity_particles).
Proof. exact amp_is_the_only_difference. Qed.
Print Assumptions C15_ampersand_only_difference.

(* ---------------------------------------------------------------- the hypotheses are satisfiable; documented examples *)

Definition ex_link : node :=
  NElem 0 (lit "a") None [(lit "href", AStr (lit "http://example.com/?foo=val1&bar=val2"))] false false
        [lit "pre"; lit "textarea"] [NText 0 (lit "A link")].
Definition only_indent (i : pyindent) : ctor_args := mkargs None None None None None (Some i).
Definition ident_apply (f : subst) (s : str) : str := s.

(* doc/index.rst: HTMLFormatter(indent=8) on <a href=...>A link</a> — and the same through XMLFormatter
   and Formatter with other indent values *)
Theorem C15_example_indent :
  NoDup (node_ids ex_link) /\
  decode ident_apply (construct CHTMLFormatter (only_indent (IInt 8))) (Some 0%Z) true ex_link =
    lit "<a href=""http://example.com/?foo=val1&bar=val2"">" ++ [10] ++ lit "        A link" ++ [10] ++ lit "</a>" ++ [10] /\
  decode ident_apply (construct CXMLFormatter (only_indent (IStr [9]))) (Some 0%Z) true ex_link =
    lit "<a href=""http://example.com/?foo=val1&bar=val2"">" ++ [10; 9] ++ lit "A link" ++ [10] ++ lit "</a>" ++ [10] /\
  decode ident_apply (construct CFormatter (only_indent (IInt (-3)))) (Some 0%Z) true ex_link =
    lit "<a href=""http://example.com/?foo=val1&bar=val2"">" ++ [10] ++ lit "A link" ++ [10] ++ lit "</a>" ++ [10].
Proof. split; [repeat constructor; intros []|]. repeat split; vm_compute; reflexivity. Qed.
Print Assumptions C15_example_indent.

Definition ex_p (ats : list attr) : node :=
  NElem 0 (lit "p") None ats false false [] [NElem 1 (lit "br") None [] true false [] []].
Theorem C15_example_attr_order :
  attr_perm (ex_p [(lit "z", AStr (lit "1")); (lit "m", AStr (lit "2")); (lit "a", AStr (lit "3"))])
            (ex_p [(lit "a", AStr (lit "3")); (lit "z", AStr (lit "1")); (lit "m", AStr (lit "2"))]) /\
  decode ident_apply (construct CHTMLFormatter (mkargs None None None None None None)) None true
         (ex_p [(lit "z", AStr (lit "1")); (lit "m", AStr (lit "2")); (lit "a", AStr (lit "3"))]) =
    lit "<p a=""3"" m=""2"" z=""1""><br/></p>".
Proof.
  split; [|vm_compute; reflexivity].
  cbn. repeat split; try (now constructor).
  - eapply perm_trans; [apply perm_skip; apply perm_swap|]. apply perm_swap.
  - repeat constructor; cbn; intros H; repeat destruct H as [H|H]; try discriminate H; exact H.
Qed.
Print Assumptions C15_example_attr_order.
