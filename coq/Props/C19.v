(* C19 — Smart-quote conversion and detwingle preserve every character.
   Property theorems only. Tables (MS_CHARS, MS_CHARS_TO_ASCII, WINDOWS_1252_TO_UTF8,
   MULTIBYTE_MARKERS_AND_SIZES, ENCODINGS_WITH_SMART_QUOTES, the smart-quote byte range,
   HTML_ENTITY_TO_CHARACTER) are regenerated from /repo on every run; the finite sweep is
   evaluated inside Coq (the bound is in the statement), the detwingle theorems are unbounded. *)
From Coq Require Import List NArith Bool.
From BS Require Import Base.Sexp Base.Types Base.Reader Gen.Tables Gen.Stdlib Gen.Entities
     Model.SmartQuotes Spec.Utf8 Proofs.SmartQuotesProofs.
Import ListNotations.
Open Scope N_scope.

(* all 32 bytes x {None, ascii, xml, html} x the three carrier encodings: un-escaping what
   _sub_ms_char produced gives the byte's Windows-1252 character (plain substitute for the five
   undefined bytes; MS_CHARS_TO_ASCII entry for 'ascii'; the carrier's own character for None) *)
Theorem C19_smart_quotes_sweep : forall carrier mode b,
  In carrier encodings_with_smart_quotes -> In mode sq_modes -> 128 <= b <= 159 ->
  sweep_ok carrier mode b = true.
Proof. exact smart_quotes_sweep. Qed.
Print Assumptions C19_smart_quotes_sweep.

Theorem C19_carriers_and_range :
  encodings_with_smart_quotes =
  [[119; 105; 110; 100; 111; 119; 115; 45; 49; 50; 53; 50];
   [105; 115; 111; 45; 56; 56; 53; 57; 45; 49];
   [105; 115; 111; 45; 56; 56; 53; 57; 45; 50]] /\ smart_quotes_lo = 128 /\ smart_quotes_hi = 159.
Proof. exact carriers_are_the_documented_three. Qed.
Print Assumptions C19_carriers_and_range.

Theorem C19_no_mode_no_conversion : forall enc markup,
  convert_smart_quotes SqNone enc markup = markup.
Proof. exact no_mode_no_conversion. Qed.
Print Assumptions C19_no_mode_no_conversion.

Theorem C19_non_carrier_never_converted : forall mode enc markup,
  memS enc encodings_with_smart_quotes = false -> convert_smart_quotes mode enc markup = markup.
Proof. exact non_carrier_never_converted. Qed.
Print Assumptions C19_non_carrier_never_converted.

Theorem C19_other_bytes_untouched : forall mode enc markup,
  forallb (fun b => negb (in_sq_range b)) markup = true ->
  convert_smart_quotes mode enc markup = markup.
Proof. exact other_bytes_untouched. Qed.
Print Assumptions C19_other_bytes_untouched.

Theorem C19_conversion_is_bytewise : forall mode enc m1 m2,
  convert_smart_quotes mode enc (m1 ++ m2) =
  convert_smart_quotes mode enc m1 ++ convert_smart_quotes mode enc m2.
Proof. exact conversion_is_bytewise. Qed.
Print Assumptions C19_conversion_is_bytewise.

(* detwingle: every valid UTF-8 string, of any length, is returned unchanged *)
Theorem C19_detwingle_valid_utf8_unchanged : forall bs, valid_utf8 bs -> detwingle bs = bs.
Proof. exact detwingle_valid_utf8_id. Qed.
Print Assumptions C19_detwingle_valid_utf8_unchanged.

(* detwingle: any interleaving of scalar values (as UTF-8) and convertible Windows-1252 bytes
   becomes the UTF-8 text in which each embedded byte is its Windows-1252 character and
   every other character is untouched; the result is valid UTF-8 *)
Theorem C19_detwingle_embedded : forall segs,
  forallb seg_ok segs = true ->
  detwingle (flat_map seg_raw segs) = utf8_of (map seg_char segs) /\
  valid_utf8 (detwingle (flat_map seg_raw segs)).
Proof. exact detwingle_embedded. Qed.
Print Assumptions C19_detwingle_embedded.

(* table obligations: the marker table is the UTF-8 lead-byte table (and covers its range, so the
   scan terminates); every convertible entry is the UTF-8 of the byte's Windows-1252 character;
   every byte >= 0x80 Windows-1252 defines, outside the lead range, has an entry *)
Theorem C19_tables_ok :
  forallb (fun b => Nat.eqb (marker_size b multibyte_markers) (lead_len b)) bytes256 = true /\
  forallb (fun b => negb (in_lead_range b) ||
                    existsb (fun m => let '(lo, hi, _) := m in (lo <=? b) && (b <=? hi))
                            multibyte_markers) bytes256 = true /\
  forallb (fun b => negb (convertible b) ||
     match assocN b windows_1252_to_utf8, decode_byte cp1252_table b with
     | Some u, Some c => str_eqb u (utf8_enc c) && scalar c
     | _, _ => false
     end) bytes256 = true /\
  forallb (fun b => negb ((128 <=? b) && negb (in_lead_range b)) ||
     match decode_byte cp1252_table b with
     | Some _ => convertible b
     | None => true
     end) bytes256 = true.
Proof. exact (conj markers_match_tbl (conj markers_cover_tbl (conj w1252_entries_tbl w1252_complete_tbl))). Qed.
Print Assumptions C19_tables_ok.
