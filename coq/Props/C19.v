(* C19 — Smart-quote conversion and detwingle preserve every character.
   Property theorems only. Tables (MS_CHARS, MS_CHARS_TO_ASCII, WINDOWS_1252_TO_UTF8,
   MULTIBYTE_MARKERS_AND_SIZES, ENCODINGS_WITH_SMART_QUOTES, the smart-quote byte range,
   HTML_ENTITY_TO_CHARACTER) are regenerated from /repo on every run; the finite sweep is
   evaluated inside Coq (the bound is in the statement), the detwingle theorems are unbounded. *)
From Coq Require Import List NArith Bool.
From BS Require Import Base.Sexp Base.Types Base.Reader Gen.Tables Gen.Stdlib Gen.Entities
     Model.SmartQuotes Spec.Utf8 Proofs.SmartQuotesProofs.
Import ListNotations.
Open Scope N_scope.

(* all 32 bytes x {None, ascii, xml, html} x the three carrier encodings: un-escaping what
   _sub_ms_char produced gives the byte's Windows-1252 character (plain substitute for the five
   undefined bytes; MS_CHARS_TO_ASCII entry for 'ascii'; the carrier's own character for None) *)
Theorem C19_smart_quotes_sweep : forall carrier mode b,
  In carrier encodings_with_smart_quotes -> In mode sq_modes -> 128 <= b <= 159 ->
  sweep_ok carrier mode b = true.
Proof. exact smart_quotes_sweep. Qed.
Print Assumptions C19_smart_quotes_sweep.

Theorem C19_carriers_and_range :
  encodings_with_smart_quotes =
  [[119; 105; 110; 100; 111; 119; 115; 45; 49; 50; 53; 50];
   [105; 115; 111; 45; 56; 56; 53; 57; 45; 49];
   [105; 115; 111; 45; 56; 56; 53; 57; 45; 50]] /\ smart_quotes_lo = 128 /\ smart_quotes_hi = 159.
Proof. exact carriers_are_the_documented_three. Qed.
Print Assumptions C19_carriers_and_range.

Theorem C19_no_mode_no_conversion : forall enc markup,
  convert_smart_quotes SqNone enc markup = markup.
Proof. exact no_mode_no_conversion. Qed.
Print Assumptions C19_no_mode_no_conversion.

Theorem C19_non_carrier_never_converted : forall mode enc markup,
  memS enc encodings_with_smart_quotes = false -> convert_smart_quotes mode enc markup = markup.
Proof. exact non_carrier_never_converted. Qed.
Print Assumptions C19_non_carrier_never_converted.

Theorem C19_other_bytes_untouched : forall mode enc markup,
  forallb (fun b => negb (in_sq_range b)) markup = true ->
  convert_smart_quotes mode enc markup = markup.
Proof. exact other_bytes_untouched. Qed.
Print Assumptions C19_other_bytes_untouched.

Theorem C19_conversion_is_bytewise : forall mode enc m1 m2,
  convert_smart_quotes mode enc (m1 ++ m2) =
  convert_smart_quotes mode enc m1 ++ convert_smart_quotes mode enc m2.
Proof. exact conversion_is_bytewise. Qed.
Print Assumptions C19_conversion_is_bytewise.

(* detwingle: every valid UTF-8 string, of any length, is returned unchanged *)
Theorem C19_detwingle_valid_utf8_unchanged : forall bs, valid_utf8 bs -> detwingle bs = bs.
Proof. exact detwingle_valid_utf8_id. Qed.
Print Assumptions C19_detwingle_valid_utf8_unchanged.

(* detwingle: any interleaving of scalar values (as UTF-8) and convertible Windows-1252 bytes
   becomes the UTF-8 text in which each embedded byte is its Windows-1252 character and
   every other character is untouched; the result is valid UTF-8 *)
Theorem C19_detwingle_embedded : forall segs,
  forallb seg_ok segs = true ->
  detwingle (flat_map seg_raw segs) = utf8_of (map seg_char segs) /\
  valid_utf8 (detwingle (flat_map seg_raw segs)).
Proof. exact detwingle_embedded. Qed.
Print Assumptions C19_detwingle_embedded.

(* table obligations: the marker table is the UTF-8 lead-byte table (and covers its range, so the
   scan terminates); every convertible entry is the UTF-8 of the byte's Windows-1252 character;
   every byte >= 0x80 Windows-1252 defines, outside the lead range, has an entry *)
Theorem C19_tables_ok :
  forallb (fun b => Nat.eqb (marker_size b multibyte_markers) (lead_len b)) bytes256 = true /\
  forallb (fun b => negb (in_lead_range b) ||
                    existsb (fun m => let '(lo, hi, _) := m in (lo <=? b) && (b <=? hi))
                            multibyte_markers) bytes256 = true /\
  forallb (fun b => negb (convertible b) ||
     match assocN b windows_1252_to_utf8, decode_byte cp1252_table b with
     | Some u, Some c => str_eqb u (utf8_enc c) && scalar c
     | _, _ => false
     end) bytes256 = true /\
  forallb (fun b => negb ((128 <=? b) && negb (in_lead_range b)) ||
     match decode_byte cp1252_table b with
     | Some _ => convertible b
     | None => true
     end) bytes256 = true.
Proof. exact (conj markers_match_tbl (conj markers_cover_tbl (conj w1252_entries_tbl w1252_complete_tbl))). Qed.
Print Assumptions C19_tables_ok.

(* ======================================================================================================
   The library's Windows-1252 tables against the windows-1252 codec itself (Model/Codecs.v; decode table
   generated from the running interpreter into Gen/T_Codecs.v).
   ====================================================================================================== *)
From BS Require Import Gen.T_Codecs Model.Codecs Proofs.CodecsProofs.

(* the oracle tables used by the sweep and by the readers are the codec's tables *)
Theorem C19_carrier_tables_are_the_codecs : cp1252_table = cd_cp1252_table /\ latin1_table = cd_latin1_table.
Proof. exact stdlib_tables_are_the_codecs. Qed.
Print Assumptions C19_carrier_tables_are_the_codecs.

(* MS_CHARS has exactly the keys 0x80..0x9F *)
Theorem C19_ms_chars_keys : map fst ms_chars = map N.of_nat (seq 128 32).
Proof. exact ms_chars_keys. Qed.
Print Assumptions C19_ms_chars_keys.

(* ... and for every one of them: a (name, hex) pair exactly where windows-1252 defines the byte, the hex digits
   being that character's code point and &name; reading back as that character; a plain ASCII substitute exactly
   for the five undefined bytes. No discrepancy (after the repair of 0x9F). *)
Theorem C19_ms_chars_match_cp1252 : forall b, 128 <= b <= 159 ->
  match assocN b ms_chars, sb_dec_byte cd_cp1252_table b with
  | Some (MsPair name hex), Some c =>
      (num_of 16 hex =? c) && forallb is_hexd hex && negb (is_nil hex) &&
      str_eqb (read_text (38 :: name ++ [59])) [c]
  | Some (MsPlain s), None => forallb (fun x => x <? 128) s
  | _, _ => false
  end = true.
Proof. exact ms_chars_match_cp1252. Qed.
Print Assumptions C19_ms_chars_match_cp1252.

(* WINDOWS_1252_TO_UTF8 has one entry for each byte >= 0x80 that windows-1252 defines (123 of them) ... *)
Theorem C19_w1252_keys :
  map fst windows_1252_to_utf8 =
  filter (fun b => match sb_dec_byte cd_cp1252_table b with Some _ => true | None => false end)
         (map N.of_nat (seq 128 128)).
Proof. exact w1252_keys. Qed.
Print Assumptions C19_w1252_keys.

(* ... each the UTF-8 encoding of the byte's character, with ONE exception found by computation: 0xE1 -> A1
   (should be C3 A1). detwingle never consults it (E1 is a UTF-8 lead byte; "convertible" above excludes it). *)
Theorem C19_w1252_matches_cp1252_except_e1 :
  w1252_exceptions = [225] /\
  forall b u, assocN b windows_1252_to_utf8 = Some u -> b <> 225 ->
              exists c, sb_dec_byte cd_cp1252_table b = Some c /\ u = utf8_enc c.
Proof. exact (conj w1252_exceptions_are w1252_matches_cp1252). Qed.
Print Assumptions C19_w1252_matches_cp1252_except_e1.

(* with smart_quotes_to = None the text of a carrier-encoded document is the codec's decoding (iso-8859-1: of every
   byte string) *)
Theorem C19_latin1_carrier_total : forall bs, is_bytes bs = true ->
  codec_decode Latin1 Dammit.Strict (convert_smart_quotes SqNone [105; 115; 111; 45; 56; 56; 53; 57; 45; 49] bs) = Some bs.
Proof. intros bs H. rewrite no_mode_no_conversion. exact (proj1 (latin1_total bs H)). Qed.
Print Assumptions C19_latin1_carrier_total.
