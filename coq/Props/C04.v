(* C04 — html.parser documents become the tree the markup describes.  Property theorems only.

   Reading.  The standard library's tokenizer is not part of the repository: its callback stream
   is an input (Model.Adapter.hev).  A document is Spec.DocSpec.dnode: what a writer lays out,
   every void element with the spelling chosen for it.  [hevents_of doc] are the callbacks of an
   ideal tokenizer, [expect cfg doc] the tree the markup describes, [flat] its layout in the flat
   form of the documented construction rules (Spec.BuildSpec.spec_run, property C03).
   Tables (Gen/*.v) are regenerated from the repository / the interpreter on every run. *)
From Coq Require Import List NArith Arith Bool String.
From BS Require Import Base.Sexp Base.Types Base.Lit Base.Reader Gen.Tables Gen.Entities Gen.Stdlib Gen.T_C04
                       Model.Attrs Model.Heap Model.Edit Model.Build Model.Adapter Spec.Tree Spec.BuildSpec Spec.DocSpec
                       Proofs.EditRep Proofs.AdapterProofs Proofs.AdapterCompose
                       Model.Tokenizer Model.TokParse Spec.DocWrite Proofs.TokenizerBridge Proofs.TokenizerSpell Proofs.TokenizerWider.
Import ListNotations.
Open Scope N_scope.

(* ---- void elements in any spelling; elements nest as their tags do ---- *)

(* For every configuration and every well-formed document: whatever mixture of <br>, <br/>,
   <br></br> the writer chose, the adapter makes exactly the canonical calls (one start/end pair
   per element) and every callback returns. *)
Theorem C04_void_any_spelling : forall cfg doc, wf_doc cfg doc = true ->
  exists ac', adapter_run cfg [] (hevents_of doc) = (canon cfg doc, ac', true).
Proof. exact void_any_spelling. Qed.
Print Assumptions C04_void_any_spelling.

Theorem C04_spelling_irrelevant : forall cfg sp doc, wf_doc cfg doc = true ->
  fst (fst (adapter_run cfg [] (hevents_of (respell sp doc)))) = fst (fst (adapter_run cfg [] (hevents_of doc))).
Proof. exact spelling_irrelevant. Qed.
Print Assumptions C04_spelling_irrelevant.

(* ... and the documented construction rules turn those calls into the tree the markup describes:
   elements nest as their tags do, void and self-closed elements are childless siblings of what
   follows, a run of text and references is one string of the characters denoted, comments /
   CDATA / doctype / declarations / processing instructions are strings of their class, in order. *)
Theorem C04_document_tree : forall cfg doc, wf_doc cfg doc = true ->
  spec_run (a_b cfg) (events_of (fst (fst (adapter_run cfg [] (hevents_of doc))))) = flat (a_b cfg) (expect cfg doc).
Proof. exact document_tree. Qed.
Print Assumptions C04_document_tree.

(* the hypothesis is satisfiable: a document with every kind of node and all three spellings *)
Example C04_example_wf : wf_doc html_cfg example_doc = true.
Proof. exact example_doc_wf. Qed.

(* ---- arbitrary (malformed) input ---- *)

(* For EVERY callback stream whose start tags are not named like the root object: in the tree the
   documented rules build from the adapter's calls, an element that may be empty never has a child. *)
Theorem C04_void_childless_any_stream : forall cfg hs, start_names_ok (a_b cfg) hs ->
  let nodes := spec_run (a_b cfg) (events_of (fst (fst (adapter_run cfg [] hs)))) in
  forall i nd, nth_error nodes i = Some nd -> p_void (sn_pay nd) = true -> children_of nodes i = [].
Proof. exact void_childless_any_stream. Qed.
Print Assumptions C04_void_childless_any_stream.

Example C04_start_names_example : start_names_ok (a_b html_cfg) (hevents_of example_doc).
Proof. exact start_names_example. Qed.

(* the tokenizer may hand a run of text over in arbitrary chunks: for every stream, splitting or
   merging adjacent data callbacks never changes the tree *)
Theorem C04_text_chunking_irrelevant : forall cfg pre a c post,
  spec_run (a_b cfg) (events_of (fst (fst (adapter_run cfg [] (pre ++ HData a :: HData c :: post))))) =
  spec_run (a_b cfg) (events_of (fst (fst (adapter_run cfg [] (pre ++ HData (a ++ c) :: post))))).
Proof. exact text_chunking_irrelevant. Qed.
Print Assumptions C04_text_chunking_irrelevant.

(* The adapter as it was before the fix (handle_startendtag let handle_endtag consume an earlier
   tag's already_closed_empty_element entry) violates both statements: <br><br/>x. *)
Theorem C04_unfixed_adapter_refuted :
  wf_doc html_cfg witness_doc = true /\
  fst (fst (adapter_run_gen true html_cfg [] (hevents_of witness_doc))) <> canon html_cfg witness_doc /\
  exists i nd, nth_error (spec_run (a_b html_cfg) (events_of (fst (fst (adapter_run_gen true html_cfg [] (hevents_of witness_doc)))))) i = Some nd
               /\ p_void (sn_pay nd) = true
               /\ children_of (spec_run (a_b html_cfg) (events_of (fst (fst (adapter_run_gen true html_cfg [] (hevents_of witness_doc)))))) i <> [].
Proof. exact unfixed_adapter_refuted. Qed.
Print Assumptions C04_unfixed_adapter_refuted.

(* a redundant end tag after an automatically closed void element does nothing *)
Theorem C04_redundant_end_ignored : forall cfg ac n a p, can_be_empty (a_b cfg) n = true ->
  exists ac1, adapter_step cfg ac (HStart n a p) =
              Some ([(EStart n None (mk_attrs cfg a), tag_pos cfg p); (EEnd n None, None)], ac1) /\
              exists ac2, adapter_step cfg ac1 (HEnd n) = Some ([], ac2).
Proof. exact redundant_end_ignored. Qed.
Print Assumptions C04_redundant_end_ignored.

(* ---- the heap the model of the code builds (Model.Build.feed over the adapter's calls = Model.Adapter.parse),
   not only the documented fold: composition with C03 (build_refines) and C01 (parse_rep, parse_consistent) ----
   [heap_is b nodes]: as many elements as nodes, each with that parent, that payload (name / text, attributes,
   string class, void flag) and as children exactly the nodes naming it as parent, in document order; nothing but
   the root object left open. *)

(* For arbitrary, malformed input — ANY recorded callback stream, any configuration — the tree equals the
   documented fold (C03) of the event stream the adapter makes of it. *)
Theorem C04_malformed_is_fold : forall cfg hs,
  heap_is (parse cfg hs) (spec_run (a_b cfg) (adapted cfg hs)).
Proof. exact malformed_is_fold. Qed.
Print Assumptions C04_malformed_is_fold.

(* For every well-formed document the heap carries exactly the tree the markup describes. *)
Theorem C04_document_heap : forall cfg doc, wf_doc cfg doc = true ->
  heap_is (parse cfg (hevents_of doc)) (flat (a_b cfg) (expect cfg doc)).
Proof. exact document_heap. Qed.
Print Assumptions C04_document_heap.

(* For every callback stream (start tags not named like the root object) an element that may be empty has an
   empty child list in the heap. *)
Theorem C04_heap_void_childless : forall cfg hs, start_names_ok (a_b cfg) hs ->
  forall x : nat, (x < nxt (b_st (parse cfg hs)))%nat -> p_void (b_pay (parse cfg hs) x) = true ->
  kids (hp (b_st (parse cfg hs)) x) = [].
Proof. exact document_heap_void_childless. Qed.
Print Assumptions C04_heap_void_childless.

(* For EVERY callback stream, malformed ones included, that heap is one well-linked tree in the sense of C01:
   it represents (all six links of every element) a tree rooted at the document object whose pre-order is the
   creation order, and it is a consistent state, which every history of admissible editing calls preserves. *)
Theorem C04_document_well_linked : forall cfg hs,
  (exists T, rid T = 0%nat /\ pre T = seq 0 (nxt (b_st (parse cfg hs))) /\ rep [(T, false)] (hp (b_st (parse cfg hs)))) /\
  consistent (b_st (parse cfg hs)).
Proof. exact document_well_linked. Qed.
Print Assumptions C04_document_well_linked.

(* ---- from the TEXT, not from a recorded callback stream (sub-grammar) ----
   Model.Tokenizer is the model of the installed html/parser.py + _markupbase.py (tied by correspondence and by the
   pattern / source fingerprints proved in Props/C18.v); [callbacks unesc text] is the callback stream it fires,
   [parse_string] = tokenizer, adapter, tree construction.  [write doc] writes a document of Spec.DocSpec token by token
   (Spec/DocWrite.v); [simple_doc] is the sub-grammar covered: elements, void elements in all three spellings and
   self-closed elements with names [a-z][a-z0-9-.:_]*, script / style elements with raw text free of '<' (the tokenizer's
   CDATA_CONTENT_ELEMENTS mode), any number of attributes with names [a-z_:][a-z0-9-.:_]* separated by single blanks,
   written as a bare name or name=Q value Q where Q is the double quote, or the single quote when the value contains a
   double quote (value without '&' and not containing both quotes; repeated names allowed), non-empty text without '<' and
   '&' (no two pieces of text adjacent), references written with ';', comments without '--', processing instructions
   and DOCTYPE / doctype declarations without '>', CDATA[ / cdata[ sections without ']'.
   [unesc] stands for html.unescape; the only thing assumed of it: it returns a string without '&' unchanged.
   PARTIAL: attribute values containing references or quoted otherwise, upper-case names, raw text containing '<', other
   marked sections, comments containing '--', unquoted values, blanks inside tags and malformed text are not covered by these two theorems (they are covered
   by correspondence). *)

(* the tokenizer fires exactly the ideal callbacks for the written text, rejects nothing, leaves nothing unconsumed *)
Theorem C04_tokenizer_written_partial : forall unesc, (forall v, memN 38 v = false -> unesc v = v) ->
  forall doc, simple_doc doc = true ->
  exists its g, tokenize unesc (write doc) = (its, g) /\ flat_map it_evs its = tevs_of doc /\
                gs_status g = Running /\ gs_rest g = [] /\ gs_cd g = None.
Proof. exact tokenize_written. Qed.
Print Assumptions C04_tokenizer_written_partial.

(* ... so the text of every such document becomes the tree the markup describes: in the documented fold, and in the heap *)
Theorem C04_string_tree_partial : forall unesc, (forall v, memN 38 v = false -> unesc v = v) ->
  forall cfg doc, simple_doc doc = true -> wf_doc cfg doc = true ->
  rejected unesc (write doc) = false /\
  spec_run (a_b cfg) (adapted cfg (callbacks unesc (write doc))) = flat (a_b cfg) (expect cfg doc) /\
  heap_is (parse_string cfg unesc (write doc)) (flat (a_b cfg) (expect cfg doc)).
Proof. exact string_tree. Qed.
Print Assumptions C04_string_tree_partial.

(* The same, token by token and with NOTHING assumed of html.unescape (the form a round-trip argument — C05 — can use for
   rendered output): a text that is a concatenation of self-delimiting tokens ([tok_ok]: the loop body of goahead consumes
   exactly the token and fires exactly its callbacks, whatever follows) with no two pieces of text adjacent is tokenized
   token by token; start and self-closing tags with double-quoted attribute values (any value without the double quote,
   references included) are such tokens, the callback carrying html.unescape of each value; so are end tags, references
   written with ';', comments without '-', processing instructions, DOCTYPE declarations and CDATA sections as above. *)
Theorem C04_tokenizer_token_lists : forall unesc toks, Forall (tok_ok unesc) toks -> no_adj_text toks = true ->
  exists its g, tokenize unesc (srcs toks) = (its, g) /\ flat_map it_evs its = flat_map tok_evs toks /\
                gs_status g = Running /\ gs_rest g = [] /\ gs_cd g = None.
Proof. exact tokenize_toks. Qed.
Print Assumptions C04_tokenizer_token_lists.
Theorem C04_start_tag_token : forall unesc n a, name_ok n -> quoted_attrs a = true ->
  tok_ok unesc (WCons (w_start n a) [TStart n (unesc_attrs unesc a)]) /\
  tok_ok unesc (WCons (w_self n a) [TStartEnd n (unesc_attrs unesc a)]) /\
  tok_ok unesc (WCons (w_end n) [TEnd n]).
Proof.
  intros unesc n a Hn Ha. split; [exact (tok_ok_start_gen unesc n a Hn Ha)|].
  split; [exact (tok_ok_self_gen unesc n a Hn Ha)|exact (tok_ok_end unesc n Hn)].
Qed.
Print Assumptions C04_start_tag_token.

(* ... and the tags of the RENDERING (Model.Reparse.spell, what decode() writes: C05) are spelled exactly like that, so a
   rendered start tag, empty-element tag (slash "/") and end tag with a lower-case name other than script / style and
   attribute values that came out double-quoted are tokens of this kind *)
Theorem C04_rendered_tags_are_tokens : forall unesc n a, name_ok n -> quoted_attrs a = true ->
  tok_ok unesc (WCons (Reparse.spell (Reparse.TOpen n a)) [TStart n (unesc_attrs unesc a)]) /\
  tok_ok unesc (WCons (Reparse.spell (Reparse.TEmptyTag n a [47])) [TStartEnd n (unesc_attrs unesc a)]) /\
  tok_ok unesc (WCons (Reparse.spell (Reparse.TClose n)) [TEnd n]).
Proof. exact rendered_tag_tokens. Qed.
Print Assumptions C04_rendered_tags_are_tokens.

(* The WIDER sub-grammar [wider_doc]: as [simple_doc], but attribute values may contain references (anything that does not
   contain both kinds of quote), also on script / style elements.  What stands between the quotes is the value
   as WRITTEN; the text stands for [udoc unesc doc], the document whose attribute values are html.unescape of the written
   ones.  Nothing at all is assumed of html.unescape. *)
Theorem C04_tokenizer_written_wider_partial : forall unesc doc, wider_doc doc = true ->
  exists its g, tokenize unesc (write doc) = (its, g) /\ flat_map it_evs its = tevs_of (udoc unesc doc) /\
                gs_status g = Running /\ gs_rest g = [] /\ gs_cd g = None.
Proof. exact tokenize_wider. Qed.
Print Assumptions C04_tokenizer_written_wider_partial.
Theorem C04_string_tree_wider_partial : forall unesc cfg doc, wider_doc doc = true -> wf_doc cfg (udoc unesc doc) = true ->
  rejected unesc (write doc) = false /\
  spec_run (a_b cfg) (adapted cfg (callbacks unesc (write doc))) = flat (a_b cfg) (expect cfg (udoc unesc doc)) /\
  heap_is (parse_string cfg unesc (write doc)) (flat (a_b cfg) (expect cfg (udoc unesc doc))).
Proof. exact wider_string_tree. Qed.
Print Assumptions C04_string_tree_wider_partial.

Example C04_simple_example : simple_doc simple_example = true /\ wf_doc html_cfg simple_example = true.
Proof. exact simple_example_ok. Qed.

(* ---- special strings keep exactly their content ----
   Wherever a comment, CDATA section, doctype, declaration or processing instruction stands in a document
   (any configuration, any context, any text gathered before it, empty or whitespace-only content
   included) it becomes one string of its class with exactly the content written.  [expect] is the tree
   C04_document_tree proves the parser builds. *)
Theorem C04_special_content_kept : forall cfg c pend d k s, special_of d = Some (k, s) ->
  expect_node cfg c pend d = (xflush (a_b cfg) c pend None ++ [XStr k s], []).
Proof. exact special_content_kept. Qed.
Print Assumptions C04_special_content_kept.

Theorem C04_special_alone_kept : forall cfg d k s, special_of d = Some (k, s) -> expect cfg [d] = [XStr k s].
Proof. exact special_alone_kept. Qed.
Print Assumptions C04_special_alone_kept.

(* the hypothesis names exactly the five kinds, with the classes of bs4.element *)
Example C04_special_kinds : forall kw s,
  special_of (DComment s) = Some (cls_comment, s) /\ special_of (DCdata kw s) = Some (cls_cdata, s) /\
  special_of (DDoctype kw s) = Some (cls_doctype, s) /\ special_of (DDecl s) = Some (cls_declaration, s) /\
  special_of (DPi s) = Some (cls_pi, s).
Proof. intros. repeat split. Qed.

(* ---- references become the characters they denote ---- *)

(* table obligation: bs4's HTML_ENTITY_TO_CHARACTER is the interpreter's html5 table *)
Theorem C04_entity_table : html_entity_to_character = html5_reference.
Proof. exact entity_table_eq. Qed.
Print Assumptions C04_entity_table.

Theorem C04_entityref_sem : forall name,
  entity_data name = match assocS name html5_reference with Some chars => chars | None => c_amp :: name end.
Proof. exact entityref_sem. Qed.
Print Assumptions C04_entityref_sem.

(* decimal and hexadecimal spellings, any number of digits *)
Theorem C04_charref_decimal : forall ds, nonempty_all is_digit ds = true -> charref_value ds = Some (num_of 10 ds).
Proof. exact charref_value_decimal. Qed.
Print Assumptions C04_charref_decimal.
Theorem C04_charref_hex : forall x hs, x = 120 \/ x = 88 -> nonempty_all is_hexd hs = true ->
  charref_value (x :: hs) = Some (num_of 16 hs).
Proof. exact charref_value_hex. Qed.
Print Assumptions C04_charref_hex.
Theorem C04_positional : forall base ds d, num_of base (ds ++ [d]) = num_of base ds * base + digit_val d.
Proof. exact num_of_snoc. Qed.
Print Assumptions C04_positional.

(* the code point itself everywhere outside 0x80-0x9F (uses the cp1252 oracle table: it agrees with
   Unicode there), U+FFFD beyond U+10FFFF, the windows-1252 reading inside 0x80-0x9F *)
Theorem C04_charref_latin : forall orig v, v < 128 \/ (160 <= v /\ v < 256) -> charref_data orig v = [v].
Proof. exact charref_latin. Qed.
Print Assumptions C04_charref_latin.
Theorem C04_charref_unicode : forall orig v, 256 <= v -> v < 1114112 -> charref_data orig v = [v].
Proof. exact charref_unicode. Qed.
Print Assumptions C04_charref_unicode.
Theorem C04_charref_out_of_range : forall orig v, 1114112 <= v -> charref_data orig v = [65533].
Proof. exact charref_out_of_range. Qed.
Print Assumptions C04_charref_out_of_range.
Theorem C04_charref_c1 : forall orig v, 128 <= v -> v < 160 ->
  charref_data orig v =
  match nth (N.to_nat v) cp1252_table None with
  | Some c => [c]
  | None => match orig with
            | Some f => match f v with Some (x :: r) => x :: r | _ => [v] end
            | None => [v]
            end
  end.
Proof. exact charref_c1. Qed.
Print Assumptions C04_charref_c1.

(* ---- attributes keep names, values and order (no repeated name; repeats: C17) ---- *)
Theorem C04_attrs_kept : forall cfg attrs, NoDup (map fst attrs) -> mk_attrs cfg attrs = map attr_plain attrs.
Proof. exact attrs_kept. Qed.
Print Assumptions C04_attrs_kept.

(* ---- tables ---- *)

(* the void-element set contains the HTML void elements *)
Theorem C04_void_table :
  forallb (fun n => memS (lit n) default_empty_element_tags)
          ["area"; "base"; "br"; "col"; "embed"; "hr"; "img"; "input"; "link"; "meta"; "source"; "track"; "wbr";
           "param"; "keygen"; "frame"; "basefont"; "isindex"]%string = true.
Proof. vm_compute. reflexivity. Qed.
Print Assumptions C04_void_table.

(* ... and nothing that can have content *)
Theorem C04_void_table_excludes :
  forallb (fun n => negb (memS (lit n) default_empty_element_tags))
          ["p"; "div"; "span"; "a"; "b"; "i"; "td"; "tr"; "table"; "li"; "ul"; "script"; "style"; "title";
           "textarea"; "pre"; "html"; "head"; "body"; "option"; "select"; "form"; "h1"; "iframe"; "object";
           "template"; "rt"; "rp"; "button"; "label"; "video"; "audio"; "canvas"; "svg"]%string = true.
Proof. vm_compute. reflexivity. Qed.
Print Assumptions C04_void_table_excludes.

(* the documented values of on_duplicate_attribute *)
Theorem C04_dup_constants : dup_replace_const = lit "replace" /\ dup_ignore_const = lit "ignore".
Proof. split; reflexivity. Qed.
Print Assumptions C04_dup_constants.
