(* C09 — Entity substitution and attribute quoting are reversible for every string.
   "For every string, the 'minimal' and 'html' substitutions produce text containing no raw '<' or '>' and no
    ampersand that a parser would read differently, and reading the result back (as element text or as a quoted
    attribute value) yields exactly the original string. Quoting an attribute value always produces a well-formed
    quoted value whatever mixture of single and double quotes it contains. The 'html5' substitution likewise never
    changes the string a parser reads back."

   Property theorems only. All strings are arbitrary lists of code points (no length bound, no alphabet).
   Model: Model/EntitySubst.v (substitute_xml / substitute_html / substitute_html5 / quoted_attribute_value /
   Formatter.substitute / attribute_value; html.unescape and the quoted-value reader), Base/Reader.v with bs4's
   tables (element text). Relation [enc o s] (Spec/EntitiesSpec.v): o is s written with known "&name;" references
   and characters other than '&'. Tables come from the code on every run (Gen/T_C09.v, Gen/Entities.v). *)
From Coq Require Import List NArith Bool Permutation.
From BS Require Import Base.Sexp Base.Types Base.Reader Gen.Entities Gen.T_C09
     Model.SmartQuotes Model.EntitySubst Model.EntitySubstFast Spec.EntitiesSpec Proofs.EntitiesTables Proofs.EntitiesProofs
     Proofs.EntitiesAttrProofs Proofs.EntitiesIff Model.TextReaderReal Proofs.TextReaderRealProofs
     Model.UnescapeLimit Proofs.UnescapeLimitProofs.
Import ListNotations.
Open Scope N_scope.

(* ---------------------------------------------------------------------------------------------- *)
(* 'minimal' (substitute_xml) and 'html' (substitute_html): full statements, every string          *)
(* ---------------------------------------------------------------------------------------------- *)

(* never a KeyError; the output is the input written with known references; no raw angle bracket *)
Theorem C09_minimal_escaped : forall s,
  exists o, substitute_xml s false = Some o /\ enc o s /\ no_angle o.
Proof. exact minimal_escaped. Qed.
Print Assumptions C09_minimal_escaped.

Theorem C09_html_escaped : forall s, enc (substitute_html s) s /\ no_angle (substitute_html s).
Proof. exact html_escaped. Qed.
Print Assumptions C09_html_escaped.

(* read back as element text *)
Theorem C09_minimal_text_roundtrip : forall s,
  exists o, substitute_xml s false = Some o /\ read_text o = s.
Proof. exact minimal_text_roundtrip. Qed.
Print Assumptions C09_minimal_text_roundtrip.

Theorem C09_html_text_roundtrip : forall s, read_text (substitute_html s) = s.
Proof. exact html_text_roundtrip. Qed.
Print Assumptions C09_html_text_roundtrip.

(* read back as a quoted attribute value: substitute, quote, delimit by the quote, html.unescape *)
Theorem C09_minimal_attr_roundtrip : forall v,
  exists q, substitute_xml v true = Some q /\ wf_quoted q /\ no_angle q /\ read_quoted q = Some v.
Proof. exact minimal_attr_roundtrip. Qed.
Print Assumptions C09_minimal_attr_roundtrip.

Theorem C09_html_attr_roundtrip : forall v,
  let q := quoted_attribute_value (substitute_html v) in
  wf_quoted q /\ no_angle q /\ read_quoted q = Some v.
Proof. exact html_attr_roundtrip. Qed.
Print Assumptions C09_html_attr_roundtrip.

(* no ampersand a parser would read differently: wherever '&' stands in escaped text, a complete reference
   "&name;" follows whose name both readers resolve (to the characters it stands for) *)
Theorem C09_amp_unambiguous : forall o s, enc o s ->
  forall pre post, o = pre ++ c_amp :: post ->
  exists name seq rest, post = name ++ c_semi :: rest /\ known_ref name seq.
Proof. exact enc_amp_unambiguous. Qed.
Print Assumptions C09_amp_unambiguous.

(* the general reason: any text written that way reads back, in both positions *)
Theorem C09_escaped_reads_back : forall o s, enc o s ->
  read_text o = s /\ unescape o = s /\ read_quoted (quoted_attribute_value o) = Some s.
Proof. exact escaped_reads_back. Qed.
Print Assumptions C09_escaped_reads_back.

(* ---------------------------------------------------------------------------------------------- *)
(* quoting                                                                                         *)
(* ---------------------------------------------------------------------------------------------- *)

(* whatever mixture of quotes (and anything else) the value contains *)
Theorem C09_quote_wellformed : forall v, wf_quoted (quoted_attribute_value v).
Proof. exact quote_wellformed. Qed.
Print Assumptions C09_quote_wellformed.

(* quoting alone is reversible for every value that contains no ampersand *)
Theorem C09_quote_roundtrip_no_amp : forall v,
  ~ In c_amp v -> read_quoted (quoted_attribute_value v) = Some v.
Proof. exact quote_roundtrip_no_amp. Qed.
Print Assumptions C09_quote_roundtrip_no_amp.

(* for every text at all (ampersands, references, both kinds of quotes): quoting it and reading the quoted value
   back is exactly html.unescape of the text - the quoting itself never changes what is read *)
Theorem C09_quote_transparent : forall o, read_quoted (quoted_attribute_value o) = Some (unescape o).
Proof. exact read_quoted_is_unescape. Qed.
Print Assumptions C09_quote_transparent.

(* ---------------------------------------------------------------------------------------------- *)
(* Formatter.substitute / attribute_value and the registered names                                 *)
(* ---------------------------------------------------------------------------------------------- *)

Theorem C09_formatter_text : forall f s, f = EsXml \/ f = EsHtml ->
  exists o, formatter_substitute f false s = Some o /\ enc o s /\ no_angle o.
Proof. exact formatter_text_enc. Qed.
Print Assumptions C09_formatter_text.

Theorem C09_formatter_attribute : forall f v, f = EsXml \/ f = EsHtml ->
  exists q, render_attribute_value f v = Some q /\ wf_quoted q /\ read_quoted q = Some v.
Proof. exact formatter_attr_roundtrip. Qed.
Print Assumptions C09_formatter_attribute.

(* table obligation: 'minimal', 'html', 'html5', None are registered with the documented functions, for HTML and XML *)
Theorem C09_tbl_formatter_registry :
  registry_esub false (Some f_minimal) = Some EsXml /\
  registry_esub false (Some f_html) = Some EsHtml /\
  registry_esub false (Some f_html5) = Some EsHtml5 /\
  registry_esub false None = Some EsNone /\
  registry_esub true (Some f_minimal) = Some EsXml /\
  registry_esub true (Some f_html) = Some EsHtml /\
  registry_esub true None = Some EsNone.
Proof. exact formatter_registry_tbl. Qed.
Print Assumptions C09_tbl_formatter_registry.

(* ---------------------------------------------------------------------------------------------- *)
(* 'html5' (substitute_html5)                                                                      *)
(* ---------------------------------------------------------------------------------------------- *)

(* naming characters (second pass) never changes what the parser reads, for any text at all *)
Theorem C09_html5_naming_transparent : forall t,
  read_text (sub_particles html_particles O t) = read_text t.
Proof. exact html5_pass_transparent. Qed.
Print Assumptions C09_html5_naming_transparent.

(* for every string: what is read back is what the parser reads from the string with only its "&...;" forms
   protected; no raw angle bracket *)
Theorem C09_html5_reads_as : forall s,
  read_text (substitute_html5 s) = read_text (escape_any_entity s) /\ no_angle (substitute_html5 s).
Proof. exact html5_reads_as. Qed.
Print Assumptions C09_html5_reads_as.

(* PARTIAL (the code violates the full statement, see the next theorem and known finding C09-html5-bare-ref):
   every string in which each ampersand is either the start of a "&...;" form (escaped) or is not the start of
   anything the parser completes as a reference reads back unchanged. Missing: strings with a bare reference. *)
Theorem C09_html5_text_roundtrip_partial : forall s,
  no_bare_ref s = true -> read_text (substitute_html5 s) = s.
Proof. exact html5_text_roundtrip. Qed.
Print Assumptions C09_html5_text_roundtrip_partial.

(* the full statement "forall s, read_text (substitute_html5 s) = s" is false of the faithful model:
   "&amp x" is written as it is and read back as "& x" *)
Theorem C09_html5_text_roundtrip_refuted :
  exists s, no_bare_ref s = false /\ read_text (substitute_html5 s) <> s.
Proof. exact html5_text_refuted. Qed.
Print Assumptions C09_html5_text_roundtrip_refuted.

(* the same in the attribute position (html.unescape): naming characters changes nothing for any text; for
   every string the value read back is what html.unescape reads from the string with only its "&...;" forms
   protected *)
Theorem C09_html5_attr_reads_as : forall t s,
  unescape (sub_particles html_particles O t) = unescape t /\
  read_quoted (quoted_attribute_value (substitute_html5 s)) = Some (unescape (escape_any_entity s)).
Proof. exact (fun t s => conj (html5_pass_transparent_attr t) (html5_attr_reads_as s)). Qed.
Print Assumptions C09_html5_attr_reads_as.

(* PARTIAL (same finding): every string in which each ampersand is either the start of a "&...;" form or is
   read by html.unescape, together with the text up to the next ampersand, as itself *)
Theorem C09_html5_attr_roundtrip_partial : forall s,
  no_bare_ref_attr s = true -> read_quoted (quoted_attribute_value (substitute_html5 s)) = Some s.
Proof. exact html5_attr_roundtrip. Qed.
Print Assumptions C09_html5_attr_roundtrip_partial.

Theorem C09_html5_attr_roundtrip_refuted :
  exists s, no_bare_ref_attr s = false /\ read_quoted (quoted_attribute_value (substitute_html5 s)) <> Some s.
Proof. exact html5_attr_refuted. Qed.
Print Assumptions C09_html5_attr_roundtrip_refuted.

(* EXACT CLASS of the finding: the two hypotheses are not merely sufficient. A string reads back from
   substitute_html5 if and only if it has no bare reference (neither reader ever gives out more characters
   than it consumes, and a completed reference gives out strictly fewer). *)
Theorem C09_html5_text_roundtrip_iff : forall s,
  read_text (substitute_html5 s) = s <-> no_bare_ref s = true.
Proof. exact html5_text_roundtrip_iff. Qed.
Print Assumptions C09_html5_text_roundtrip_iff.

Theorem C09_html5_attr_roundtrip_iff : forall s,
  read_quoted (quoted_attribute_value (substitute_html5 s)) = Some s <-> no_bare_ref_attr s = true.
Proof. exact html5_attr_roundtrip_iff. Qed.
Print Assumptions C09_html5_attr_roundtrip_iff.

(* table obligations behind the counting argument: a named reference never stands for more characters than
   its name has (bs4's table) / than two (html.entities.html5); the special numeric replacements are one character *)
Theorem C09_tbl_reference_lengths :
  forallb (fun kv => Nat.leb (length (snd kv)) (length (fst kv))) html_entity_to_character = true /\
  forallb (fun kv => Nat.leb (length (snd kv)) 2) py_html5 = true /\
  forallb (fun kv => Nat.leb (length (snd kv)) 1) py_invalid_charrefs = true.
Proof. exact (conj ent_values_short_tbl (conj html5_values_short_tbl invalid_charrefs_short_tbl)). Qed.
Print Assumptions C09_tbl_reference_lengths.

(* ---------------------------------------------------------------------------------------------- *)
(* the REAL text reader: html.parser gives up at "&#" that is not a reference (Model/TextReaderReal.v) *)
(* ---------------------------------------------------------------------------------------------- *)

(* Base/Reader.v idealises exactly one situation. Wherever the tokenizer never gets into it, the real reader and
   the idealised one agree: from any state, in either pass, whatever follows the text *)
Theorem C09_real_reader_agrees : forall t st p K,
  never_bad st t = true -> real_from st p t K = (read_from ent_text num_text st t, Goes p).
Proof. exact real_is_ideal. Qed.
Print Assumptions C09_real_reader_agrees.

(* 'minimal' and 'html', every string, any document context: the real parser reads the original back and goes on
   tokenizing - the idealisation is unobservable on their image *)
Theorem C09_minimal_html_real_text_roundtrip : forall s p K,
  (exists o, substitute_xml s false = Some o /\ real_read_text p o K = (s, Goes p)) /\
  real_read_text p (substitute_html s) K = (s, Goes p).
Proof. exact minimal_html_real_text. Qed.
Print Assumptions C09_minimal_html_real_text_roundtrip.

(* 'html5': for every string without a stray "&#" (decidable), the real parser reads what the idealised reader
   reads, and reads the original back exactly when there is no bare reference *)
Theorem C09_html5_real_text : forall s p K,
  no_stray_hash s = true ->
  real_read_text p (substitute_html5 s) K = (read_text (substitute_html5 s), Goes p) /\
  (real_read_text p (substitute_html5 s) K = (s, Goes p) <-> no_bare_ref s = true).
Proof. exact (fun s p K H => conj (real_reads_html5 s p K H) (real_html5_roundtrip_iff s p K H)). Qed.
Print Assumptions C09_html5_real_text.

(* on the image of 'html5' the idealisation IS observable (same finding): "&#" has no bare reference and reads back
   in the idealised reader, but the real parser stops tokenizing and takes the closing tag for text *)
Theorem C09_html5_real_observable :
  no_bare_ref stray_witness = true /\ read_text (substitute_html5 stray_witness) = stray_witness /\
  real_read_text false (substitute_html5 stray_witness) k_pre = (stray_witness ++ k_pre, Stopped).
Proof. exact real_html5_observable. Qed.
Print Assumptions C09_html5_real_observable.

(* ---------------------------------------------------------------------------------------------- *)
(* the attribute reader with its failure: int()'s digit limit inside html.unescape                  *)
(* ---------------------------------------------------------------------------------------------- *)

(* for every text: quoting and reading back either returns html.unescape of the text or is rejected
   (ParserRejectedMarkup), the latter exactly when the text has a decimal reference longer than int() accepts *)
Theorem C09_attr_reader_checked : forall o,
  read_quoted_checked (quoted_attribute_value o) =
  if unescape_raises o then AttrRejected else AttrValue (unescape o).
Proof. exact read_quoted_checked_spec. Qed.
Print Assumptions C09_attr_reader_checked.

(* 'minimal' and 'html' never produce such a reference: the attribute reader returns the original, every string *)
Theorem C09_minimal_html_attr_never_rejected : forall v,
  (exists q, substitute_xml v true = Some q /\ read_quoted_checked q = AttrValue v) /\
  read_quoted_checked (quoted_attribute_value (substitute_html v)) = AttrValue v.
Proof. exact minimal_html_attr_checked. Qed.
Print Assumptions C09_minimal_html_attr_never_rejected.

(* 'html5': never for a string without bare reference; it does happen for one with ("&#" + 4301 digits) *)
Theorem C09_html5_attr_never_rejected : forall s,
  no_bare_ref_attr s = true ->
  read_quoted_checked (quoted_attribute_value (substitute_html5 s)) = AttrValue s.
Proof. exact html5_attr_checked. Qed.
Print Assumptions C09_html5_attr_never_rejected.

Theorem C09_html5_attr_can_be_rejected :
  no_bare_ref_attr over_limit_witness = false /\
  read_quoted_checked (quoted_attribute_value (substitute_html5 over_limit_witness)) = AttrRejected.
Proof. exact html5_can_be_rejected. Qed.
Print Assumptions C09_html5_attr_can_be_rejected.

(* ---------------------------------------------------------------------------------------------- *)
(* the alternation is built from a Python set: its order cannot matter                              *)
(* ---------------------------------------------------------------------------------------------- *)
Theorem C09_alternation_order_irrelevant : forall ps' s,
  (Permutation html_particles_amp ps' -> sub_particles ps' O s = substitute_html s) /\
  (Permutation html_particles ps' -> sub_particles ps' O (escape_any_entity s) = substitute_html5 s).
Proof. exact alternation_order_irrelevant. Qed.
Print Assumptions C09_alternation_order_irrelevant.

(* the extracted model runs an indexed variant of the scanner (particles bucketed by first code point);
   it computes the same function, for every string *)
Theorem C09_indexed_scanner_equal : forall s,
  substitute_html_ix s = substitute_html s /\ substitute_html5_ix s = substitute_html5 s.
Proof. exact indexed_scanner_equal. Qed.
Print Assumptions C09_indexed_scanner_equal.

(* ---------------------------------------------------------------------------------------------- *)
(* table obligations (re-checked against the code's current data on every run)                      *)
(* ---------------------------------------------------------------------------------------------- *)

(* the set substitute_xml escapes is exactly {<, >, &}, under the documented names amp, lt, gt (the dictionary's
   entries for the two quote characters are never reached by the regex and are not constrained) *)
Theorem C09_tbl_xml :
  ampersand_or_bracket_chars = [c_lt; c_gt; c_amp] /\
  assocS [c_amp] character_to_xml_entity = Some n_amp /\
  assocS [c_lt] character_to_xml_entity = Some n_lt /\
  assocS [c_gt] character_to_xml_entity = Some n_gt.
Proof. exact (conj xml_class_tbl xml_entities_tbl). Qed.
Print Assumptions C09_tbl_xml.

(* amp, lt, gt, quot are resolved by both readers to the ampersand, the angle brackets and the double quote *)
Theorem C09_tbl_basic_names :
  known_ref n_amp [c_amp] /\ known_ref n_lt [c_lt] /\ known_ref n_gt [c_gt] /\ known_ref n_quot [c_dq].
Proof. exact (conj known_amp (conj known_lt (conj known_gt known_quot))). Qed.
Print Assumptions C09_tbl_basic_names.

(* every particle of either regex (every character sequence it can match): the dictionary has it, under a
   well-formed name that HTML_ENTITY_TO_CHARACTER and html.entities.html5 both resolve to that very sequence;
   particles of the html5 regex consist of characters that cannot continue or start a reference *)
Theorem C09_tbl_particles :
  forallb particle_entity_ok html_particles_amp = true /\
  forallb particle_entity_ok html_particles = true /\
  forallb particle_inert html_particles = true.
Proof. exact (conj particles_amp_entity_tbl (conj particles_entity_tbl particles_inert_tbl)). Qed.
Print Assumptions C09_tbl_particles.

(* '&', '<', '>' are matched wherever they stand (short particle, and a long particle for every excluded follower) *)
Theorem C09_tbl_coverage :
  covered html_particles_amp c_amp = true /\ covered html_particles_amp c_lt = true /\
  covered html_particles_amp c_gt = true /\ covered html_particles c_lt = true /\ covered html_particles c_gt = true.
Proof.
  exact (conj (proj1 covered_amp_tbl) (conj (proj1 (proj2 covered_amp_tbl)) (conj (proj2 (proj2 covered_amp_tbl)) covered_tbl))).
Qed.
Print Assumptions C09_tbl_coverage.

(* no two alternatives can match at the same place; the two regexes differ by exactly the particle "&" *)
Theorem C09_tbl_exclusive :
  pairwise_excl html_particles_amp = true /\ pairwise_excl html_particles = true /\
  forallb (fun p => memP p html_particles || particle_eqb p ([c_amp], [])) html_particles_amp = true /\
  forallb (fun p => memP p html_particles_amp) html_particles = true /\
  memP ([c_amp], []) html_particles_amp = true /\ memP ([c_amp], []) html_particles = false.
Proof. exact (conj particles_amp_exclusive_tbl (conj particles_exclusive_tbl particles_amp_is_plus_amp_tbl)). Qed.
Print Assumptions C09_tbl_exclusive.

(* ANY_ENTITY_RE is the pattern (and flags) the scanner was aligned with; '&', ';', '#' are not \w, '&', ';' not \d *)
Theorem C09_tbl_any_entity :
  (any_entity_pattern =
   [38; 40; 35; 92; 100; 43; 124; 35; 120; 91; 48; 45; 57; 97; 45; 102; 65; 45; 70; 93; 43; 124; 92; 119; 43; 41; 59]
   /\ any_entity_flags = 34) /\
  is_w c_amp = false /\ is_w c_semi = false /\ is_w c_hash = false /\ is_ud c_amp = false /\ is_ud c_semi = false.
Proof. exact (conj any_entity_pattern_tbl word_class_tbl). Qed.
Print Assumptions C09_tbl_any_entity.

(* ---- the hypotheses used above are satisfiable (non-vacuity) ---- *)
Example C09_ex_no_bare_ref :          (* "AT&T & x=1&y=2 &divide; &#247; &nosuch; &" *)
  no_bare_ref [65; 84; 38; 84; 32; 38; 32; 120; 61; 49; 38; 121; 61; 50; 32; 38; 100; 105; 118; 105; 100; 101; 59;
               32; 38; 35; 50; 52; 55; 59; 32; 38; 110; 111; 115; 117; 99; 104; 59; 32; 38] = true.
Proof. vm_compute. reflexivity. Qed.

Example C09_ex_no_bare_ref_attr :     (* the same string: also fine in the attribute position *)
  no_bare_ref_attr [65; 84; 38; 84; 32; 38; 32; 120; 61; 49; 38; 121; 61; 50; 32; 38; 100; 105; 118; 105; 100; 101; 59;
                    32; 38; 35; 50; 52; 55; 59; 32; 38; 110; 111; 115; 117; 99; 104; 59; 32; 38] = true.
Proof. vm_compute. reflexivity. Qed.

Example C09_ex_no_stray_hash :        (* the same string has no stray "&#" either *)
  no_stray_hash [65; 84; 38; 84; 32; 38; 32; 120; 61; 49; 38; 121; 61; 50; 32; 38; 100; 105; 118; 105; 100; 101; 59;
                 32; 38; 35; 50; 52; 55; 59; 32; 38; 110; 111; 115; 117; 99; 104; 59; 32; 38] = true.
Proof. vm_compute. reflexivity. Qed.

Example C09_ex_enc : enc [97; 38; 108; 116; 59; 98] [97; 60; 98].      (* "a&lt;b" is "a<b" escaped *)
Proof.
  apply enc_plain; [discriminate|]. apply (enc_ref n_lt [c_lt] [98] [98] known_lt).
  apply enc_plain; [discriminate|]. apply enc_nil.
Qed.
