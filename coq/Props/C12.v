(* C12 — Copies and pickles are equal, detached and independent; equality is structural.
   Property theorems only.  Model: Model/Copy.v (two stores: elements and attribute-list
   objects); abstract side: Spec/CopySpec.v ([reps]/[wf]: the stores describe an ordered tree;
   [content]: the tree without addresses; [teq]/[ceq]: equality as coded / as documented).
   Gen/T_C12.v is regenerated from the source of copy_self & co. on every run. *)
From Coq Require Import List NArith ZArith Bool Arith Permutation.
From BS Require Import Base.Sexp Base.Types Base.Lit Gen.Tables Gen.T_C05 Model.Attrs Model.SmartQuotes Model.Render Model.Reparse
     Model.Heap Model.Edit Model.EditOps Model.Build Spec.BuildSpec Spec.RoundTrip Proofs.EditRep.
From BS Require Import Spec.Tree Model.Copy Spec.CopySpec Proofs.CopyProofs Proofs.CopyCompose Gen.T_C12.
Import ListNotations.
Open Scope nat_scope.

(* ---------------------------------------------------------------------------------------- *)
(* 1. what copy.copy / copy.deepcopy compute                                                *)
(* ---------------------------------------------------------------------------------------- *)

(* _event_stream over the descendants of any element of any tree = the bracket sequence of its
   children (START..END around non-empty tags, EMPTY, STRING), for every tree and enough fuel *)
Theorem C12_event_stream_is_bracket_sequence : forall st t fuel,
  reps st t -> NoDup (pre t) -> length (pre t) <= fuel ->
  es_loop st (descendants fuel st (rid t)) [] = flat_map (brackets st) (tkids t).
Proof. exact event_stream_brackets. Qed.
Print Assumptions C12_event_stream_is_bracket_sequence.

(* the explicit-stack loop of __deepcopy__ over that stream is the recursive copy: clone the
   element, then copy each child, in order, under the clone *)
Theorem C12_deepcopy_is_recursive_copy : forall st t fuel,
  reps st t -> NoDup (pre t) -> length (pre t) <= fuel ->
  deepcopy fuel st (rid t) = Some (fst (copy_spec fuel st t), rid (snd (copy_spec fuel st t))).
Proof. exact deepcopy_is_copy_spec. Qed.
Print Assumptions C12_deepcopy_is_recursive_copy.

(* the number of allocated elements is enough fuel for any tree of the state *)
Theorem C12_fuel_suffices : forall st t, wf st t -> length (pre t) <= nn st.
Proof. exact wf_size. Qed.
Print Assumptions C12_fuel_suffices.

(* For every tree t of every state: the copy never fails (no IndexError on the tag stack) and
   yields a tree t' that
   - is represented by the new state and has the same content as t: same shape, every string's
     class and text, every tag's name, attributes (values as stored, lists by their items and
     class) and settings;
   - is attached to nothing (no parent);
   - consists of NEW elements (ids nn st, nn st + 1, ... in pre-order: all distinct, none existed)
     and refers to NEW list objects only (ln st, ln st + 1, ...: all distinct, none existed);
   - leaves every element and every list object that existed exactly as it was;
   - records for every copied tag the _is_xml its original had (known_xml). *)
Theorem C12_copy_isomorphic_detached_fresh : forall st t fuel,
  wf st t -> closed_par st -> (forall x, In x (pre t) -> soup_ok st x) -> length (pre t) <= fuel ->
  exists st' t', deepcopy fuel st (rid t) = Some (st', rid t') /\
    reps st' t' /\ content st' t' = content st t /\
    c_par (nh st' (rid t')) = None /\
    pre t' = seq (nn st) (length (pre t)) /\ nn st' = nn st + length (pre t) /\
    lrefs st' t' = seq (ln st) (length (lrefs st t)) /\ ln st' = ln st + length (lrefs st t) /\
    (forall i, i < nn st -> nh st' i = nh st i) /\ (forall l, l < ln st -> lh st' l = lh st l) /\
    map (kxml_of st') (pre t') = map (kxml_clone fuel st) (pre t).
Proof. exact deepcopy_correct. Qed.
Print Assumptions C12_copy_isomorphic_detached_fresh.

(* the hypotheses are satisfiable: <a class="x y" n=None>t<br/></a> inside a document; its copy
   is computed, has new ids 4,5,6 and a new list object 1 with the items of list 0 *)
Theorem C12_example_hypotheses_satisfiable :
  wf ex_state ex_tree /\ closed_par ex_state /\ (forall x, In x (pre ex_tree) -> soup_ok ex_state x) /\
  (forall x, In x (pre ex_tree) -> dict_ok ex_state x) /\
  exists st' y, deepcopy 4 ex_state 1 = Some (st', y) /\ y = 4 /\ nn st' = 7 /\ ln st' = 2 /\
                c_par (nh st' 4) = None /\ c_kids (nh st' 4) = [5; 6] /\
                attrs_of st' 4 = [([99]%N, CRef 1); ([110]%N, CNone)] /\ lh st' 1 = lh ex_state 0.
Proof. exact example_hypotheses. Qed.
Print Assumptions C12_example_hypotheses_satisfiable.

(* ---------------------------------------------------------------------------------------- *)
(* 2. independence                                                                          *)
(* ---------------------------------------------------------------------------------------- *)

(* a represented tree and its content depend on nothing but the cells of its own elements and
   the list objects its own attributes refer to (the frame lemma) *)
Theorem C12_tree_depends_on_its_own_objects : forall t s s',
  same_on (fun i => In i (pre t)) (fun l => In l (lrefs s t)) s s' ->
  (reps s t -> reps s' t) /\ content s' t = content s t.
Proof. exact stable_tree. Qed.
Print Assumptions C12_tree_depends_on_its_own_objects.

(* whatever is done afterwards that leaves alone the objects that existed before the copy was
   made — i.e. any editing confined to the copy and to objects created later — leaves the original,
   and every other tree that existed, exactly as it was *)
Theorem C12_editing_the_copy_never_affects_the_original : forall st u s2 st',
  wf st u ->
  (forall i, i < nn st -> nh st' i = nh st i) -> (forall l, l < ln st -> lh st' l = lh st l) ->
  same_on (fun i => i < nn st) (fun l => l < ln st) st' s2 ->
  reps s2 u /\ content s2 u = content st u.
Proof. exact edit_copy_leaves_old. Qed.
Print Assumptions C12_editing_the_copy_never_affects_the_original.

(* and conversely: whatever leaves alone the objects created by the copy leaves the copy as it was *)
Theorem C12_editing_the_original_never_affects_the_copy : forall fuel st t st' t' s2,
  copy_post fuel st t st' t' ->
  same_on (fun i => nn st <= i < nn st') (fun l => ln st <= l < ln st') st' s2 ->
  reps s2 t' /\ content s2 t' = content st t.
Proof. exact edit_old_leaves_copy. Qed.
Print Assumptions C12_editing_the_original_never_affects_the_copy.

(* instantiated for the single edits of the model (attribute assignment / deletion, renaming,
   assigning a new list, in-place change of a list object, extract, append of an existing or of
   a new element), applied to ANY element / list object of the copy ... *)
Theorem C12_single_edit_of_copy_leaves_original : forall fuel st t u st' t' e,
  wf st u -> copy_post fuel st t st' t' ->
  targets_in (fun i => In i (pre t')) (fun l => In l (lrefs st' t')) e ->
  reps (apply_edit st' e) u /\ content (apply_edit st' e) u = content st u.
Proof. exact single_edit_of_copy. Qed.
Print Assumptions C12_single_edit_of_copy_leaves_original.

(* ... or to ANY element / list object that existed before *)
Theorem C12_single_edit_of_original_leaves_copy : forall fuel st t st' t' e,
  closed_par st -> copy_post fuel st t st' t' ->
  targets_in (fun i => i < nn st) (fun l => l < ln st) e ->
  reps (apply_edit st' e) t' /\ content (apply_edit st' e) t' = content st t.
Proof. exact single_edit_of_original. Qed.
Print Assumptions C12_single_edit_of_original_leaves_copy.

(* ---------------------------------------------------------------------------------------- *)
(* 3. equality                                                                              *)
(* ---------------------------------------------------------------------------------------- *)

(* x == y as the code computes it on the object graph (identity shortcut, name, attrs, len, then
   the pairwise loop over .contents) is the structural equality of the two contents *)
Theorem C12_eq_as_coded_is_structural : forall s t u fuel,
  reps s t -> reps s u -> (forall x, In x (pre t) -> dict_ok s x) -> height t <= fuel ->
  eq_h fuel s (rid t) (rid u) = teq (content s t) (content s u).
Proof. exact eq_h_content. Qed.
Print Assumptions C12_eq_as_coded_is_structural.

(* exactly: same name, same attribute map whatever the order, pairwise equal children; strings
   are equal when their text is; a string never equals a tag *)
Theorem C12_eq_iff_structure : forall a b, cwf a -> cwf b -> (teq a b = true <-> ceq a b).
Proof. exact teq_iff_ceq. Qed.
Print Assumptions C12_eq_iff_structure.

Theorem C12_ceq_unfolded : forall sp n aa se ks sp' m bb se' js,
  ceq (CT sp n aa se ks) (CT sp' m bb se' js) <-> n = m /\ same_map aa bb /\ Forall2 ceq ks js.
Proof. exact ceq_CT. Qed.
Print Assumptions C12_ceq_unfolded.

Theorem C12_eq_attribute_order_irrelevant : forall a b,
  Permutation a b -> NoDup (keys a) -> amap_eqb a b = true.
Proof. exact amap_eqb_perm. Qed.
Print Assumptions C12_eq_attribute_order_irrelevant.

Theorem C12_eq_reflexive : forall a, cwf a -> teq a a = true.
Proof. exact teq_refl. Qed.
Print Assumptions C12_eq_reflexive.

Theorem C12_eq_symmetric : forall a b, cwf a -> cwf b -> teq a b = teq b a.
Proof. exact teq_sym. Qed.
Print Assumptions C12_eq_symmetric.

Theorem C12_eq_transitive : forall a b c,
  cwf a -> cwf b -> cwf c -> teq a b = true -> teq b c = true -> teq a c = true.
Proof. exact teq_trans. Qed.
Print Assumptions C12_eq_transitive.

(* wherever they live: the content (hence equality) reads neither .parent nor anything outside
   the tree — only the payloads of the tree's elements and their list objects *)
Theorem C12_eq_position_independent : forall st st' t,
  (forall x, In x (pre t) -> c_pay (nh st' x) = c_pay (nh st x)) ->
  (forall l, In l (lrefs st t) -> lh st' l = lh st l) ->
  content st' t = content st t.
Proof. exact content_payloads. Qed.
Print Assumptions C12_eq_position_independent.

(* equal trees have the same number of elements, so a tag never equals one of its own children:
   the structural != in _event_stream decides identity there *)
Theorem C12_eq_never_a_proper_part : forall sp n aa se ks k,
  In k ks -> teq k (CT sp n aa se ks) = false.
Proof. exact teq_proper_part. Qed.
Print Assumptions C12_eq_never_a_proper_part.

(* ---------------------------------------------------------------------------------------- *)
(* 4. a copy equals its original, renders and hashes like it                                *)
(* ---------------------------------------------------------------------------------------- *)
Theorem C12_copy_equals_original : forall fuel st t st' t',
  copy_post fuel st t st' t' -> (forall x, In x (pre t) -> dict_ok st x) ->
  teq (content st' t') (content st t) = true /\ teq (content st t) (content st' t') = true.
Proof. exact copy_equal. Qed.
Print Assumptions C12_copy_equals_original.

(* decode() and hash(str(.)) are functions of the content: whatever function, same value *)
Theorem C12_copy_renders_and_hashes_alike : forall (X : Type) (render : ctree -> X) fuel st t st' t',
  copy_post fuel st t st' t' -> render (content st' t') = render (content st t).
Proof. exact @copy_same_function_of_content. Qed.
Print Assumptions C12_copy_renders_and_hashes_alike.

(* ... and of _is_xml (choice of the formatter), which a copied tag keeps wherever its original lived *)
Theorem C12_copy_keeps_is_xml : forall fuel st t st' t' f d,
  copy_post fuel st t st' t' -> c_pay (nh st (rid t)) = PTag d -> t_soup d = false ->
  is_xml (S f) st' (rid t') = is_xml fuel st (rid t).
Proof. exact copy_is_xml. Qed.
Print Assumptions C12_copy_keeps_is_xml.

(* ---------------------------------------------------------------------------------------- *)
(* 5. pickling a document (partial: rendering, parsing and the builder are parameters; that
      parse (render t) equals t up to the re-parse normalisations is C05's)                  *)
(* ---------------------------------------------------------------------------------------- *)
Theorem C12_pickle_is_reparse_partial : forall (B O M T T' : Type) (render : T -> M) (feed : B -> O -> M -> T')
  (d : document B O T),
  setstate feed (getstate render d) =
  mkdoc (d_builder d) (d_other d) (feed (d_builder d) (d_other d) (render (d_tree d))).
Proof. exact @unpickle_is_reparse. Qed.
Print Assumptions C12_pickle_is_reparse_partial.

(* The pickle clause, composed with C05 and C03.  __getstate__ stores self.decode() — indent_level=None and
   formatter="minimal" by default (obligation C12_getstate_renders_minimal below; 'minimal' = substitute_xml with
   "/" before the ">" of a void element: C05_formatter_registry) — and __setstate__ re-parses it with the pickled
   builder.  The pickled builder is what the re-parse depends on: html.parser's reading configuration and the tree
   builder's construction configuration; the markup is the token sequence whose spelling decode() returns; the
   re-parse is bs4's reading of those tokens (Model/Reparse.v) folded by the documented construction rules
   (Spec/BuildSpec.v spec_run, which the builder's state machine refines: C03_build_refines).  For EVERY
   representable document: the unpickled document's tree is [norm] of the original's — the original up to the
   re-parse normalisations of C05 (adjacent text merged, whitespace-only runs collapsed, newline after a doctype) —
   and the builder configuration and every other attribute of the object survive.  Outside the proof, as in C05:
   that the standard-library tokenizer cuts the text back into these tokens (measured on every run). *)
Theorem C12_pickle_roundtrip : forall (O : Type) enc f (rc : rcfg) (cfg : bconfig) (o : O) (t : node),
  f_subst f = Some subst_xml -> f_void f <> [] ->
  memS (c_root cfg) (c_pw cfg) = false -> assocS (c_root cfg) (c_containers cfg) = None ->
  representable_top f rc cfg t = true ->
  let d := mkdoc (rc, cfg) o t in
  let k := getstate (tokens_of enc f) d in
  let u := setstate pickle_feed k in
  d_tree u = flat_tree cfg (norm enc f cfg t) /\
  d_builder u = (rc, cfg) /\ d_other u = o /\
  decode enc f None t = List.concat (map spell (k_markup k)).
Proof. exact pickle_roundtrip. Qed.
Print Assumptions C12_pickle_roundtrip.

(* for the HTML builder and the shipped HTML 'minimal' formatter nothing is assumed but representability *)
Theorem C12_pickle_roundtrip_html : forall (O : Type) enc check (o : O) (t : node),
  representable_top html_minimal (html_rcfg check) html_bcfg t = true ->
  let d := mkdoc (html_rcfg check, html_bcfg) o t in
  let u := setstate pickle_feed (getstate (tokens_of enc html_minimal) d) in
  d_tree u = flat_tree html_bcfg (norm enc html_minimal html_bcfg t) /\
  d_builder u = (html_rcfg check, html_bcfg) /\ d_other u = o.
Proof. exact pickle_roundtrip_html. Qed.
Print Assumptions C12_pickle_roundtrip_html.

(* ---------------------------------------------------------------------------------------- *)
(* 5b. the six links of a copy (composed with C01 / C02)                                    *)
(* ---------------------------------------------------------------------------------------- *)
(* The same loop on the six-link heap of Model/Heap.v — a clone is a new element of the same kind and label, hung
   under the clone on top of the tag stack by the REAL append() (Model/Edit.v op_append = insert(len(contents), .)
   = _insert with all its pointer writes).  From ANY consistent six-link state s that the two-store state cs mirrors
   (same allocation counter, same .parent / .contents / tag-ness on live elements), for EVERY tree t of cs whose
   elements are live in s: the six-link copy never fails, ends in a consistent state s' that the two-store result
   mirrors, and in s' the copy t' (the tree of C12_copy_isomorphic_detached_fresh) is a tree of the forest with ALL
   SIX links right: [rep1 (hp s') t' b] — parent / contents, sibling chain, element chain over its pre-order closed
   at both ends (b = true) unless the copied element is a BeautifulSoup object, whose root may stand outside its
   chain as C01 allows.  Hence every navigation view of a copy is the pre-order walk of its child lists
   (C01_next_elements ... C01_descendants apply to [rep1]). *)
Theorem C12_copy_well_linked : forall fuel cs t (s : Edit.st),
  wf cs t -> closed_par cs -> (forall x, In x (pre t) -> soup_ok cs x) -> List.length (pre t) <= fuel ->
  is_tagb cs (rid t) = true ->
  consistent s -> sim cs s -> (forall x, In x (pre t) -> live s x) ->
  (forall x, In x (pres (tkids t)) -> kind (hp s x) <> KSoup) ->
  exists cs' t' s',
    deepcopy fuel cs (rid t) = Some (cs', rid t') /\ copy_post fuel cs t cs' t' /\
    deepcopy6 s (es_loop cs (descendants fuel cs (rid t)) []) (rid t) = Some (s', rid t') /\
    consistent s' /\ sim cs' s' /\
    exists b, rep1 (hp s') t' b /\ (kind (hp s (rid t)) <> KSoup -> b = true).
Proof. exact copy_well_linked. Qed.
Print Assumptions C12_copy_well_linked.

(* one step of that loop: allocating the clone and appending it with the real append() is total, keeps the state
   consistent, and does to .parent / .contents exactly the two writes of Model/Copy.v's append_child *)
Theorem C12_append_of_new_element : forall (s : Edit.st) d k t,
  consistent s -> live s d -> is_tag (hp s) d = true -> k <> KSoup ->
  let s1 := fst (alloc s k t) in let x := nxt s in
  exists s2, op_append s1 d (AEl x) = Ok s2 /\ consistent s2 /\ nxt s2 = S (nxt s) /\
    (forall y, y < nxt s -> EditFrames.meta (hp s2 y) = EditFrames.meta (hp s y)) /\
    EditFrames.meta (hp s2 x) = (k, t, false) /\
    kids (hp s2 d) = kids (hp s d) ++ [x] /\ par (hp s2 x) = Some d /\ kids (hp s2 x) = [] /\
    (forall q, live s q -> q <> d -> kids (hp s2 q) = kids (hp s q)) /\
    (forall y, live s y -> par (hp s2 y) = par (hp s y)).
Proof. exact link_step. Qed.
Print Assumptions C12_append_of_new_element.

(* ---------------------------------------------------------------------------------------- *)
(* 6. obligations over the source of the working tree (Gen/T_C12.v)                         *)
(* ---------------------------------------------------------------------------------------- *)
From Coq Require Import String.
Open Scope string_scope.
Definition mem_s (x : string) (l : list string) : bool := existsb (String.eqb x) l.
Fixpoint assoc_s (k : string) (l : list (string * string)) : option string :=
  match l with [] => None | (k', v) :: r => if String.eqb k k' then Some v else assoc_s k r end.

(* every constructor parameter that describes the tag itself is handed to the clone, as the
   original's own value (NOTE in Tag.__init__: "any new arguments here need to be mirrored in
   Tag.copy_self"); what would tie the clone to a parser, a builder or a tree is not;
   the attributes are not poured through the constructor (they are copied as stored, below) *)
Theorem C12_copy_self_mirrors_constructor :
  forallb (fun p =>
     mem_s p ["parser"; "builder"; "parent"; "previous"; "attrs"] ||
     match assoc_s p c12_copy_self_args with
     | Some e => String.eqb e ("self." ++ p) || String.eqb e ("self._" ++ p)
     | None => false
     end) c12_tag_init_params = true /\
  assoc_s "parser" c12_copy_self_args = Some "None" /\ assoc_s "builder" c12_copy_self_args = Some "None" /\
  assoc_s "parent" c12_copy_self_args = None /\ assoc_s "previous" c12_copy_self_args = None /\
  assoc_s "attrs" c12_copy_self_args = Some "None" /\
  forallb (fun a => mem_s a c12_copy_self_setattr) ["can_be_empty_element"; "hidden"; "attribute_value_list_class"] = true.
Proof. repeat split; reflexivity. Qed.
Print Assumptions C12_copy_self_mirrors_constructor.

(* the attribute values are copied as stored into a container of the original's class, lists into
   new lists of their own class ([copy_attrs] of the model is these statements) *)
Theorem C12_copy_self_copies_attributes_as_stored :
  c12_copy_attrs_container = ["attrs = self.attrs.__class__()"; "clone.attrs = attrs"] /\
  c12_copy_attrs_loop = ["if isinstance(v, list):  v = v.__class__(v)"; "dict.__setitem__(attrs, k, v)"].
Proof. split; reflexivity. Qed.
Print Assumptions C12_copy_self_copies_attributes_as_stored.

(* strings keep their class; copy = deepcopy; != is the negation of == *)
Theorem C12_string_copy_and_ne_definitions :
  c12_navstr_deepcopy_returns = "type(self)(self)" /\ c12_navstr_getnewargs_returns = "(str(self),)" /\
  c12_pageelement_copy_returns = "self.__deepcopy__({})" /\
  c12_tag_ne_returns = "not self == other" /\
  c12_soup_copy_self_first = "clone = type(self)('', None, self.builder)".
Proof. repeat split; reflexivity. Qed.
Print Assumptions C12_string_copy_and_ne_definitions.

(* == compares the name, the attribute dictionaries, the number of children and the children *)
Theorem C12_eq_compares_name_attrs_children :
  c12_eq_tests = ["name"; "attrs"; "len(self) != len(other)"; "my_child != other.contents[i]"].
Proof. reflexivity. Qed.
Print Assumptions C12_eq_compares_name_attrs_children.

(* a pickled document carries its markup instead of its contents — rendered afresh on EVERY call (c12_getstate_assigned
   lists only the assignments that are statements of the function body itself, not those under a condition) — and is
   re-parsed on loading *)
Theorem C12_getstate_setstate_shape :
  assoc_s "contents" c12_getstate_assigned = Some "[]" /\
  assoc_s "markup" c12_getstate_assigned = Some "self.decode()" /\
  c12_setstate_tail = ["self.builder.soup = self"; "self.reset()"; "self._feed()"].
Proof. repeat split; reflexivity. Qed.
Print Assumptions C12_getstate_setstate_shape.

(* self.decode() in __getstate__ is the plain (not pretty-printed) rendering under the 'minimal' formatter *)
Theorem C12_getstate_renders_minimal :
  assoc_s "markup" c12_getstate_assigned = Some "self.decode()" /\
  c12_decode_defaults = [("BeautifulSoup.decode.indent_level", "None"); ("BeautifulSoup.decode.formatter", "'minimal'");
                         ("Tag.decode.indent_level", "None"); ("Tag.decode.formatter", "'minimal'")].
Proof. split; reflexivity. Qed.
Print Assumptions C12_getstate_renders_minimal.
