(* C03 — Tree-builder event interface. Property theorems only. *)
From Coq Require Import List Arith Bool.
From BS Require Import Base.Sexp Model.Heap Model.Edit Model.Build Proofs.HeapBasics.
Import ListNotations.

Theorem C03_placeholder_upd : forall h x c, upd h x c x = c.
Proof. exact upd_same. Qed.
Print Assumptions C03_placeholder_upd.
