(* C03 — Tree-builder event interface: any event sequence yields the specified tree.
   Property theorems only.  Table obligations are over coq/Gen/Tables.v, regenerated from /repo on
   every run. *)
From Coq Require Import String.
From Coq Require Import List NArith Arith Bool.
From BS Require Import Base.Sexp Base.Types Base.Lit Model.Heap Model.Edit Model.Build Spec.BuildSpec Proofs.BuildRefines Proofs.ParseRep Spec.Tree Gen.Tables.
Import ListNotations.
Open Scope N_scope.

(* ---- the construction machine refines the documented rules ---- *)

(* For every configuration and EVERY event sequence, the code's state machine (open-tag counter,
   auxiliary stacks, data buffer; Model/Build.v) builds exactly the tree of the documented rules
   (Spec/BuildSpec.v): same nodes, same parent and payload (name, prefix, attributes, string class,
   void flag) for each, each child list = the nodes naming that parent in creation order, and
   nothing but the root is left open at end of input. *)
Theorem C03_build_refines : forall cfg evs,
  let b := feed cfg evs in
  let nodes := spec_run cfg evs in
  nxt (b_st b) = length nodes /\
  (forall x, (x < length nodes)%nat ->
     par (hp (b_st b) x) = sn_parent (nth x nodes (mksn None no_payload)) /\
     b_pay b x = sn_pay (nth x nodes (mksn None no_payload)) /\
     kids (hp (b_st b) x) = children_of nodes x) /\
  b_stack b = [0%nat] /\ b_cur b = Some 0%nat.
Proof. exact build_refines. Qed.
Print Assumptions C03_build_refines.

(* "The tree is always well linked (C01)": the same heap represents one tree in the sense of
   Spec/Tree.v (all six links), rooted at the document object, pre-order = creation order *)
Theorem C03_build_linked : forall cfg evs,
  let b := feed cfg evs in
  exists T, rid T = 0%nat /\ pre T = seq 0 (nxt (b_st b)) /\ rep [(T, false)] (hp (b_st b)).
Proof. exact parse_rep. Qed.
Print Assumptions C03_build_linked.

(* an end tag for which no element of that name and prefix is open only flushes pending text *)
Theorem C03_unknown_end_ignored : forall cfg s name prefix,
  close_through (s_flush cfg s None) name prefix (s_open (s_flush cfg s None)) = None ->
  s_step cfg s (EEnd name prefix) = s_flush cfg s None.
Proof. exact unknown_end_ignored. Qed.
Print Assumptions C03_unknown_end_ignored.

(* whitespace-only text outside whitespace-preserving elements collapses to one newline or one space *)
Theorem C03_ws_collapse : forall cfg s cls chunks,
  s_pending s = chunks -> chunks <> [] ->
  (match cls with Some c => preformatted_cls c | None => false end) = false ->
  existsb (fun x => memS (s_name s x) (c_pw cfg)) (s_open s) = false ->
  all_in (c_spaces cfg) (concat (rev chunks)) = true ->
  exists c, s_nodes (s_flush cfg s cls) = s_nodes s ++
     [mksn (hd_error (s_open s)) (mkpl (if memN 10%N (concat (rev chunks)) then [10%N] else [32%N]) None [] c false)].
Proof. exact ws_collapse. Qed.
Print Assumptions C03_ws_collapse.

(* ... whereas the content of a special string (comment, CDATA section, doctype, declaration, processing
   instruction: a PreformattedString class asked for by the builder) is exactly the data the builder sent *)
Theorem C03_special_string_kept : forall cfg s c chunks,
  s_pending s = chunks -> chunks <> [] -> preformatted_cls c = true ->
  exists k, s_nodes (s_flush cfg s (Some c)) = s_nodes s ++
     [mksn (hd_error (s_open s)) (mkpl (concat (rev chunks)) None [] k false)].
Proof. exact special_string_kept. Qed.
Print Assumptions C03_special_string_kept.

(* ---- tables the construction rules mention ---- *)

(* "whitespace-only text": ASCII whitespace is exactly space, newline, tab, form feed, carriage return *)
Theorem C03_ascii_spaces_table : forall c,
  memN c ascii_spaces = true <-> (c = 32 \/ c = 10 \/ c = 9 \/ c = 12 \/ c = 13).
Proof.
  intros c. unfold ascii_spaces, memN. cbn [existsb]. rewrite !orb_true_iff, !N.eqb_eq. intuition congruence.
Qed.
Print Assumptions C03_ascii_spaces_table.

(* "whitespace-preserving elements" of the HTML configuration: pre and textarea *)
Theorem C03_preserve_whitespace_table :
  default_preserve_whitespace_tags = [lit "pre"; lit "textarea"].
Proof. reflexivity. Qed.
Print Assumptions C03_preserve_whitespace_table.

(* "special containers (script, style, template, rt, rp)" and their string classes
   (7 Stylesheet, 8 Script, 9 TemplateString, 10 RubyTextString, 11 RubyParenthesisString) *)
Theorem C03_string_containers_table :
  default_string_containers =
  [(lit "rp", 11); (lit "rt", 10); (lit "script", 8); (lit "style", 7); (lit "template", 9)].
Proof. reflexivity. Qed.
Print Assumptions C03_string_containers_table.

(* the root element's name can never be closed by an end tag *)
Theorem C03_root_name : root_tag_name = lit "[document]".
Proof. reflexivity. Qed.
Print Assumptions C03_root_name.
