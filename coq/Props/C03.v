(* C03 — Tree-builder event interface: any event sequence yields the specified tree.
   Property theorems only.  Table obligations are over coq/Gen/Tables.v, regenerated from /repo on
   every run. *)
From Coq Require Import List NArith Arith Bool String.
From BS Require Import Base.Sexp Base.Types Base.Lit Model.Heap Model.Edit Model.Build Spec.BuildSpec Gen.Tables.
Import ListNotations.
Open Scope N_scope.

(* ---- tables the construction rules mention ---- *)

(* "whitespace-only text": ASCII whitespace is exactly space, newline, tab, form feed, carriage return *)
Theorem C03_ascii_spaces_table : forall c,
  memN c ascii_spaces = true <-> (c = 32 \/ c = 10 \/ c = 9 \/ c = 12 \/ c = 13).
Proof.
  intros c. unfold ascii_spaces, memN. cbn [existsb]. rewrite !orb_true_iff, !N.eqb_eq. intuition congruence.
Qed.
Print Assumptions C03_ascii_spaces_table.

(* "whitespace-preserving elements" of the HTML configuration: pre and textarea *)
Theorem C03_preserve_whitespace_table :
  default_preserve_whitespace_tags = [lit "pre"; lit "textarea"].
Proof. reflexivity. Qed.
Print Assumptions C03_preserve_whitespace_table.

(* "special containers (script, style, template, rt, rp)" and their string classes
   (7 Stylesheet, 8 Script, 9 TemplateString, 10 RubyTextString, 11 RubyParenthesisString) *)
Theorem C03_string_containers_table :
  default_string_containers =
  [(lit "rp", 11); (lit "rt", 10); (lit "script", 8); (lit "style", 7); (lit "template", 9)].
Proof. reflexivity. Qed.
Print Assumptions C03_string_containers_table.

(* the root element's name can never be closed by an end tag *)
Theorem C03_root_name : root_tag_name = lit "[document]".
Proof. reflexivity. Qed.
Print Assumptions C03_root_name.
