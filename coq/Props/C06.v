(* C06 — Any input yields a tree or ParserRejectedMarkup, never another failure; when a builder rejects
   one candidate interpretation part-way and a later one succeeds, nothing of the rejected attempt remains.

   Property theorems only (each closed by [exact] of a lemma of Proofs/ConstructProofs.v, RetryClean.v,
   FullyBuilt.v, or a direct computation over the tables of Gen/T_C06.v, regenerated from the source on
   every run).  The model is Model/Construct.v on top of the C03 machine Model/Build.v.

   What is outside the proof (and therefore appears as a hypothesis, measured by the harness): how the
   standard library's tokenizer ends (it returns, or raises a class HTMLParserTreeBuilder.feed maps), which
   names it passes to handle_charref (its regular expression), and which exception classes a codec raises on
   a single byte.  The theorem that needs those hypotheses is named ..._partial. *)
From Coq Require Import List NArith ZArith Bool Arith String.
From BS Require Import Model.Dammit Model.Codecs Model.Adapter Model.TokParse Model.Tokenizer Proofs.TokenizerCompose.
From BS Require Import Base.Sexp Base.Types Base.Lit Model.Heap Model.Edit Model.Build Model.Construct
                       Model.EditOps Spec.Tree Gen.Tables Gen.T_C06 Proofs.EditRep Proofs.ConstructProofs Proofs.RetryClean
                       Proofs.FullyBuilt Proofs.ConstructCompose Model.ConstructStr Proofs.ConstructStrProofs
                       Model.ConstructBytes Proofs.ConstructAdapterBridge Proofs.ConstructBytesProofs.
Import ListNotations.
Open Scope N_scope.

(* ================================================================== the retry loop *)

(* k rejected attempts — each after any sequence of events — then an accepted one, whatever strategies
   follow and whatever state the object was in: on every observable (allocation counter, every cell with its
   six links, every payload, tagStack, open_tag_counter, both auxiliary stacks, pending text,
   _most_recent_element, currentTag) the result is the object that parsing the accepted strategy alone
   produces (Model.Build.feed, the C03 machine), with the accepted strategy's encoding bookkeeping *)
Theorem C06_retry_clean : forall cfg b0 rejected acc evs rest tail,
  forallb is_reject rejected = true -> st_out acc = Accept evs ->
  exists s, construct cfg b0 (rejected ++ acc :: rest) tail = CSoup s /\
            so_meta s = st_meta acc /\ same_object (so_b s) (feed cfg evs).
Proof. exact retry_clean. Qed.
Print Assumptions C06_retry_clean.

Example C06_retry_clean_hypotheses_satisfiable :
  let m := mkmeta None None false in
  forallb is_reject [mkstrat m (Reject [EStart (lit "a") None []; EData (lit "x")] (lit "no"))] = true /\
  st_out (mkstrat m (Accept [EData (lit "y")])) = Accept [EData (lit "y")].
Proof. split; reflexivity. Qed.

(* reset() makes the outcome of an attempt independent of anything the object held before *)
Theorem C06_attempt_independent_of_prior_state : forall cfg b1 b2 evs,
  same_object (finish cfg (run_events cfg (reset_obj cfg b1) evs))
              (finish cfg (run_events cfg (reset_obj cfg b2) evs)).
Proof. exact attempt_independent_of_prior_state. Qed.
Print Assumptions C06_attempt_independent_of_prior_state.

(* every strategy rejected, or none offered at all: ParserRejectedMarkup reporting every rejection in order *)
Theorem C06_all_rejected_raises_rejected : forall cfg b0 ss, forallb is_reject ss = true ->
  construct cfg b0 ss GenDone = CRaise (ParserRejected (map reject_msg ss)).
Proof. exact all_rejected_raises_rejected. Qed.
Print Assumptions C06_all_rejected_raises_rejected.

(* prepare_markup itself gives up (html.parser: nothing could be decoded): its exception is the outcome *)
Theorem C06_rejected_then_generator_raises : forall cfg b0 ss e, forallb is_reject ss = true ->
  construct cfg b0 ss (GenRaise e) = CRaise e.
Proof. exact rejected_then_generator_raises. Qed.
Print Assumptions C06_rejected_then_generator_raises.

(* the loop adds no exception class of its own: a tree or ParserRejectedMarkup unless a builder crashed *)
Theorem C06_construct_classes : forall cfg b0 ss tail,
  Forall no_crash ss -> match tail with GenRaise (PyExc _) => False | _ => True end ->
  cres_ok (construct cfg b0 ss tail).
Proof. exact construct_classes. Qed.
Print Assumptions C06_construct_classes.

(* ... and it does not swallow one either *)
Theorem C06_crash_propagates : forall cfg b0 pre m evs c rest tail,
  forallb is_reject pre = true -> catches c06_ctor_catches c = false ->
  construct cfg b0 (pre ++ mkstrat m (Crash evs (PyExc c)) :: rest) tail = CRaise (PyExc c).
Proof. exact crash_propagates. Qed.
Print Assumptions C06_crash_propagates.

(* never half-built: whatever events were delivered (unclosed elements, stray end tags, pending text, even a
   start tag carrying the reserved root name — the root is recognised by identity), the object the loop
   returns has the root alone on the stack of open elements, the root current, no text pending *)
Theorem C06_returned_object_fully_built : forall cfg b0 ss tail s,
  construct cfg b0 ss tail = CSoup s ->
  b_stack (so_b s) = [0%nat] /\ b_cur (so_b s) = Some 0%nat /\ b_data (so_b s) = [].
Proof. exact returned_object_fully_built. Qed.
Print Assumptions C06_returned_object_fully_built.

(* ------------------------------------------------------------------ "a well-linked tree"
   [consistent s] is C01's notion (Proofs/EditRep.v): some forest is represented by the heap (rep: all six
   links of every element are what the ordered trees dictate), its ids are exactly the live ids below the
   allocation counter [nxt s], none of them is dead, only BeautifulSoup objects stand outside their element chain.
   Stale cells of rejected attempts sit at or beyond the counter; the statement does not mention them, and that
   it cannot depend on them is the next theorem. *)
Theorem C06_consistency_ignores_cells_beyond_counter : forall s1 s2,
  nxt s1 = nxt s2 -> (forall x, (x < nxt s1)%nat -> hp s1 x = hp s2 x) -> consistent s2 -> consistent s1.
Proof. exact consistent_below_counter. Qed.
Print Assumptions C06_consistency_ignores_cells_beyond_counter.

(* whenever the constructor returns an object — any strategies (k rejected attempts after arbitrary event
   prefixes, then an accepted one), any events, any prior state of the object — that object is a well-linked tree:
   retry_clean (result = Model.Build.feed below the counter) + parse_consistent (C01/C03) *)
Theorem C06_returned_tree_well_linked : forall cfg b0 ss tail s,
  construct cfg b0 ss tail = CSoup s -> consistent (b_st (so_b s)).
Proof. exact returned_tree_well_linked. Qed.
Print Assumptions C06_returned_tree_well_linked.

(* the same in the shape of the property's retry clause, together with what retry_clean gives *)
Theorem C06_retry_returns_well_linked : forall cfg b0 rejected acc evs rest tail,
  forallb is_reject rejected = true -> st_out acc = Accept evs ->
  exists s, construct cfg b0 (rejected ++ acc :: rest) tail = CSoup s /\
            same_object (so_b s) (feed cfg evs) /\ consistent (b_st (so_b s)).
Proof. exact retry_returns_well_linked. Qed.
Print Assumptions C06_retry_returns_well_linked.

(* ... and it stays one under any finite history of editing calls (Model.EditOps.run_history: inadmissible
   calls are refused as the code refuses them), run on the returned state itself, stale cells included.
   "Can be rendered, searched and copied" then rests on C05 / C10 / C12, whose premises are rep1 / consistent. *)
Theorem C06_returned_tree_editable : forall cfg b0 ss tail s ops,
  construct cfg b0 ss tail = CSoup s -> consistent (run_history (b_st (so_b s)) ops).
Proof. exact returned_tree_editable. Qed.
Print Assumptions C06_returned_tree_editable.

(* every live element of the result (after any such history) lies in a represented tree: the premise of all the
   navigation-view theorems of C01 *)
Theorem C06_returned_tree_views_premise : forall cfg b0 ss tail s ops x,
  construct cfg b0 ss tail = CSoup s -> live (run_history (b_st (so_b s)) ops) x ->
  exists F T b, cons_with F (run_history (b_st (so_b s)) ops) /\ In (T, b) F /\ In x (pre T) /\
                rep1 (hp (run_history (b_st (so_b s)) ops)) T b.
Proof. exact returned_tree_views_premise. Qed.
Print Assumptions C06_returned_tree_views_premise.

(* ================================================================== the html.parser path *)

(* PARTIAL (see the header): for every str / bytes input, every UnicodeDammit result, every callback
   sequence — provided the tokenizer ends benignly and the document's codec raises only classes feed() maps —
   the constructor returns a tree or raises ParserRejectedMarkup *)
Theorem C06_no_other_exception_partial : forall cfg b0 m d orig cbs fin,
  decoder_benign orig -> fin_benign fin -> forallb callback_ok cbs = true ->
  cres_ok (fst (construct_htmlparser cfg b0 m d orig cbs fin)).
Proof. exact no_other_exception. Qed.
Print Assumptions C06_no_other_exception_partial.

Example C06_no_other_exception_hypotheses_satisfiable :
  decoder_benign None /\ decoder_benign (Some cp1252_decoder) /\
  fin_benign TokFinished /\ fin_benign (TokRaised 4 []) /\ fin_benign (TokRaised exc_ValueError []) /\
  forallb callback_ok [CbStart (lit "p") []; CbCharref (lit "x41"); CbCharref (lit "0065"); CbData (lit "t")] = true.
Proof.
  repeat split; try reflexivity.
  - intros dec n c H. discriminate.
  - intros dec n c H E. inversion H; subst. apply cp1252_raises_decode_error in E. subst. reflexivity.
Qed.

(* the hypothesis on the tokenizer cannot be dropped: a class feed() does not map is handed on as it is *)
Theorem C06_unmapped_tokenizer_failure_escapes : forall cfg orig cbs c m evs,
  adapt cfg orig [] cbs = (evs, None) -> catches c06_feed_maps c = false ->
  hp_attempt cfg orig cbs (TokRaised c m) = Crash evs (PyExc c).
Proof. exact hp_attempt_unmapped_crashes. Qed.
Print Assumptions C06_unmapped_tokenizer_failure_escapes.

(* a tree comes back exactly when there is text to parse and the tokenizer finished *)
Theorem C06_htmlparser_returns_tree_iff : forall cfg b0 m d orig cbs fin,
  (exists s, fst (construct_htmlparser cfg b0 m d orig cbs fin) = CSoup s) <->
  ((match m with MStr _ => True | MBytes _ => d <> DNone end) /\
   exists evs, hp_attempt cfg orig cbs fin = Accept evs).
Proof. exact htmlparser_returns_tree_iff. Qed.
Print Assumptions C06_htmlparser_returns_tree_iff.

(* ================================================================== the constructor on a str, nothing recorded
   [construct_str cfg b0 unesc text] (Model/ConstructStr.v) = BeautifulSoup(text, "html.parser") for a str: the
   tokenizer model of Model/Tokenizer.v (the installed html.parser, proved total for every text in C18) supplies the
   callbacks and the way the run ends; the adapter, feed()'s exception mapping, prepare_markup and the retry loop are
   this property's model.  [unesc : str -> option str] is html.unescape on attribute values, None = it raised
   ValueError (Model/UnescapeLimit.v says when: a decimal reference longer than int() accepts); the statements hold
   for EVERY such function, every text (any code points: lone surrogates, NULs, references of any length), every
   builder configuration and every prior state of the object.  Trusted, tied by correspondence (C18's tokenizer
   runs and this property's string-level runs): that the tokenizer model is the standard library's tokenizer. *)

(* a tree or ParserRejectedMarkup, never anything else *)
Theorem C06_str_input_total : forall cfg b0 unesc text, cres_ok (fst (construct_str cfg b0 unesc text)).
Proof. exact str_input_total. Qed.
Print Assumptions C06_str_input_total.

(* not refused: the object returned is, on every observable, Model.Build.feed on the events the adapter derives from
   the tokenizer's callbacks; it is a consistent forest (C01) and fully built *)
Theorem C06_str_accepted : forall cfg b0 unesc text, str_rejects unesc text = false ->
  exists s ws, construct_str cfg b0 unesc text = (CSoup s, ws) /\
    same_object (so_b s) (feed cfg (str_events cfg unesc text)) /\
    consistent (b_st (so_b s)) /\
    b_stack (so_b s) = [0%nat] /\ b_cur (so_b s) = Some 0%nat /\ b_data (so_b s) = [].
Proof. exact str_accepted. Qed.
Print Assumptions C06_str_accepted.

(* ParserRejectedMarkup is raised exactly when the parser refuses the text: html.parser's AssertionError, or
   html.unescape's ValueError on an attribute value ... *)
Theorem C06_str_rejected_iff : forall cfg b0 unesc text,
  (exists msgs, fst (construct_str cfg b0 unesc text) = CRaise (ParserRejected msgs)) <-> str_rejects unesc text = true.
Proof. exact str_rejected_iff. Qed.
Print Assumptions C06_str_rejected_iff.

(* ... and a refusal that is not html.unescape's needs the opening of a marked section, "<![", in the text *)
Theorem C06_str_rejected_cause : forall unesc text, str_rejects unesc text = true -> str_unescape_failed unesc text = false ->
  exists pre post, text = pre ++ 60 :: 33 :: 91 :: post.
Proof. exact str_rejected_cause. Qed.
Print Assumptions C06_str_rejected_cause.

(* the link between the two models: every numeric-reference name the tokenizer fires (C18: it is in int()'s grammar)
   is converted by handle_charref without an exception, whatever its length and whatever the document's codec does on
   single bytes as long as it raises only what the handler names *)
Theorem C06_str_callbacks_return : forall orig unesc text, decoder_caught orig ->
  Forall (cb_returns orig) (str_callbacks unesc text).
Proof. exact str_callbacks_return. Qed.
Print Assumptions C06_str_callbacks_return.

(* the tokenizer's callback type and this model's are converted by [cb_of_tev]; on what the tokenizer fires, this
   model's handle_charref and Model/Adapter.v's (C04 / C18) produce the same text ... *)
Theorem C06_charref_models_agree : forall name v, Adapter.charref_value name = Some v ->
  Construct.charref_data None name = Done (Adapter.charref_data None v).
Proof. exact charref_models_agree. Qed.
Print Assumptions C06_charref_models_agree.

(* ... and the two adapters make the same calls on the tree builder, attributes aside: the string-level constructor
   of this property builds the tree of Model.TokParse.parse_string (C04, C18) *)
Theorem C06_str_events_are_adapter_events : forall cfg unesc text, a_orig cfg = None ->
  str_unescape_failed unesc text = false ->
  exists o ac, adapter_run cfg [] (callbacks (marking unesc) text) = (o, ac, true) /\
               map strip (str_events (a_b cfg) unesc text) = strips o.
Proof. exact str_events_are_adapter_events. Qed.
Print Assumptions C06_str_events_are_adapter_events.

(* ------------------------------------------------------------------ text produced by prepare_markup; bytes
   [construct_text]: the same pipeline for a text prepare_markup produced from any input, numeric references below
   256 read through the single-byte decoder [orig] of the detected encoding. *)
Theorem C06_text_input_total : forall cfg b0 m d orig unesc text, decoder_caught orig ->
  cres_ok (fst (construct_text cfg b0 m d orig unesc text)).
Proof. exact text_input_total. Qed.
Print Assumptions C06_text_input_total.

(* PARTIAL: bytes input whose detection stays within the concrete codecs of Model/Codecs.v (ascii, latin-1,
   windows-1252, utf-8, utf-16/32; chardet absent; any other codec name counts as unknown) — C07's fully concrete
   prepare_markup, then the pipeline above: for every byte string and every from_encoding / exclude_encodings, a tree or
   ParserRejectedMarkup.  Outside the statement: the codecs Python knows beyond those eight (measured by the harness). *)
Theorem C06_bytes_input_total_partial : forall cfg b0 unesc b from_encoding exclude,
  cres_ok (fst (construct_bytes cfg b0 unesc b from_encoding exclude)).
Proof. exact bytes_input_total. Qed.
Print Assumptions C06_bytes_input_total_partial.

Theorem C06_bytes_undecodable_rejected_partial : forall cfg b0 unesc b from_encoding exclude,
  c_prepare_markup (Dammit.MBytes b) from_encoding exclude = Dammit.Rejected ->
  fst (construct_bytes cfg b0 unesc b from_encoding exclude) = CRaise (ParserRejected [could_not_convert]).
Proof. exact bytes_undecodable_rejected. Qed.
Print Assumptions C06_bytes_undecodable_rejected_partial.

Theorem C06_bytes_returned_tree_partial : forall cfg b0 unesc b from_encoding exclude s,
  fst (construct_bytes cfg b0 unesc b from_encoding exclude) = CSoup s ->
  exists text orig decl flag,
    c_prepare_markup (Dammit.MBytes b) from_encoding exclude = Prepared text orig decl flag /\
    so_meta s = mkmeta orig decl flag /\ str_rejects unesc text = false /\
    same_object (so_b s) (feed cfg (text_events cfg (option_map decoder_of orig) unesc text)) /\
    consistent (b_st (so_b s)) /\
    b_stack (so_b s) = [0%nat] /\ b_cur (so_b s) = Some 0%nat /\ b_data (so_b s) = [].
Proof. exact bytes_returned_tree. Qed.
Print Assumptions C06_bytes_returned_tree_partial.

Example C06_str_examples :
  let u := fun v : str => Some v in
  str_rejects u (lit "<p>a&#65;</p>") = false /\ str_rejects u (lit "<![x]>") = true /\
  str_rejects (fun _ => None) (lit "<a b=c>") = true /\ str_unescape_failed (fun _ => None) (lit "<a b=c>") = true.
Proof. vm_compute. repeat split; reflexivity. Qed.

(* ================================================================== numeric character references *)

(* for every name the tokenizer can pass (decimal digits, or x/X and hexadecimal digits; any length,
   any number of leading zeros) the conversion depends only on the number the name denotes ... *)
Theorem C06_charref_value : forall orig name, valid_charref_name name = true ->
  charref_data orig name = charref_text orig (name_value name).
Proof. exact charref_value. Qed.
Print Assumptions C06_charref_value.

(* ... which is U+FFFD beyond the code space (0x110000, 2^31, 10^5000, ...), the character itself from 256 on
   (exactly 256 included), and below 256 the Windows-1252 reading, else the document's own, else the character *)
Theorem C06_charref_out_of_range : forall orig n, 1114112 <= n -> charref_text orig n = Done [65533].
Proof. exact charref_text_big. Qed.
Print Assumptions C06_charref_out_of_range.

Theorem C06_charref_code_point : forall orig n, 256 <= n -> n < 1114112 -> charref_text orig n = Done [n].
Proof. exact charref_text_mid. Qed.
Print Assumptions C06_charref_code_point.

Theorem C06_charref_single_byte : forall orig n, n < 256 -> decoder_caught orig ->
  charref_text orig n = Done (small_text orig n).
Proof. exact charref_text_small. Qed.
Print Assumptions C06_charref_single_byte.

(* it raises nothing when the document's codec raises only what the handler names (UnicodeDecodeError) ... *)
Theorem C06_charref_never_raises : forall orig name, valid_charref_name name = true -> decoder_caught orig ->
  exists d, charref_data orig name = Done d /\ d <> [].
Proof. exact charref_never_raises. Qed.
Print Assumptions C06_charref_never_raises.

Example C06_charref_hypotheses_satisfiable :
  valid_charref_name (repeat 57 5000) = true /\ valid_charref_name (120 :: repeat 102 5000) = true /\
  decoder_caught None /\ decoder_caught (Some cp1252_decoder).
Proof.
  split; [vm_compute; reflexivity|]. split; [vm_compute; reflexivity|]. split.
  - intros dec n c H. discriminate.
  - intros dec n c H E. inversion H; subst. apply cp1252_raises_decode_error in E. subst. reflexivity.
Qed.

(* ... and in any case nothing but what that codec raised on one byte below 256 *)
Theorem C06_charref_raises_only_codec : forall orig name e, valid_charref_name name = true ->
  charref_data orig name = Raise e ->
  exists dec n c, orig = Some dec /\ n < 256 /\ dec n = DecRaise c /\ e = PyExc c /\
                  catches c06_charref_decode_catches c = false.
Proof. exact charref_raises_only_codec. Qed.
Print Assumptions C06_charref_raises_only_codec.

(* why the decimal guard is there: int() itself refuses one digit more than the interpreter's limit *)
Theorem C06_plain_int_fails_beyond_digit_limit :
  py_int_dec (repeat 57 (S c06_int_max_str_digits)) = Raise (PyExc exc_ValueError) /\
  charref_data None (repeat 57 (S c06_int_max_str_digits)) = Done [65533].
Proof. split; vm_compute; reflexivity. Qed.
Print Assumptions C06_plain_int_fails_beyond_digit_limit.

(* ================================================================== the two heuristics *)

(* they never raise, on any str (lone surrogates, NULs, ...) or bytes *)
Theorem C06_heuristics_total : forall m,
  (exists b, markup_resembles_filename m = Done b) /\ (exists ws, preparse m = Done ws).
Proof. intros m. split; [exact (filename_heuristic_total m) | exact (preparse_total m)]. Qed.
Print Assumptions C06_heuristics_total.

(* the strict conversion the code used before fails on exactly the strings with a lone surrogate *)
Theorem C06_strict_utf8_fails_iff_surrogate : forall s,
  (existsb is_surrogate s = false -> exists bs, utf8_encode 0 s = Done bs) /\
  (existsb is_surrogate s = true -> utf8_encode 0 s = Raise (PyExc exc_UnicodeEncodeError)).
Proof. exact utf8_encode_strict. Qed.
Print Assumptions C06_strict_utf8_fails_iff_surrogate.

Theorem C06_lenient_utf8_total : forall errors s, errors = 1 \/ errors = 2 \/ errors = 3 ->
  exists bs, utf8_encode errors s = Done bs.
Proof. exact utf8_encode_total. Qed.
Print Assumptions C06_lenient_utf8_total.

(* ================================================================== table obligations (Gen/T_C06.v) *)

(* every `raise` statement of the functions the constructor reaches raises ParserRejectedMarkup, except the
   constructor's two argument checks (FeatureNotFound: unknown feature; TypeError: markup of another type) *)
Theorem C06_raise_sites_table :
  forallb (fun site => N.eqb (snd site) 0 ||
                       (str_eqb (fst site) (lit "BeautifulSoup.__init__") && (N.eqb (snd site) 1 || N.eqb (snd site) 2)))
          c06_raise_sites = true /\
  existsb (fun site => str_eqb (fst site) (lit "HTMLParserTreeBuilder.feed") && N.eqb (snd site) 0) c06_raise_sites = true /\
  existsb (fun site => str_eqb (fst site) (lit "BeautifulSoup.__init__") && N.eqb (snd site) 0) c06_raise_sites = true.
Proof. repeat split; reflexivity. Qed.
Print Assumptions C06_raise_sites_table.

(* the retry loop catches ParserRejectedMarkup and nothing else *)
Theorem C06_ctor_catches_only_rejection : c06_ctor_catches = [0].
Proof. reflexivity. Qed.
Print Assumptions C06_ctor_catches_only_rejection.

(* feed() maps AssertionError (html.parser's fatal errors) and ValueError with its subclasses (UnicodeError) *)
Theorem C06_feed_maps_table :
  catches c06_feed_maps 4 = true /\ catches c06_feed_maps exc_ValueError = true /\
  catches c06_feed_maps exc_UnicodeError = true /\ catches c06_feed_maps exc_UnicodeDecodeError = true /\
  catches c06_feed_maps 2 = false /\ catches c06_feed_maps 17 = false.
Proof. repeat split; reflexivity. Qed.
Print Assumptions C06_feed_maps_table.

(* UnicodeDammit: any failure of a codec call means "this encoding did not work"; a codec name with a NUL
   (ValueError) or an unknown one (LookupError) is "no such codec" *)
Theorem C06_dammit_catch_tables :
  c06_convert_from_catches = [exc_Exception] /\
  catches c06_codec_catches exc_LookupError = true /\ catches c06_codec_catches exc_ValueError = true.
Proof. repeat split; reflexivity. Qed.
Print Assumptions C06_dammit_catch_tables.

(* handle_charref: the guard and the handlers the theorems above stand on *)
Theorem C06_charref_tables :
  guard_ok c06_charref_guard = true /\ c06_charref_hex_prefixes = [120; 88] /\ c06_charref_byte_limit = 256 /\
  c06_replacement_char = 65533 /\
  catches c06_charref_decode_catches exc_UnicodeDecodeError = true /\
  catches c06_charref_chr_catches exc_ValueError = true /\ catches c06_charref_chr_catches exc_OverflowError = true.
Proof. repeat split; reflexivity. Qed.
Print Assumptions C06_charref_tables.

(* _markup_resembles_filename converts str to bytes with a handler that cannot fail *)
Theorem C06_filename_encode_table :
  c06_filename_encode_errors = 1 \/ c06_filename_encode_errors = 2 \/ c06_filename_encode_errors = 3.
Proof. exact filename_errors_lenient. Qed.
Print Assumptions C06_filename_encode_table.
