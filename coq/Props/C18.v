(* C18 — sourceline / sourcepos give each tag's true position.  Property theorems only.

   Reading.  [true_pos text off] is the property's notion (1-based line, 0-based column, lines end
   at '\n').  The repository's part is thin: handle_starttag hands getpos() on, or None.  Where
   getpos() points when the callback fires is the standard library's business; [updatepos] mirrors
   its bookkeeping so that "positions do not drift" is a theorem about that bookkeeping, and the
   harness compares it with the recorded token slices. *)
From Coq Require Import List NArith Arith Bool Sorted.
From BS Require Import Base.Sexp Base.Reader Gen.T_C18 Model.Build Model.Adapter Model.Pos Model.Tokenizer Model.TokenizerPins
                       Model.TokParse Proofs.PosProofs Proofs.TokenizerProofs Proofs.TokenizerCompose.
Import ListNotations.
Open Scope N_scope.

(* line = 1 + newlines before the offset; column = characters after the last of them *)
Theorem C18_position_spec : forall s, pos_after s = (1 + count_nl s, tail_len s).
Proof. exact pos_after_spec. Qed.
Print Assumptions C18_position_spec.
Theorem C18_column_after_newline : forall a b, count_nl b = 0 -> tail_len (a ++ nl :: b) = N.of_nat (length b).
Proof. exact tail_len_after_nl. Qed.
Print Assumptions C18_column_after_newline.
Theorem C18_column_first_line : forall s, count_nl s = 0 -> tail_len s = N.of_nat (length s).
Proof. exact tail_len_no_nl. Qed.
Print Assumptions C18_column_first_line.

(* the standard library's update (count newlines, find the last one) is the character-by-character
   reading, for every slice from every position *)
Theorem C18_updatepos_exact : forall p tok, updatepos p tok = scan p tok.
Proof. exact updatepos_scan. Qed.
Print Assumptions C18_updatepos_exact.

(* positions do not drift: tracking token by token (multi-line text, comments, CDATA, references,
   tags — any slicing at all) gives, before every token, the true position of its offset *)
Theorem C18_linecol_compositional : forall toks,
  running start_pos toks = map (true_pos (concat toks)) (offsets 0 toks).
Proof. exact running_true. Qed.
Print Assumptions C18_linecol_compositional.

(* the adapter hands the position of each start-tag callback to exactly the tag it creates, in order *)
Theorem C18_pos_pass_through : forall cfg hs ac o ac',
  adapter_run cfg ac hs = (o, ac', true) ->
  tag_positions o = map (stored cfg) (start_events hs).
Proof. exact (pos_pass_through false). Qed.
Print Assumptions C18_pos_pass_through.

Theorem C18_pos_enabled_all_some : forall cfg, a_store cfg = true ->
  forall hs ac o ac', adapter_run cfg ac hs = (o, ac', true) ->
  tag_positions o = map (fun np => (fst np, Some (snd np))) (start_events hs).
Proof. exact (pos_enabled_all_some false). Qed.
Print Assumptions C18_pos_enabled_all_some.

(* store_line_numbers=False: None for every tag, for every callback stream *)
Theorem C18_pos_disabled_all_none : forall cfg, a_store cfg = false ->
  forall hs ac, Forall (fun np => snd np = None) (tag_positions (fst (fst (adapter_run cfg ac hs)))).
Proof. exact (pos_disabled_all_none false). Qed.
Print Assumptions C18_pos_disabled_all_none.

(* the hypothesis "every callback returned" is exactly "no numeric reference int() rejects" *)
Theorem C18_run_ok_iff : forall cfg hs ac, snd (adapter_run cfg ac hs) = callbacks_return hs.
Proof. exact (run_ok_iff false). Qed.
Print Assumptions C18_run_ok_iff.

(* together: a tokenizer that fires its callbacks at token boundaries with the position it tracked
   gives the adapter exactly the true positions of those boundaries *)
Theorem C18_positions_true : forall cfg (toks : list ptoken),
  let slices := map fst toks in
  let text := concat slices in
  adapter_run cfg [] (fire (running start_pos slices) toks) =
  adapter_run cfg [] (fire (map (true_pos text) (offsets 0 slices)) toks).
Proof. exact positions_true. Qed.
Print Assumptions C18_positions_true.

(* ================= the tokenizer (Model/Tokenizer.v: the installed html/parser.py + _markupbase.py) =================
   [tokenize unesc text] = (items, final state): one item per slice the tokenizer consumes (updatepos(i, j), i < j),
   with the offset i, the getpos() its callbacks see, the slice and the callbacks.  [unesc] stands for html.unescape
   (attribute values); every statement holds for every function in its place.  All texts, no size bound. *)

(* ---- the model was written for the patterns / methods / tables of the interpreter that runs the check ---- *)
Theorem C18_tok_patterns_pinned : tok_pattern_pins = pinned_patterns.
Proof. reflexivity. Qed.
Print Assumptions C18_tok_patterns_pinned.
Theorem C18_tok_sources_pinned : tok_source_pins = pinned_sources.
Proof. reflexivity. Qed.
Print Assumptions C18_tok_sources_pinned.
Theorem C18_tok_measured_tables :
  re_space_measured = space_cps /\ ci_measured = ci_extra /\ cdata_elems_measured = cdata_content_elements.
Proof. repeat split; reflexivity. Qed.
Print Assumptions C18_tok_measured_tables.

(* ---- no loss: the consumed slices are non-empty, consecutive from offset 0, and with the unconsumed rest they are
   the text; nothing is dropped, nothing is reported twice ---- *)
Theorem C18_tok_covers : forall unesc text its g, tokenize unesc text = (its, g) ->
  concat (map it_span its) ++ gs_rest g = text /\
  map it_off its = offsets 0 (map it_span its) /\
  Forall (fun it => it_span it <> []) its /\
  StronglySorted lt (map it_off its).
Proof. exact tok_covers. Qed.
Print Assumptions C18_tok_covers.

(* ... and the rest is empty unless a script / style element is still open at the end of the text *)
Theorem C18_tok_leftover : forall unesc text its g, tokenize unesc text = (its, g) ->
  gs_status g = Running -> gs_rest g = [] \/ gs_cd g <> None.
Proof. exact tokenize_leftover. Qed.
Print Assumptions C18_tok_leftover.

(* ---- termination: fuel = length + 1 per goahead call suffices, and every loop iteration advances; the run ends
   normally or with the AssertionError the Python code raises ---- *)
Theorem C18_tok_terminates : forall unesc text its g, tokenize unesc text = (its, g) ->
  gs_status g = Running \/ gs_status g = Rejected.
Proof. exact tokenize_total. Qed.
Print Assumptions C18_tok_terminates.

(* ... and it raises (html.parser's AssertionError, which HTMLParserTreeBuilder.feed turns into ParserRejectedMarkup)
   only for a text that contains the opening of a marked section, "<![" *)
Theorem C18_tok_rejects_only_marked_sections : forall unesc text its g, tokenize unesc text = (its, g) ->
  gs_status g = Rejected -> exists pre post, text = pre ++ 60 :: 33 :: 91 :: post.
Proof. exact tokenize_rejected. Qed.
Print Assumptions C18_tok_rejects_only_marked_sections.

(* ---- positions: the model accumulates updatepos slice by slice as _markupbase does ... ---- *)
Theorem C18_tok_pos_accumulated : forall unesc text its g, tokenize unesc text = (its, g) ->
  map it_pos its = running start_pos (map it_span its).
Proof. exact tok_pos_accumulated. Qed.
Print Assumptions C18_tok_pos_accumulated.
(* ... and what every callback sees as getpos() is the line / column of its slice's offset in the text *)
Theorem C18_tok_pos_true : forall unesc text its g, tokenize unesc text = (its, g) ->
  map it_pos its = map (true_pos text) (map it_off its).
Proof. exact tok_pos_true. Qed.
Print Assumptions C18_tok_pos_true.

(* ---- start tags: a start-tag callback is fired only for a slice that begins with '<' and a letter, under the
   lower-cased maximal run of name characters that follows the '<' ---- *)
Theorem C18_tok_start_at : forall unesc text its g, tokenize unesc text = (its, g) ->
  Forall (fun it => forall e n, In e (it_evs it) -> ev_start_name e = Some n ->
                    start_at (skipn (it_off it) text) n) its.
Proof. exact tokenize_starts. Qed.
Print Assumptions C18_tok_start_at.
Theorem C18_tok_start_text : forall r n, start_at r n ->
  exists nm rest, r = 60 :: nm ++ rest /\ n = ascii_lower nm /\ forallb name_char nm = true /\
                  (exists d nm', nm = d :: nm' /\ is_alpha d = true) /\
                  match rest with [] => True | c :: _ => name_char c = false end.
Proof. exact start_at_text. Qed.
Print Assumptions C18_tok_start_text.

(* ---- every callback the tokenizer fires returns (numeric references are in int()'s grammar) ---- *)
Theorem C18_tok_callbacks_return : forall unesc text, callbacks_return (callbacks unesc text) = true.
Proof. exact tokenize_callbacks_return. Qed.
Print Assumptions C18_tok_callbacks_return.

(* ---- C18 at the level of the text, for EVERY text and configuration: run the tokenizer model and hand its callbacks
   to the adapter; every callback returns; the tags created carry, in order, exactly (name, line / column of the
   offset of the start tag's '<') — or None with store_line_numbers=False —; at each of those offsets the text has
   '<' followed by the name (up to ASCII case); and the offsets strictly increase. ---- *)
Theorem C18_string_level : forall unesc cfg text,
  let its := fst (tokenize unesc text) in
  exists o ac', adapter_run cfg [] (hevs_of_items its) = (o, ac', true) /\
  tag_positions o =
    map (fun no => (fst no, if a_store cfg then Some (true_pos text (snd no)) else None)) (tok_starts its) /\
  (forall n off, In (n, off) (tok_starts its) ->
     nth_error text off = Some 60 /\ start_at (skipn off text) n) /\
  StronglySorted lt (map snd (tok_starts its)).
Proof. exact string_level. Qed.
Print Assumptions C18_string_level.

Example C18_tok_example :
  map (fun it => (it_off it, it_pos it, it_evs it))
      (fst (tokenize (fun v => v) [60; 97; 62; 10; 10; 32; 60; 66; 47; 62])) =
  [(0%nat, (1, 0), [TStart [97] []]); (3%nat, (1, 3), [TData [10; 10; 32]]); (6%nat, (3, 1), [TStartEnd [98] []])].
Proof. vm_compute. reflexivity. Qed.

Example C18_example :
  true_pos [60; 97; 62; 10; 10; 32; 60; 98; 62] 6 = (3, 1).
Proof. reflexivity. Qed.
