(* C18 — sourceline / sourcepos give each tag's true position.  Property theorems only.

   Reading.  [true_pos text off] is the property's notion (1-based line, 0-based column, lines end
   at '\n').  The repository's part is thin: handle_starttag hands getpos() on, or None.  Where
   getpos() points when the callback fires is the standard library's business; [updatepos] mirrors
   its bookkeeping so that "positions do not drift" is a theorem about that bookkeeping, and the
   harness compares it with the recorded token slices. *)
From Coq Require Import List NArith Arith Bool.
From BS Require Import Base.Sexp Model.Build Model.Adapter Model.Pos Proofs.PosProofs.
Import ListNotations.
Open Scope N_scope.

(* line = 1 + newlines before the offset; column = characters after the last of them *)
Theorem C18_position_spec : forall s, pos_after s = (1 + count_nl s, tail_len s).
Proof. exact pos_after_spec. Qed.
Print Assumptions C18_position_spec.
Theorem C18_column_after_newline : forall a b, count_nl b = 0 -> tail_len (a ++ nl :: b) = N.of_nat (length b).
Proof. exact tail_len_after_nl. Qed.
Print Assumptions C18_column_after_newline.
Theorem C18_column_first_line : forall s, count_nl s = 0 -> tail_len s = N.of_nat (length s).
Proof. exact tail_len_no_nl. Qed.
Print Assumptions C18_column_first_line.

(* the standard library's update (count newlines, find the last one) is the character-by-character
   reading, for every slice from every position *)
Theorem C18_updatepos_exact : forall p tok, updatepos p tok = scan p tok.
Proof. exact updatepos_scan. Qed.
Print Assumptions C18_updatepos_exact.

(* positions do not drift: tracking token by token (multi-line text, comments, CDATA, references,
   tags — any slicing at all) gives, before every token, the true position of its offset *)
Theorem C18_linecol_compositional : forall toks,
  running start_pos toks = map (true_pos (concat toks)) (offsets 0 toks).
Proof. exact running_true. Qed.
Print Assumptions C18_linecol_compositional.

(* the adapter hands the position of each start-tag callback to exactly the tag it creates, in order *)
Theorem C18_pos_pass_through : forall cfg hs ac o ac',
  adapter_run cfg ac hs = (o, ac', true) ->
  tag_positions o = map (stored cfg) (start_events hs).
Proof. exact (pos_pass_through false). Qed.
Print Assumptions C18_pos_pass_through.

Theorem C18_pos_enabled_all_some : forall cfg, a_store cfg = true ->
  forall hs ac o ac', adapter_run cfg ac hs = (o, ac', true) ->
  tag_positions o = map (fun np => (fst np, Some (snd np))) (start_events hs).
Proof. exact (pos_enabled_all_some false). Qed.
Print Assumptions C18_pos_enabled_all_some.

(* store_line_numbers=False: None for every tag, for every callback stream *)
Theorem C18_pos_disabled_all_none : forall cfg, a_store cfg = false ->
  forall hs ac, Forall (fun np => snd np = None) (tag_positions (fst (fst (adapter_run cfg ac hs)))).
Proof. exact (pos_disabled_all_none false). Qed.
Print Assumptions C18_pos_disabled_all_none.

(* the hypothesis "every callback returned" is exactly "no numeric reference int() rejects" *)
Theorem C18_run_ok_iff : forall cfg hs ac, snd (adapter_run cfg ac hs) = callbacks_return hs.
Proof. exact (run_ok_iff false). Qed.
Print Assumptions C18_run_ok_iff.

(* together: a tokenizer that fires its callbacks at token boundaries with the position it tracked
   gives the adapter exactly the true positions of those boundaries *)
Theorem C18_positions_true : forall cfg (toks : list ptoken),
  let slices := map fst toks in
  let text := concat slices in
  adapter_run cfg [] (fire (running start_pos slices) toks) =
  adapter_run cfg [] (fire (map (true_pos text) (offsets 0 slices)) toks).
Proof. exact positions_true. Qed.
Print Assumptions C18_positions_true.

Example C18_example :
  true_pos [60; 97; 62; 10; 10; 32; 60; 98; 62] 6 = (3, 1).
Proof. reflexivity. Qed.
