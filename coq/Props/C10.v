(* C10 — Searches return exactly the matches of their axis; find = first, limit = prefix.

   Property theorems only.  Model/Search.v follows bs4/filter.py and PageElement._find_all (after
   this property's five fix: commits); Spec/SearchSpec.v states the documented meaning of the
   criteria directly.  Everything is universally quantified over the heap [h], the side table of
   prefixes / attributes [xm], the semantics of regular expressions [pat_sem] and of user functions
   [fun_sem], the axis list, the fuel and the query; [query_ok] (every criterion that is given has a
   usable item, no attribute is constrained twice, a non-dict attrs is truthy) and [name_wf]
   (namespace prefixes as in XML) delimit the domain — the two _refuted statements show that each is
   needed.  The CSS clause of the property is not provable here (soupsieve is third-party): it is
   checked differentially by the harness. *)
From Coq Require Import List NArith ZArith Bool Arith.
From BS Require Import Base.Sexp Base.Types Model.Heap Model.Iter Model.Attrs Model.Search
                       Spec.Tree Spec.SearchSpec Proofs.Views Proofs.EditRep Proofs.SearchProofs Proofs.SearchAxes Proofs.SearchHistories Spec.CssSpec Proofs.CssProofs
                       Model.Edit Model.EditOps Model.Build.
Import ListNotations.
Local Open Scope nat_scope.

(* _find_all — both fast paths and the SoupStrainer path — returns, in the order of the list it is
   given, exactly the elements that satisfy the documented meaning of the criteria, cut to the
   limit (None and 0: no limit).  In particular: no criteria = every tag. *)
Theorem C10_find_all_refines_spec : forall pat_sem fun_sem h xm fuel q L,
  query_ok q = true -> Forall (fun x => name_wf h xm x = true) L ->
  fst (find_all_m pat_sem fun_sem h xm fuel q L) = find_all_spec pat_sem fun_sem h xm fuel q L.
Proof. exact find_all_refines. Qed.
Print Assumptions C10_find_all_refines_spec.

(* limit=k returns the first k of the unlimited result *)
Theorem C10_limit_prefix : forall pat_sem fun_sem h xm fuel q L k,
  query_ok q = true -> Forall (fun x => name_wf h xm x = true) L ->
  fst (find_all_m pat_sem fun_sem h xm fuel (with_limit q (Some (S k))) L) =
  firstn (S k) (fst (find_all_m pat_sem fun_sem h xm fuel (with_limit q None) L)).
Proof. exact limit_prefix. Qed.
Print Assumptions C10_limit_prefix.

Theorem C10_limit_zero_is_no_limit : forall pat_sem fun_sem h xm fuel q L,
  query_ok q = true -> Forall (fun x => name_wf h xm x = true) L ->
  fst (find_all_m pat_sem fun_sem h xm fuel (with_limit q (Some 0)) L) =
  fst (find_all_m pat_sem fun_sem h xm fuel (with_limit q None) L).
Proof. exact limit_zero_unlimited. Qed.
Print Assumptions C10_limit_zero_is_no_limit.

(* the singular method returns the first element of the plural result, or None *)
Theorem C10_find_is_first : forall pat_sem fun_sem h xm fuel q L,
  query_ok q = true -> Forall (fun x => name_wf h xm x = true) L ->
  fst (find_one_m pat_sem fun_sem h xm fuel q L) =
  hd_error (filter (matches_spec pat_sem fun_sem h xm fuel q) L).
Proof. exact find_is_head. Qed.
Print Assumptions C10_find_is_first.

(* ---- the seven families on a heap that represents a tree (C01's rep1): each iterates the view of
   its axis, so plural = documented filter of that view, singular = its head ---- *)
Theorem C10_descendants_family : forall pat_sem fun_sem h xm T linked fuel,
  rep1 h T linked -> length (pre T) <= fuel -> all_names_wf h xm ->
  forall t q, In t (subterms T) -> query_ok q = true ->
  fst (find_all_method pat_sem fun_sem h xm fuel AxDescendants (rid t) q) =
    find_all_spec pat_sem fun_sem h xm fuel q (tl (pre t)) /\
  fst (find_method pat_sem fun_sem h xm fuel AxDescendants (rid t) q) =
    hd_error (filter (matches_spec pat_sem fun_sem h xm fuel q) (tl (pre t))).
Proof. exact descendants_family. Qed.
Print Assumptions C10_descendants_family.

Theorem C10_children_family : forall pat_sem fun_sem h xm T linked fuel,
  rep1 h T linked -> all_names_wf h xm ->
  forall t q, In t (subterms T) -> query_ok q = true ->
  fst (find_all_method pat_sem fun_sem h xm fuel AxChildren (rid t) q) =
    find_all_spec pat_sem fun_sem h xm fuel q (map rid (tkids t)) /\
  fst (find_method pat_sem fun_sem h xm fuel AxChildren (rid t) q) =
    hd_error (filter (matches_spec pat_sem fun_sem h xm fuel q) (map rid (tkids t))).
Proof. exact children_family. Qed.
Print Assumptions C10_children_family.

Theorem C10_next_family : forall pat_sem fun_sem h xm T linked fuel,
  rep1 h T linked -> length (pre T) <= fuel -> all_names_wf h xm ->
  forall i x q, nth_error (echain_of T linked) i = Some x -> query_ok q = true ->
  fst (find_all_method pat_sem fun_sem h xm fuel AxNext x q) =
    find_all_spec pat_sem fun_sem h xm fuel q (skipn (S i) (echain_of T linked)) /\
  fst (find_method pat_sem fun_sem h xm fuel AxNext x q) =
    hd_error (filter (matches_spec pat_sem fun_sem h xm fuel q) (skipn (S i) (echain_of T linked))).
Proof. exact next_family. Qed.
Print Assumptions C10_next_family.

Theorem C10_previous_family : forall pat_sem fun_sem h xm T linked fuel,
  rep1 h T linked -> length (pre T) <= fuel -> all_names_wf h xm ->
  forall i x q, nth_error (echain_of T linked) i = Some x -> query_ok q = true ->
  fst (find_all_method pat_sem fun_sem h xm fuel AxPrevious x q) =
    find_all_spec pat_sem fun_sem h xm fuel q (rev (firstn i (echain_of T linked))) /\
  fst (find_method pat_sem fun_sem h xm fuel AxPrevious x q) =
    hd_error (filter (matches_spec pat_sem fun_sem h xm fuel q) (rev (firstn i (echain_of T linked)))).
Proof. exact previous_family. Qed.
Print Assumptions C10_previous_family.

Theorem C10_next_siblings_family : forall pat_sem fun_sem h xm T linked fuel,
  rep1 h T linked -> length (pre T) <= fuel -> all_names_wf h xm ->
  forall t j c q, In t (subterms T) -> nth_error (map rid (tkids t)) j = Some c -> query_ok q = true ->
  fst (find_all_method pat_sem fun_sem h xm fuel AxNextSiblings c q) =
    find_all_spec pat_sem fun_sem h xm fuel q (skipn (S j) (map rid (tkids t))) /\
  fst (find_method pat_sem fun_sem h xm fuel AxNextSiblings c q) =
    hd_error (filter (matches_spec pat_sem fun_sem h xm fuel q) (skipn (S j) (map rid (tkids t)))).
Proof. exact next_siblings_family. Qed.
Print Assumptions C10_next_siblings_family.

Theorem C10_previous_siblings_family : forall pat_sem fun_sem h xm T linked fuel,
  rep1 h T linked -> length (pre T) <= fuel -> all_names_wf h xm ->
  forall t j c q, In t (subterms T) -> nth_error (map rid (tkids t)) j = Some c -> query_ok q = true ->
  fst (find_all_method pat_sem fun_sem h xm fuel AxPreviousSiblings c q) =
    find_all_spec pat_sem fun_sem h xm fuel q (rev (firstn j (map rid (tkids t)))) /\
  fst (find_method pat_sem fun_sem h xm fuel AxPreviousSiblings c q) =
    hd_error (filter (matches_spec pat_sem fun_sem h xm fuel q) (rev (firstn j (map rid (tkids t))))).
Proof. exact previous_siblings_family. Qed.
Print Assumptions C10_previous_siblings_family.

Theorem C10_parents_family : forall pat_sem fun_sem h xm T linked fuel,
  rep1 h T linked -> length (pre T) <= fuel -> all_names_wf h xm ->
  forall x anc q, path_to x T = Some anc -> query_ok (method_query AxParents q) = true ->
  fst (find_all_method pat_sem fun_sem h xm fuel AxParents x q) =
    find_all_spec pat_sem fun_sem h xm fuel (method_query AxParents q) (rev anc) /\
  fst (find_method pat_sem fun_sem h xm fuel AxParents x q) =
    hd_error (filter (matches_spec pat_sem fun_sem h xm fuel (method_query AxParents q)) (rev anc)).
Proof. exact parents_family. Qed.
Print Assumptions C10_parents_family.


(* ---- end to end, in the property's own quantifier: parse ANY event list under ANY builder configuration, apply
   ANY finite history of editing calls (C01: the state is then a consistent forest), take ANY live element x, any
   side table of prefixes / attributes with XML-style names, any of the seven families a, any query of the domain:
   there is a tree T of the forest with rep1 that contains x; the axis V of x (tree_axis: read off T's pre-order,
   child lists and ancestor path; [] for the siblings of a root and for the neighbours of a document root that
   stands outside the element chain) is what the family iterates, the plural method returns
   take_limit (filter matches_spec V) and the singular method its head — with the fuel of the extracted model ---- *)
Theorem C10_after_any_parse_and_history : forall pat_sem fun_sem xm cfg evs ops x,
  let s := run_history (b_st (feed cfg evs)) ops in
  live s x -> all_names_wf (hp s) xm ->
  exists T b, rep1 (hp s) T b /\ In x (pre T) /\
    forall a, exists V, tree_axis T b x a V /\
      forall q, query_ok (method_query a q) = true ->
        fst (find_all_method pat_sem fun_sem (hp s) xm (fuel_of s) a x q) =
          find_all_spec pat_sem fun_sem (hp s) xm (fuel_of s) (method_query a q) V /\
        fst (find_method pat_sem fun_sem (hp s) xm (fuel_of s) a x q) =
          hd_error (filter (matches_spec pat_sem fun_sem (hp s) xm (fuel_of s) (method_query a q)) V).
Proof. exact search_after_parse_and_history. Qed.
Print Assumptions C10_after_any_parse_and_history.

(* ---- calling a tag, and tag.name ---- *)
Theorem C10_call_is_find_all : forall pat_sem fun_sem h xm fuel x recursive q,
  call_m pat_sem fun_sem h xm fuel x recursive q =
  find_all_method pat_sem fun_sem h xm fuel (if recursive then AxDescendants else AxChildren) x q.
Proof. exact call_is_find_all. Qed.
Print Assumptions C10_call_is_find_all.

Theorem C10_getattr_is_find : forall pat_sem fun_sem h xm fuel x name,
  (Nat.ltb 3 (length name) && ends_with lit_Tag name) = false ->
  starts_with [95; 95]%N name = false -> str_eqb name lit_contents = false ->
  getattr_m pat_sem fun_sem h xm fuel x name =
  Some (find_method pat_sem fun_sem h xm fuel AxDescendants x (name_query name)).
Proof. exact getattr_is_find. Qed.
Print Assumptions C10_getattr_is_find.

(* ---- a function given as the name criterion is called exactly once per candidate tag, in axis
   order, with the Tag itself — whatever other criteria accompany it; with a limit (and for the
   singular methods) the same holds for the prefix of the axis that was examined ---- *)
Theorem C10_name_function_called_once_with_tag : forall pat_sem fun_sem h xm fuel q L f,
  q_name q = COne (AtFun f) -> limit_falsy (q_limit q) = true ->
  name_calls (snd (find_all_m pat_sem fun_sem h xm fuel q L)) =
  map (fun y => (SName, f, ArgEl y)) (filter (is_tag h) L).
Proof. exact fun_called_once_with_tag. Qed.
Print Assumptions C10_name_function_called_once_with_tag.

Theorem C10_name_function_called_once_prefix : forall pat_sem fun_sem h xm fuel q L f,
  q_name q = COne (AtFun f) -> exists m,
  name_calls (snd (find_all_m pat_sem fun_sem h xm fuel q L)) =
  map (fun y => (SName, f, ArgEl y)) (filter (is_tag h) (firstn m L)).
Proof. exact fun_called_once_prefix. Qed.
Print Assumptions C10_name_function_called_once_prefix.


(* ---- the CSS clause ----
   Spec/CssSpec.v specifies select() on the selector subset both sides express (type, .class, #id, [attr],
   [attr=v], compounds, descendant and child combinators, selector lists): css_matches / select_spec.  On that
   subset, for every heap, side table, scope element and selector of the domain (class names are identifiers, no
   attribute twice in a compound; trees without prefixes, class stored as a token list, "="-compared attributes
   as one string), select() IS a composition of find_all-style calls of the model: the rightmost compound is one
   find_all, "A > B" keeps the x whose find_parent(A) is its find_parent(), "A B" those for which find_parents(A)
   contains a suitable element, a list is the document-order union.  soupsieve itself is third-party and
   trusted; css_matches is tied to it by correspondence (harness), not by proof. *)
Theorem C10_css_select_is_find_all : forall pat_sem fun_sem h xm fuel sel e,
  selector_ok sel = true -> css_domain sel xm ->
  select_spec h xm fuel sel e = select_fa pat_sem fun_sem h xm fuel sel e.
Proof. exact select_is_find_all. Qed.
Print Assumptions C10_css_select_is_find_all.

Theorem C10_css_select_one_is_first : forall pat_sem fun_sem h xm fuel sel e,
  selector_ok sel = true -> css_domain sel xm ->
  select_one_spec h xm fuel sel e = hd_error (select_fa pat_sem fun_sem h xm fuel sel e).
Proof. exact select_one_is_find_all. Qed.
Print Assumptions C10_css_select_one_is_first.

(* the selector domain is inhabited: div.x > a#k[href], b  on a tree whose elements carry class lists *)
Theorem C10_css_domain_inhabited :
  let sel := [mkcx (mkcomp (Some (lit_a)) [CId [107]%N; CAttr [104; 114; 101; 102]%N])
                   [(Child, mkcomp (Some [100; 105; 118]%N) [CClass [120]%N])];
              mkcx (mkcomp (Some lit_b) []) []] in
  selector_ok sel = true /\ css_domain sel (fun _ => mkx None [(lit_class, AvList [[120]%N]); (lit_id, AvStr [107]%N)]).
Proof. exact css_domain_example. Qed.
Print Assumptions C10_css_domain_inhabited.

(* ---- the boundary of the domain ---- *)

(* OPEN FINDING C10-unusable-list-criterion: without "every given criterion is usable" the
   refinement is false of the code — find_all("a", id=[]) returns every <a> *)
Theorem C10_unusable_list_refuted :
  exists q L,
    Forall (fun x => name_wf w_heap w_xm x = true) L /\
    fst (find_all_m no_pat no_fun w_heap w_xm 5 q L) <> find_all_spec no_pat no_fun w_heap w_xm 5 q L.
Proof. exact unusable_list_refuted. Qed.
Print Assumptions C10_unusable_list_refuted.

(* without [name_wf] the plain-name path and the general path disagree (empty-string prefix) *)
Theorem C10_odd_prefix_refuted :
  exists q L,
    query_ok q = true /\
    fst (find_all_m no_pat no_fun w_heap w_xm_odd 5 q L) <> find_all_spec no_pat no_fun w_heap w_xm_odd 5 q L /\
    fst (find_all_m no_pat no_fun w_heap w_xm_odd 5 (with_limit q (Some 1)) L) = find_all_spec no_pat no_fun w_heap w_xm_odd 5 q L.
Proof. exact odd_prefix_refuted. Qed.
Print Assumptions C10_odd_prefix_refuted.

(* the hypotheses are satisfiable *)
Theorem C10_domain_inhabited :
  query_ok (mkq (CList [AtStr lit_a; AtNone; AtPat 0]) (AttrsOther (COne (AtStr lit_b)) true) (COne (AtBool true))
                [(lit_id, COne AtNone); ([114; 101; 108]%N, CList [AtFun 1; AtStr lit_a])] (Some 2)) = true /\
  (forall x, name_wf w_heap w_xm x = true).
Proof. exact domain_inhabited. Qed.
Print Assumptions C10_domain_inhabited.
