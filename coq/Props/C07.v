(* C07 — Encoding detection follows the documented precedence and decodes exactly.
   Property theorems only. They are about Model/Dammit.v (EncodingDetector.strip_byte_order_mark /
   _usable / encodings, UnicodeDammit.__init__ / _convert_from / find_codec / declared_html_encoding,
   HTMLParserTreeBuilder.prepare_markup), whose constants and control-flow shape (the BOM if-chain,
   the order of the generator's stages, the last-resort tuple, the name skipped in the replace pass,
   CHARSET_ALIASES) are regenerated from /repo's source into Gen/T_C07.v on every run.

   Every theorem quantifies over ALL byte strings / names / argument lists and over ALL behaviours of
   the external functions: lower (str.lower), known (codecs.lookup succeeds), decode (str(bytes, codec,
   errors)), sniff (find_declared_encoding: the two regexes), chardet.  Nothing is assumed of them. *)
From Coq Require Import List NArith Bool Arith.
From BS Require Import Base.Sexp Base.Types Gen.T_C07 Model.Dammit Spec.DammitSpec Proofs.DammitProofs.
Import ListNotations.
Open Scope N_scope.

(* ================= table obligations (re-checked against the source on every run) ================= *)

(* the five documented byte-order marks, their guards, names and lengths, in the code's order *)
Theorem C07_bom_rules_documented :
  bom_rules =
  [ (4%nat, (2%nat, [254; 255]), Some (2%nat, 4%nat, [0; 0]), n_utf16be, 2%nat);
    (4%nat, (2%nat, [255; 254]), Some (2%nat, 4%nat, [0; 0]), n_utf16le, 2%nat);
    (0%nat, (3%nat, [239; 187; 191]), None, n_utf8, 3%nat);
    (0%nat, (4%nat, [0; 0; 254; 255]), None, n_utf32be, 4%nat);
    (0%nat, (4%nat, [255; 254; 0; 0]), None, n_utf32le, 4%nat) ].
Proof. reflexivity. Qed.
Print Assumptions C07_bom_rules_documented.

(* known definite, byte-order mark, user, declared, (chardet,) then the constant tuple *)
Theorem C07_stage_order_documented : encodings_stage_order = [0; 1; 2; 3; 4; 5].
Proof. reflexivity. Qed.
Print Assumptions C07_stage_order_documented.

(* the last resorts are exactly UTF-8 then Windows-1252; the replace pass skips exactly "ascii" *)
Theorem C07_last_resort_documented :
  last_ditch_encodings = [n_utf8; n_windows1252] /\ replace_pass_skips = n_ascii.
Proof. split; reflexivity. Qed.
Print Assumptions C07_last_resort_documented.

(* CHARSET_ALIASES: no empty key or target, and the interpreter knows every target *)
Theorem C07_charset_aliases_wellformed :
  forallb (fun kv => negb (is_empty (fst kv)) && negb (is_empty (snd kv))) charset_aliases = true /\
  forallb (fun kv => snd kv) charset_alias_target_known = true /\
  map snd charset_aliases = map fst charset_alias_target_known.
Proof. exact charset_aliases_wellformed. Qed.
Print Assumptions C07_charset_aliases_wellformed.

(* ================= byte-order marks: for every byte string ================= *)

(* a marked string loses exactly its mark and yields the mark's encoding *)
Theorem C07_strip_bom_marked : forall d rest name,
  marked d rest name -> strip_bom d = (rest, Some name).
Proof. exact strip_bom_marked. Qed.
Print Assumptions C07_strip_bom_marked.

(* an unmarked string is returned untouched, with no encoding *)
Theorem C07_strip_bom_unmarked : forall d,
  (forall rest name, ~ marked d rest name) -> strip_bom d = (d, None).
Proof. exact strip_bom_unmarked. Qed.
Print Assumptions C07_strip_bom_unmarked.

(* and those are the only two things that happen *)
Theorem C07_strip_bom_total : forall d, bom_spec d (fst (strip_bom d)) (snd (strip_bom d)).
Proof. exact strip_bom_total. Qed.
Print Assumptions C07_strip_bom_total.

Theorem C07_marked_is_prefix : forall d rest name, marked d rest name ->
  exists mark, d = mark ++ rest /\
    In (mark, name) [([254; 255], n_utf16be); ([255; 254], n_utf16le); ([239; 187; 191], n_utf8);
                     ([0; 0; 254; 255], n_utf32be); ([255; 254; 0; 0], n_utf32le)].
Proof. exact marked_prefix. Qed.
Print Assumptions C07_marked_is_prefix.

Example C07_marked_satisfiable :
  marked [239; 187; 191; 104; 105] [104; 105] n_utf8 /\
  marked [255; 254; 104; 0] [104; 0] n_utf16le /\
  marked [255; 254; 0; 0; 104; 0; 0; 0] [104; 0; 0; 0] n_utf32le /\
  (forall r n, ~ marked [254; 255; 0; 0; 65] r n) /\ (forall r n, ~ marked [255; 254; 65] r n).
Proof.
  repeat split; try (constructor; cbn; auto; discriminate);
    intros r n H; inversion H; subst; cbn in *; try congruence;
    repeat match goal with H : (_ <= _)%nat |- _ => apply Nat.leb_le in H; cbn in H; discriminate end.
Qed.

(* ================= the candidate list: for all argument lists, marks, declarations ================= *)

(* EncodingDetector.encodings is the documented order, minus excluded names, each name once
   (both case-insensitively) *)
Theorem C07_candidates_spec : forall lower sniff chardet m a,
  encodings lower sniff chardet m a =
  spec_candidates lower (a_exclude a)
    (documented_order (a_known a ++ a_override a) (det_sniffed m) (a_user a)
                      (det_declared sniff m a) (chardet (det_markup m))).
Proof. exact encodings_spec. Qed.
Print Assumptions C07_candidates_spec.

(* what that specification means: in the documented order ... *)
Theorem C07_candidates_in_order : forall lower excl order,
  subseq (spec_candidates lower excl order) order.
Proof. exact candidates_subseq. Qed.
Print Assumptions C07_candidates_in_order.

(* ... each name at most once ... *)
Theorem C07_candidates_tried_once : forall lower excl order,
  NoDup (map lower (spec_candidates lower excl order)).
Proof. exact candidates_once. Qed.
Print Assumptions C07_candidates_tried_once.

(* ... never an excluded one ... *)
Theorem C07_candidates_never_excluded : forall lower excl order c,
  In c (spec_candidates lower excl order) -> excluded lower excl c = false /\ In c order.
Proof. exact candidates_not_excluded. Qed.
Print Assumptions C07_candidates_never_excluded.

(* ... and nothing else is dropped: every offered, non-excluded name is represented, and the first
   occurrence of a name is the candidate itself, preceded only by earlier offers *)
Theorem C07_candidates_complete : forall lower excl order x,
  In x order -> excluded lower excl x = false ->
  exists c, In c (spec_candidates lower excl order) /\ lower c = lower x.
Proof. exact candidates_represent. Qed.
Print Assumptions C07_candidates_complete.

Theorem C07_candidates_first_occurrence : forall lower excl l1 x l2,
  excluded lower excl x = false -> (forall y, In y l1 -> lower y <> lower x) ->
  exists c1 c2, spec_candidates lower excl (l1 ++ x :: l2) = c1 ++ x :: c2 /\
                (forall y, In y c1 -> In y l1 /\ excluded lower excl y = false).
Proof. exact candidates_first. Qed.
Print Assumptions C07_candidates_first_occurrence.

(* ================= the result: for every non-empty byte string and every configuration ================= *)

(* (unicode_markup, original_encoding, contains_replacement_characters) is: the first candidate
   under which the BOM-stripped bytes decode strictly; failing that, the first non-"ascii" candidate
   under which they decode with replacement, flag set; failing that, nothing *)
Theorem C07_outcome_spec : forall lower known decode sniff chardet b a,
  b <> [] ->
  outcome (dammit lower known decode sniff chardet (MBytes b) a) =
  spec_outcome (find_codec lower known) decode (fst (strip_bom b))
               (encodings lower sniff chardet (MBytes b) a).
Proof. exact dammit_outcome. Qed.
Print Assumptions C07_outcome_spec.

Theorem C07_chosen_first_decodable : forall lower known decode sniff chardet b a l1 c l2 u k,
  b <> [] ->
  encodings lower sniff chardet (MBytes b) a = l1 ++ c :: l2 ->
  (forall x, In x l1 -> attempt (find_codec lower known) decode (fst (strip_bom b)) Strict x = None) ->
  attempt (find_codec lower known) decode (fst (strip_bom b)) Strict c = Some (u, k) ->
  outcome (dammit lower known decode sniff chardet (MBytes b) a) = (Some u, Some k, false).
Proof. exact chosen_first_decodable. Qed.
Print Assumptions C07_chosen_first_decodable.

Theorem C07_clean_result_is_first_decodable : forall lower known decode sniff chardet b a u,
  b <> [] ->
  r_text (dammit lower known decode sniff chardet (MBytes b) a) = Some u ->
  r_flag (dammit lower known decode sniff chardet (MBytes b) a) = false ->
  exists l1 c l2 k,
    encodings lower sniff chardet (MBytes b) a = l1 ++ c :: l2 /\
    (forall x, In x l1 -> attempt (find_codec lower known) decode (fst (strip_bom b)) Strict x = None) /\
    find_codec lower known c = Some k /\ decode (fst (strip_bom b)) k Strict = Some u /\
    r_orig (dammit lower known decode sniff chardet (MBytes b) a) = Some k.
Proof. exact clean_result_inv. Qed.
Print Assumptions C07_clean_result_is_first_decodable.

(* precedence over the documented order itself (known definite, BOM, user, declared, [chardet],
   utf-8, windows-1252): the first entry, not excluded and first of its name, under which the bytes
   decode is used *)
Theorem C07_precedence_documented_order : forall lower known decode sniff chardet b a l1 x l2 u k,
  b <> [] ->
  documented_order (a_known a ++ a_override a) (snd (strip_bom b)) (a_user a)
                   (sniff (MBytes (fst (strip_bom b))) (a_is_html a))
                   (chardet (MBytes (fst (strip_bom b)))) = l1 ++ x :: l2 ->
  excluded lower (a_exclude a) x = false ->
  (forall y, In y l1 -> lower y <> lower x) ->
  (forall y, In y l1 -> excluded lower (a_exclude a) y = false ->
             attempt (find_codec lower known) decode (fst (strip_bom b)) Strict y = None) ->
  attempt (find_codec lower known) decode (fst (strip_bom b)) Strict x = Some (u, k) ->
  outcome (dammit lower known decode sniff chardet (MBytes b) a) = (Some u, Some k, false).
Proof. exact precedence_documented_order. Qed.
Print Assumptions C07_precedence_documented_order.

(* the text is exactly the decoding of the bytes without their byte-order mark under the codec that
   original_encoding names *)
Theorem C07_text_is_decoding : forall lower known decode sniff chardet b a u,
  b <> [] -> r_text (dammit lower known decode sniff chardet (MBytes b) a) = Some u ->
  exists k, r_orig (dammit lower known decode sniff chardet (MBytes b) a) = Some k /\
    decode (fst (strip_bom b)) k
           (if r_flag (dammit lower known decode sniff chardet (MBytes b) a) then Replace else Strict) = Some u.
Proof. exact text_is_decoding. Qed.
Print Assumptions C07_text_is_decoding.

(* contains_replacement_characters is true exactly when no candidate decoded cleanly and one
   (other than "ascii") decoded with replacement characters *)
Theorem C07_replacement_flag_iff : forall lower known decode sniff chardet b a,
  b <> [] ->
  (r_flag (dammit lower known decode sniff chardet (MBytes b) a) = true <->
   (forall c, In c (encodings lower sniff chardet (MBytes b) a) ->
              attempt (find_codec lower known) decode (fst (strip_bom b)) Strict c = None) /\
   (exists c, In c (encodings lower sniff chardet (MBytes b) a) /\ c <> n_ascii /\
              attempt (find_codec lower known) decode (fst (strip_bom b)) Replace c <> None)).
Proof. exact replacement_flag_iff. Qed.
Print Assumptions C07_replacement_flag_iff.

Theorem C07_no_text_iff : forall lower known decode sniff chardet b a,
  b <> [] ->
  (r_text (dammit lower known decode sniff chardet (MBytes b) a) = None <->
   (forall c, In c (encodings lower sniff chardet (MBytes b) a) ->
              attempt (find_codec lower known) decode (fst (strip_bom b)) Strict c = None) /\
   (forall c, In c (encodings lower sniff chardet (MBytes b) a) -> c <> n_ascii ->
              attempt (find_codec lower known) decode (fst (strip_bom b)) Replace c = None)).
Proof. exact no_text_iff. Qed.
Print Assumptions C07_no_text_iff.

(* valid UTF-8 with no contrary indication (no arguments, no mark or the UTF-8 mark, no declaration
   or a utf-8 declaration, utf-8 not excluded) is decoded as UTF-8 *)
Theorem C07_utf8_default : forall lower known decode sniff chardet b a u k,
  b <> [] ->
  a_known a = [] -> a_override a = [] -> a_user a = [] ->
  chardet (MBytes (fst (strip_bom b))) = None ->
  (snd (strip_bom b) = None \/ snd (strip_bom b) = Some n_utf8) ->
  (sniff (MBytes (fst (strip_bom b))) (a_is_html a) = None \/
   sniff (MBytes (fst (strip_bom b))) (a_is_html a) = Some n_utf8) ->
  excluded lower (a_exclude a) n_utf8 = false ->
  find_codec lower known n_utf8 = Some k -> decode (fst (strip_bom b)) k Strict = Some u ->
  outcome (dammit lower known decode sniff chardet (MBytes b) a) = (Some u, Some k, false).
Proof. exact utf8_default. Qed.
Print Assumptions C07_utf8_default.

(* the hypotheses of the two theorems above are satisfiable: "hi" with an identity lower, a codec
   table knowing only utf-8, which decodes anything to itself *)
Example C07_utf8_default_satisfiable :
  let lower := fun s : str => s in
  let known := fun s => str_eqb s n_utf8 in
  let decode := fun (b k : str) (_ : dmode) => if str_eqb k n_utf8 then Some b else None in
  outcome (dammit lower known decode (fun _ _ => None) (fun _ => None) (MBytes [104; 105])
                  (mkargs [] [] [] [] true))
  = (Some [104; 105], Some n_utf8, false).
Proof. vm_compute. reflexivity. Qed.

(* str input is passed through untouched with original_encoding None; so is the empty bytestring *)
Theorem C07_str_passthrough : forall lower known decode sniff chardet s a,
  outcome (dammit lower known decode sniff chardet (MStr s) a) = (Some s, None, false) /\
  r_markup (dammit lower known decode sniff chardet (MStr s) a) = MStr s /\
  r_tried (dammit lower known decode sniff chardet (MStr s) a) = [].
Proof. exact str_passthrough. Qed.
Print Assumptions C07_str_passthrough.

Theorem C07_empty_bytes : forall lower known decode sniff chardet a,
  outcome (dammit lower known decode sniff chardet (MBytes []) a) = (Some [], None, false) /\
  r_tried (dammit lower known decode sniff chardet (MBytes []) a) = [].
Proof. exact empty_bytes. Qed.
Print Assumptions C07_empty_bytes.

(* declared_html_encoding reports what the document (without its byte-order mark) declares, whichever
   encoding was used; None for non-HTML *)
Theorem C07_declared_reported : forall lower known decode sniff chardet m a,
  r_declared_html (dammit lower known decode sniff chardet m a) =
  if a_is_html a then sniff (fst (strip_byte_order_mark m)) true else None.
Proof. exact declared_reported. Qed.
Print Assumptions C07_declared_reported.

Theorem C07_markup_is_stripped : forall lower known decode sniff chardet b a,
  b <> [] -> r_markup (dammit lower known decode sniff chardet (MBytes b) a) = MBytes (fst (strip_bom b)).
Proof. exact markup_is_stripped. Qed.
Print Assumptions C07_markup_is_stripped.

(* no (codec, error mode) pair is attempted twice *)
Theorem C07_tried_encodings_nodup : forall lower known decode sniff chardet m a,
  NoDup (r_tried (dammit lower known decode sniff chardet m a)).
Proof. exact dammit_tried_nodup. Qed.
Print Assumptions C07_tried_encodings_nodup.

(* ================= the BeautifulSoup constructor's route (prepare_markup) ================= *)
Theorem C07_prepare_markup_str : forall lower known decode sniff chardet s fe excl,
  prepare_markup lower known decode sniff chardet (MStr s) fe excl = Prepared s None None false.
Proof. exact prepare_markup_str. Qed.
Print Assumptions C07_prepare_markup_str.

(* from_encoding becomes the single known definite encoding (none when empty), no user encodings,
   HTML; no text at all is ParserRejectedMarkup *)
Theorem C07_prepare_markup_bytes : forall lower known decode sniff chardet b fe excl,
  prepare_markup lower known decode sniff chardet (MBytes b) fe excl =
  let r := dammit lower known decode sniff chardet (MBytes b) (mkargs (from_encoding_list fe) [] [] excl true) in
  match r_text r with
  | Some t => Prepared t (r_orig r) (sniff (MBytes (fst (strip_bom b))) true) (r_flag r)
  | None => Rejected
  end.
Proof. exact prepare_markup_bytes. Qed.
Print Assumptions C07_prepare_markup_bytes.

Theorem C07_from_encoding_first : forall lower known decode sniff chardet b e excl u k,
  b <> [] -> e <> [] -> excluded lower excl e = false ->
  find_codec lower known e = Some k -> decode (fst (strip_bom b)) k Strict = Some u ->
  prepare_markup lower known decode sniff chardet (MBytes b) (Some e) excl =
  Prepared u (Some k) (sniff (MBytes (fst (strip_bom b))) true) false.
Proof. exact from_encoding_first. Qed.
Print Assumptions C07_from_encoding_first.

(* ================= find_codec ================= *)
Theorem C07_find_codec_none_iff : forall lower known cs, find_codec lower known cs = None <-> cs = [].
Proof. exact find_codec_none_iff. Qed.
Print Assumptions C07_find_codec_none_iff.

Theorem C07_find_codec_value : forall lower known cs,
  cs <> [] ->
  find_codec lower known cs =
  Some (lower (match first_known known [alias_of cs; remove_dashes cs; dashes_to_underscores cs] with
               | Some v => v
               | None => if is_empty (lower cs) then cs else lower cs
               end)).
Proof. exact find_codec_value. Qed.
Print Assumptions C07_find_codec_value.

Theorem C07_find_codec_known : forall lower known cs,
  cs <> [] -> assocS cs charset_aliases = None -> known cs = true ->
  find_codec lower known cs = Some (lower cs).
Proof. exact find_codec_known. Qed.
Print Assumptions C07_find_codec_known.
