(* C07 — Encoding detection follows the documented precedence and decodes exactly.
   Property theorems only. They are about Model/Dammit.v (EncodingDetector.strip_byte_order_mark /
   _usable / encodings, UnicodeDammit.__init__ / _convert_from / find_codec / declared_html_encoding,
   HTMLParserTreeBuilder.prepare_markup), whose constants and control-flow shape (the BOM if-chain,
   the order of the generator's stages, the last-resort tuple, the name skipped in the replace pass,
   CHARSET_ALIASES) are regenerated from /repo's source into Gen/T_C07.v on every run.

   Every theorem quantifies over ALL byte strings / names / argument lists and over ALL behaviours of
   the external functions: lower (str.lower), known (codecs.lookup succeeds), decode (str(bytes, codec,
   errors)), sniff (find_declared_encoding: the two regexes), chardet.  Nothing is assumed of them. *)
From Coq Require Import List NArith Bool Arith.
From BS Require Import Base.Sexp Base.Types Gen.T_C07 Model.Dammit Model.Sniff Spec.DammitSpec Spec.SniffSpec
                       Proofs.DammitProofs Proofs.SniffProofs.
Import ListNotations.
Open Scope N_scope.

(* ================= table obligations (re-checked against the source on every run) ================= *)

(* the five documented byte-order marks, their guards, names and lengths, in the code's order *)
Theorem C07_bom_rules_documented :
  bom_rules =
  [ (4%nat, (2%nat, [254; 255]), Some (2%nat, 4%nat, [0; 0]), n_utf16be, 2%nat);
    (4%nat, (2%nat, [255; 254]), Some (2%nat, 4%nat, [0; 0]), n_utf16le, 2%nat);
    (0%nat, (3%nat, [239; 187; 191]), None, n_utf8, 3%nat);
    (0%nat, (4%nat, [0; 0; 254; 255]), None, n_utf32be, 4%nat);
    (0%nat, (4%nat, [255; 254; 0; 0]), None, n_utf32le, 4%nat) ].
Proof. reflexivity. Qed.
Print Assumptions C07_bom_rules_documented.

(* known definite, byte-order mark, user, declared, (chardet,) then the constant tuple *)
Theorem C07_stage_order_documented : encodings_stage_order = [0; 1; 2; 3; 4; 5].
Proof. reflexivity. Qed.
Print Assumptions C07_stage_order_documented.

(* the last resorts are exactly UTF-8 then Windows-1252; the replace pass skips exactly "ascii" *)
Theorem C07_last_resort_documented :
  last_ditch_encodings = [n_utf8; n_windows1252] /\ replace_pass_skips = n_ascii.
Proof. split; reflexivity. Qed.
Print Assumptions C07_last_resort_documented.

(* CHARSET_ALIASES: no empty key or target, and the interpreter knows every target *)
Theorem C07_charset_aliases_wellformed :
  forallb (fun kv => negb (is_empty (fst kv)) && negb (is_empty (snd kv))) charset_aliases = true /\
  forallb (fun kv => snd kv) charset_alias_target_known = true /\
  map snd charset_aliases = map fst charset_alias_target_known.
Proof. exact charset_aliases_wellformed. Qed.
Print Assumptions C07_charset_aliases_wellformed.

(* ================= byte-order marks: for every byte string ================= *)

(* a marked string loses exactly its mark and yields the mark's encoding *)
Theorem C07_strip_bom_marked : forall d rest name,
  marked d rest name -> strip_bom d = (rest, Some name).
Proof. exact strip_bom_marked. Qed.
Print Assumptions C07_strip_bom_marked.

(* an unmarked string is returned untouched, with no encoding *)
Theorem C07_strip_bom_unmarked : forall d,
  (forall rest name, ~ marked d rest name) -> strip_bom d = (d, None).
Proof. exact strip_bom_unmarked. Qed.
Print Assumptions C07_strip_bom_unmarked.

(* and those are the only two things that happen *)
Theorem C07_strip_bom_total : forall d, bom_spec d (fst (strip_bom d)) (snd (strip_bom d)).
Proof. exact strip_bom_total. Qed.
Print Assumptions C07_strip_bom_total.

Theorem C07_marked_is_prefix : forall d rest name, marked d rest name ->
  exists mark, d = mark ++ rest /\
    In (mark, name) [([254; 255], n_utf16be); ([255; 254], n_utf16le); ([239; 187; 191], n_utf8);
                     ([0; 0; 254; 255], n_utf32be); ([255; 254; 0; 0], n_utf32le)].
Proof. exact marked_prefix. Qed.
Print Assumptions C07_marked_is_prefix.

Example C07_marked_satisfiable :
  marked [239; 187; 191; 104; 105] [104; 105] n_utf8 /\
  marked [255; 254; 104; 0] [104; 0] n_utf16le /\
  marked [255; 254; 0; 0; 104; 0; 0; 0] [104; 0; 0; 0] n_utf32le /\
  (forall r n, ~ marked [254; 255; 0; 0; 65] r n) /\ (forall r n, ~ marked [255; 254; 65] r n).
Proof.
  repeat split; try (constructor; cbn; auto; discriminate);
    intros r n H; inversion H; subst; cbn in *; try congruence;
    repeat match goal with H : (_ <= _)%nat |- _ => apply Nat.leb_le in H; cbn in H; discriminate end.
Qed.

(* ================= the candidate list: for all argument lists, marks, declarations ================= *)

(* EncodingDetector.encodings is the documented order, minus excluded names, each name once
   (both case-insensitively) *)
Theorem C07_candidates_spec : forall lower sniff chardet m a,
  encodings lower sniff chardet m a =
  spec_candidates lower (a_exclude a)
    (documented_order (a_known a ++ a_override a) (det_sniffed m) (a_user a)
                      (det_declared sniff m a) (chardet (det_markup m))).
Proof. exact encodings_spec. Qed.
Print Assumptions C07_candidates_spec.

(* what that specification means: in the documented order ... *)
Theorem C07_candidates_in_order : forall lower excl order,
  subseq (spec_candidates lower excl order) order.
Proof. exact candidates_subseq. Qed.
Print Assumptions C07_candidates_in_order.

(* ... each name at most once ... *)
Theorem C07_candidates_tried_once : forall lower excl order,
  NoDup (map lower (spec_candidates lower excl order)).
Proof. exact candidates_once. Qed.
Print Assumptions C07_candidates_tried_once.

(* ... never an excluded one ... *)
Theorem C07_candidates_never_excluded : forall lower excl order c,
  In c (spec_candidates lower excl order) -> excluded lower excl c = false /\ In c order.
Proof. exact candidates_not_excluded. Qed.
Print Assumptions C07_candidates_never_excluded.

(* ... and nothing else is dropped: every offered, non-excluded name is represented, and the first
   occurrence of a name is the candidate itself, preceded only by earlier offers *)
Theorem C07_candidates_complete : forall lower excl order x,
  In x order -> excluded lower excl x = false ->
  exists c, In c (spec_candidates lower excl order) /\ lower c = lower x.
Proof. exact candidates_represent. Qed.
Print Assumptions C07_candidates_complete.

Theorem C07_candidates_first_occurrence : forall lower excl l1 x l2,
  excluded lower excl x = false -> (forall y, In y l1 -> lower y <> lower x) ->
  exists c1 c2, spec_candidates lower excl (l1 ++ x :: l2) = c1 ++ x :: c2 /\
                (forall y, In y c1 -> In y l1 /\ excluded lower excl y = false).
Proof. exact candidates_first. Qed.
Print Assumptions C07_candidates_first_occurrence.

(* ================= the result: for every non-empty byte string and every configuration ================= *)

(* (unicode_markup, original_encoding, contains_replacement_characters) is: the first candidate
   under which the BOM-stripped bytes decode strictly; failing that, the first non-"ascii" candidate
   under which they decode with replacement, flag set; failing that, nothing *)
Theorem C07_outcome_spec : forall lower known decode sniff chardet b a,
  b <> [] ->
  outcome (dammit lower known decode sniff chardet (MBytes b) a) =
  spec_outcome (find_codec lower known) decode (fst (strip_bom b))
               (encodings lower sniff chardet (MBytes b) a).
Proof. exact dammit_outcome. Qed.
Print Assumptions C07_outcome_spec.

Theorem C07_chosen_first_decodable : forall lower known decode sniff chardet b a l1 c l2 u k,
  b <> [] ->
  encodings lower sniff chardet (MBytes b) a = l1 ++ c :: l2 ->
  (forall x, In x l1 -> attempt (find_codec lower known) decode (fst (strip_bom b)) Strict x = None) ->
  attempt (find_codec lower known) decode (fst (strip_bom b)) Strict c = Some (u, k) ->
  outcome (dammit lower known decode sniff chardet (MBytes b) a) = (Some u, Some k, false).
Proof. exact chosen_first_decodable. Qed.
Print Assumptions C07_chosen_first_decodable.

Theorem C07_clean_result_is_first_decodable : forall lower known decode sniff chardet b a u,
  b <> [] ->
  r_text (dammit lower known decode sniff chardet (MBytes b) a) = Some u ->
  r_flag (dammit lower known decode sniff chardet (MBytes b) a) = false ->
  exists l1 c l2 k,
    encodings lower sniff chardet (MBytes b) a = l1 ++ c :: l2 /\
    (forall x, In x l1 -> attempt (find_codec lower known) decode (fst (strip_bom b)) Strict x = None) /\
    find_codec lower known c = Some k /\ decode (fst (strip_bom b)) k Strict = Some u /\
    r_orig (dammit lower known decode sniff chardet (MBytes b) a) = Some k.
Proof. exact clean_result_inv. Qed.
Print Assumptions C07_clean_result_is_first_decodable.

(* precedence over the documented order itself (known definite, BOM, user, declared, [chardet],
   utf-8, windows-1252): the first entry, not excluded and first of its name, under which the bytes
   decode is used *)
Theorem C07_precedence_documented_order : forall lower known decode sniff chardet b a l1 x l2 u k,
  b <> [] ->
  documented_order (a_known a ++ a_override a) (snd (strip_bom b)) (a_user a)
                   (sniff (MBytes (fst (strip_bom b))) (a_is_html a))
                   (chardet (MBytes (fst (strip_bom b)))) = l1 ++ x :: l2 ->
  excluded lower (a_exclude a) x = false ->
  (forall y, In y l1 -> lower y <> lower x) ->
  (forall y, In y l1 -> excluded lower (a_exclude a) y = false ->
             attempt (find_codec lower known) decode (fst (strip_bom b)) Strict y = None) ->
  attempt (find_codec lower known) decode (fst (strip_bom b)) Strict x = Some (u, k) ->
  outcome (dammit lower known decode sniff chardet (MBytes b) a) = (Some u, Some k, false).
Proof. exact precedence_documented_order. Qed.
Print Assumptions C07_precedence_documented_order.

(* the text is exactly the decoding of the bytes without their byte-order mark under the codec that
   original_encoding names *)
Theorem C07_text_is_decoding : forall lower known decode sniff chardet b a u,
  b <> [] -> r_text (dammit lower known decode sniff chardet (MBytes b) a) = Some u ->
  exists k, r_orig (dammit lower known decode sniff chardet (MBytes b) a) = Some k /\
    decode (fst (strip_bom b)) k
           (if r_flag (dammit lower known decode sniff chardet (MBytes b) a) then Replace else Strict) = Some u.
Proof. exact text_is_decoding. Qed.
Print Assumptions C07_text_is_decoding.

(* contains_replacement_characters is true exactly when no candidate decoded cleanly and one
   (other than "ascii") decoded with replacement characters *)
Theorem C07_replacement_flag_iff : forall lower known decode sniff chardet b a,
  b <> [] ->
  (r_flag (dammit lower known decode sniff chardet (MBytes b) a) = true <->
   (forall c, In c (encodings lower sniff chardet (MBytes b) a) ->
              attempt (find_codec lower known) decode (fst (strip_bom b)) Strict c = None) /\
   (exists c, In c (encodings lower sniff chardet (MBytes b) a) /\ c <> n_ascii /\
              attempt (find_codec lower known) decode (fst (strip_bom b)) Replace c <> None)).
Proof. exact replacement_flag_iff. Qed.
Print Assumptions C07_replacement_flag_iff.

Theorem C07_no_text_iff : forall lower known decode sniff chardet b a,
  b <> [] ->
  (r_text (dammit lower known decode sniff chardet (MBytes b) a) = None <->
   (forall c, In c (encodings lower sniff chardet (MBytes b) a) ->
              attempt (find_codec lower known) decode (fst (strip_bom b)) Strict c = None) /\
   (forall c, In c (encodings lower sniff chardet (MBytes b) a) -> c <> n_ascii ->
              attempt (find_codec lower known) decode (fst (strip_bom b)) Replace c = None)).
Proof. exact no_text_iff. Qed.
Print Assumptions C07_no_text_iff.

(* valid UTF-8 with no contrary indication (no arguments, no mark or the UTF-8 mark, no declaration
   or a utf-8 declaration, utf-8 not excluded) is decoded as UTF-8 *)
Theorem C07_utf8_default : forall lower known decode sniff chardet b a u k,
  b <> [] ->
  a_known a = [] -> a_override a = [] -> a_user a = [] ->
  chardet (MBytes (fst (strip_bom b))) = None ->
  (snd (strip_bom b) = None \/ snd (strip_bom b) = Some n_utf8) ->
  (sniff (MBytes (fst (strip_bom b))) (a_is_html a) = None \/
   sniff (MBytes (fst (strip_bom b))) (a_is_html a) = Some n_utf8) ->
  excluded lower (a_exclude a) n_utf8 = false ->
  find_codec lower known n_utf8 = Some k -> decode (fst (strip_bom b)) k Strict = Some u ->
  outcome (dammit lower known decode sniff chardet (MBytes b) a) = (Some u, Some k, false).
Proof. exact utf8_default. Qed.
Print Assumptions C07_utf8_default.

(* the hypotheses of the two theorems above are satisfiable: "hi" with an identity lower, a codec
   table knowing only utf-8, which decodes anything to itself *)
Example C07_utf8_default_satisfiable :
  let lower := fun s : str => s in
  let known := fun s => str_eqb s n_utf8 in
  let decode := fun (b k : str) (_ : dmode) => if str_eqb k n_utf8 then Some b else None in
  outcome (dammit lower known decode (fun _ _ => None) (fun _ => None) (MBytes [104; 105])
                  (mkargs [] [] [] [] true))
  = (Some [104; 105], Some n_utf8, false).
Proof. vm_compute. reflexivity. Qed.

(* str input is passed through untouched with original_encoding None; so is the empty bytestring *)
Theorem C07_str_passthrough : forall lower known decode sniff chardet s a,
  outcome (dammit lower known decode sniff chardet (MStr s) a) = (Some s, None, false) /\
  r_markup (dammit lower known decode sniff chardet (MStr s) a) = MStr s /\
  r_tried (dammit lower known decode sniff chardet (MStr s) a) = [].
Proof. exact str_passthrough. Qed.
Print Assumptions C07_str_passthrough.

Theorem C07_empty_bytes : forall lower known decode sniff chardet a,
  outcome (dammit lower known decode sniff chardet (MBytes []) a) = (Some [], None, false) /\
  r_tried (dammit lower known decode sniff chardet (MBytes []) a) = [].
Proof. exact empty_bytes. Qed.
Print Assumptions C07_empty_bytes.

(* declared_html_encoding reports what the document (without its byte-order mark) declares, whichever
   encoding was used; None for non-HTML *)
Theorem C07_declared_reported : forall lower known decode sniff chardet m a,
  r_declared_html (dammit lower known decode sniff chardet m a) =
  if a_is_html a then sniff (fst (strip_byte_order_mark m)) true else None.
Proof. exact declared_reported. Qed.
Print Assumptions C07_declared_reported.

Theorem C07_markup_is_stripped : forall lower known decode sniff chardet b a,
  b <> [] -> r_markup (dammit lower known decode sniff chardet (MBytes b) a) = MBytes (fst (strip_bom b)).
Proof. exact markup_is_stripped. Qed.
Print Assumptions C07_markup_is_stripped.

(* no (codec, error mode) pair is attempted twice *)
Theorem C07_tried_encodings_nodup : forall lower known decode sniff chardet m a,
  NoDup (r_tried (dammit lower known decode sniff chardet m a)).
Proof. exact dammit_tried_nodup. Qed.
Print Assumptions C07_tried_encodings_nodup.

(* ================= the BeautifulSoup constructor's route (prepare_markup) ================= *)
Theorem C07_prepare_markup_str : forall lower known decode sniff chardet s fe excl,
  prepare_markup lower known decode sniff chardet (MStr s) fe excl = Prepared s None None false.
Proof. exact prepare_markup_str. Qed.
Print Assumptions C07_prepare_markup_str.

(* from_encoding becomes the single known definite encoding (none when empty), no user encodings,
   HTML; no text at all is ParserRejectedMarkup *)
Theorem C07_prepare_markup_bytes : forall lower known decode sniff chardet b fe excl,
  prepare_markup lower known decode sniff chardet (MBytes b) fe excl =
  let r := dammit lower known decode sniff chardet (MBytes b) (mkargs (from_encoding_list fe) [] [] excl true) in
  match r_text r with
  | Some t => Prepared t (r_orig r) (sniff (MBytes (fst (strip_bom b))) true) (r_flag r)
  | None => Rejected
  end.
Proof. exact prepare_markup_bytes. Qed.
Print Assumptions C07_prepare_markup_bytes.

Theorem C07_from_encoding_first : forall lower known decode sniff chardet b e excl u k,
  b <> [] -> e <> [] -> excluded lower excl e = false ->
  find_codec lower known e = Some k -> decode (fst (strip_bom b)) k Strict = Some u ->
  prepare_markup lower known decode sniff chardet (MBytes b) (Some e) excl =
  Prepared u (Some k) (sniff (MBytes (fst (strip_bom b))) true) false.
Proof. exact from_encoding_first. Qed.
Print Assumptions C07_from_encoding_first.

(* ================= find_codec ================= *)
Theorem C07_find_codec_none_iff : forall lower known cs, find_codec lower known cs = None <-> cs = [].
Proof. exact find_codec_none_iff. Qed.
Print Assumptions C07_find_codec_none_iff.

Theorem C07_find_codec_value : forall lower known cs,
  cs <> [] ->
  find_codec lower known cs =
  Some (lower (match first_known known [alias_of cs; remove_dashes cs; dashes_to_underscores cs] with
               | Some v => v
               | None => if is_empty (lower cs) then cs else lower cs
               end)).
Proof. exact find_codec_value. Qed.
Print Assumptions C07_find_codec_value.

Theorem C07_find_codec_known : forall lower known cs,
  cs <> [] -> assocS cs charset_aliases = None -> known cs = true ->
  find_codec lower known cs = Some (lower cs).
Proof. exact find_codec_known. Qed.
Print Assumptions C07_find_codec_known.

(* ======================================================================================================
   The declared encoding is no longer an input: EncodingDetector.find_declared_encoding and its two regular
   expressions are modelled (Model/Sniff.v: hand-written scanners computing what pattern.search(markup,
   endpos=E) captures, including WHICH match the backtracking engine reports) and related to a statement of
   "the document declares an encoding" (Spec/SniffSpec.v).  md ranges over the two modes (bytes / str
   patterns); mode_ok md is the handful of facts about \s and re.I the proofs need, discharged for both
   modes from the interpreter's tables below.
   ====================================================================================================== *)

(* ---- table obligations: pattern texts, flags, windows, the interpreter's \s / . / re.I ---- *)
Theorem C07_sniff_patterns_documented :
  xml_pattern_text =
    [94;92;115;42;60;92;63;46;42;101;110;99;111;100;105;110;103;61;91;39;34;93;40;46;42;63;41;91;39;34;93;46;42;92;63;62] /\
  html_pattern_text =
    [60;92;115;42;109;101;116;97;91;94;62;93;43;99;104;97;114;115;101;116;92;115;42;61;92;115;42;91;34;39;93;63;40;91;94;62;93;42;63;41;91;32;47;59;39;34;62;93] /\
  sniff_compiled = [(0, 0, xml_pattern_text, 2); (0, 1, html_pattern_text, 2);
                    (1, 0, xml_pattern_text, 34); (1, 1, html_pattern_text, 34)].
Proof. exact sniff_patterns_documented. Qed.
Print Assumptions C07_sniff_patterns_documented.

Theorem C07_sniff_windows_documented :
  sniff_xml_window = 1024 /\ sniff_html_window_min = 2048 /\ sniff_html_window_num = 1 /\ sniff_html_window_den = 20.
Proof. exact sniff_windows_documented. Qed.
Print Assumptions C07_sniff_windows_documented.

Theorem C07_re_semantics_as_modelled :
  re_ws_bytes = [9; 10; 11; 12; 13; 32] /\ re_dot_excludes_bytes = [10] /\ re_dot_excludes_str = [10] /\
  incl re_ws_bytes re_ws_str /\
  forallb (fun e => let p := fst e in
             match assocN p re_ci_bytes with Some l => str_eqb l [p - 32; p] | None => false end)
          re_ci_str = true /\
  map fst re_ci_bytes = map fst re_ci_str /\
  forallb (fun p => match assocN p re_ci_bytes with Some _ => true | None => N.eqb p 61 end)
          (w_encoding_eq ++ w_meta ++ w_charset) = true.
Proof. exact re_semantics_as_modelled. Qed.
Print Assumptions C07_re_semantics_as_modelled.

Theorem C07_sniff_modes_ok : forall m,
  mode_ok (markup_mode m) = true /\
  ci_ascii_ok (markup_mode m) w_encoding_eq = true /\ ci_ascii_ok (markup_mode m) w_meta = true /\
  ci_ascii_ok (markup_mode m) w_charset = true.
Proof. intros m. exact (conj (markup_mode_ok m) (keywords_any_case_ok m)). Qed.
Print Assumptions C07_sniff_modes_ok.

(* ---- the XML-declaration scanner, for every string ---- *)
Theorem C07_xml_scan_sound : forall md s g,
  xml_scan md s = Some g -> xml_shape md s g.
Proof. exact xml_scan_sound. Qed.
Print Assumptions C07_xml_scan_sound.

Theorem C07_xml_scan_complete : forall md, mode_ok md = true -> forall s g,
  xml_shape md s g -> xml_scan md s <> None.
Proof. exact xml_scan_complete. Qed.
Print Assumptions C07_xml_scan_complete.

Theorem C07_xml_scan_finds : forall md, mode_ok md = true -> forall lead pre key q1 g q2 mid tail,
  ws_all md lead -> ci_word md key w_encoding_eq -> is_quote q1 = true -> is_quote q2 = true ->
  Forall (fun c => is_quote c = false) g ->
  Forall (fun c => c <> 10) (pre ++ key ++ q1 :: g ++ q2 :: mid) ->
  (forall a key' b, key ++ q1 :: g ++ q2 :: mid ++ 63 :: 62 :: take_line tail = a ++ key' ++ b ->
                    ci_word md key' w_encoding_eq -> a = []) ->
  xml_scan md (lead ++ 60 :: 63 :: pre ++ key ++ q1 :: g ++ q2 :: mid ++ 63 :: 62 :: tail) = Some g.
Proof. exact xml_scan_finds. Qed.
Print Assumptions C07_xml_scan_finds.

(* ---- the <meta> scanner, for every string ---- *)
Theorem C07_meta_at_sound : forall md t g,
  meta_at md t = Some g -> meta_here md t g.
Proof. exact meta_at_sound. Qed.
Print Assumptions C07_meta_at_sound.

Theorem C07_meta_at_complete : forall md, mode_ok md = true -> forall t g,
  meta_here md t g -> meta_at md t <> None.
Proof. exact meta_at_complete. Qed.
Print Assumptions C07_meta_at_complete.

Theorem C07_html_scan_sound : forall md s g,
  html_scan md s = Some g -> meta_shape md s g.
Proof. exact html_scan_sound. Qed.
Print Assumptions C07_html_scan_sound.

Theorem C07_html_scan_complete : forall md, mode_ok md = true -> forall s g,
  meta_shape md s g -> html_scan md s <> None.
Proof. exact html_scan_complete. Qed.
Print Assumptions C07_html_scan_complete.

(* the leftmost tag that declares anything is the one reported *)
Theorem C07_html_scan_leftmost : forall md s g,
  html_scan md s = Some g ->
  exists before t, s = before ++ t /\ meta_at md t = Some g /\
    forall a b, before = a ++ b -> b <> [] -> meta_at md (b ++ t) = None.
Proof. exact html_scan_some. Qed.
Print Assumptions C07_html_scan_leftmost.

Theorem C07_html_scan_finds : forall md, mode_ok md = true ->
  forall before w0 meta gap key w1 w2 oq name tm after,
  let tag := 60 :: w0 ++ meta ++ gap ++ key ++ w1 ++ 61 :: w2 ++ oq ++ name ++ tm :: after in
  (forall a b, before = a ++ b -> b <> [] -> forall g', ~ meta_here md (b ++ tag) g') ->
  ws_all md w0 -> ci_word md meta w_meta -> gap <> [] -> Forall (fun c => c <> 62) gap ->
  ci_word md key w_charset -> ws_all md w1 -> ws_all md w2 -> value_ok md oq name ->
  Forall (fun c => is_term c = false) name -> is_term tm = true ->
  (forall u1 u2 key' r, key ++ w1 ++ 61 :: w2 ++ oq ++ name ++ tm :: after = u1 ++ u2 -> u1 <> [] ->
                        Forall (fun c => c <> 62) u1 -> u2 = key' ++ r -> ~ ci_word md key' w_charset) ->
  html_scan md (before ++ tag) = Some name.
Proof. exact html_scan_finds. Qed.
Print Assumptions C07_html_scan_finds.

(* ---- find_declared_encoding: both windows, both flags, bytes and str ---- *)
Theorem C07_sniff_window : forall lower m h e,
  find_declared_encoding lower m h e =
  match xml_scan (markup_mode m) (searched_xml e (markup_chars m)) with
  | Some g => declared_name lower m g
  | None =>
      if h then match html_scan (markup_mode m) (searched_html e (markup_chars m)) with
                | Some g => declared_name lower m g
                | None => None
                end
      else None
  end.
Proof. exact find_declared_unfold. Qed.
Print Assumptions C07_sniff_window.

Theorem C07_sniff_total : forall lower m h e,
  let md := markup_mode m in
  let sx := searched_xml e (markup_chars m) in
  let sh := searched_html e (markup_chars m) in
  (exists g, xml_shape md sx g /\ find_declared_encoding lower m h e = declared_name lower m g) \/
  ((forall g, ~ xml_shape md sx g) /\ h = true /\
   exists g, meta_shape md sh g /\ find_declared_encoding lower m h e = declared_name lower m g) \/
  ((forall g, ~ xml_shape md sx g) /\ (h = false \/ forall g, ~ meta_shape md sh g) /\
   find_declared_encoding lower m h e = None).
Proof. exact sniff_total. Qed.
Print Assumptions C07_sniff_total.

Theorem C07_sniff_prefers_xml_declaration : forall lower m h e lead pre key q1 g q2 mid tail,
  let md := markup_mode m in
  searched_xml e (markup_chars m) = lead ++ 60 :: 63 :: pre ++ key ++ q1 :: g ++ q2 :: mid ++ 63 :: 62 :: tail ->
  ws_all md lead -> ci_word md key w_encoding_eq -> is_quote q1 = true -> is_quote q2 = true ->
  Forall (fun c => is_quote c = false) g ->
  Forall (fun c => c <> 10) (pre ++ key ++ q1 :: g ++ q2 :: mid) ->
  (forall a key' b, key ++ q1 :: g ++ q2 :: mid ++ 63 :: 62 :: take_line tail = a ++ key' ++ b ->
                    ci_word md key' w_encoding_eq -> a = []) ->
  find_declared_encoding lower m h e = declared_name lower m g.
Proof. exact sniff_prefers_xml_declaration. Qed.
Print Assumptions C07_sniff_prefers_xml_declaration.

Theorem C07_sniff_finds_declaration_in_window : forall lower m e before w0 meta gap key w1 w2 oq name tm after,
  let md := markup_mode m in
  let tag := 60 :: w0 ++ meta ++ gap ++ key ++ w1 ++ 61 :: w2 ++ oq ++ name ++ tm :: after in
  (forall g, ~ xml_shape md (searched_xml e (markup_chars m)) g) ->
  searched_html e (markup_chars m) = before ++ tag ->
  (forall a b, before = a ++ b -> b <> [] -> forall g', ~ meta_here md (b ++ tag) g') ->
  ws_all md w0 -> ci_word md meta w_meta -> gap <> [] -> Forall (fun c => c <> 62) gap ->
  ci_word md key w_charset -> ws_all md w1 -> ws_all md w2 -> value_ok md oq name ->
  Forall (fun c => is_term c = false) name -> is_term tm = true ->
  (forall u1 u2 key' r, key ++ w1 ++ 61 :: w2 ++ oq ++ name ++ tm :: after = u1 ++ u2 -> u1 <> [] ->
                        Forall (fun c => c <> 62) u1 -> u2 = key' ++ r -> ~ ci_word md key' w_charset) ->
  find_declared_encoding lower m true e = declared_name lower m name.
Proof. exact sniff_finds_meta_in_window. Qed.
Print Assumptions C07_sniff_finds_declaration_in_window.

Theorem C07_sniff_none_without_declaration : forall lower m h e,
  let md := markup_mode m in
  (forall g, ~ xml_shape md (searched_xml e (markup_chars m)) g) ->
  (h = false \/ forall g, ~ meta_shape md (searched_html e (markup_chars m)) g) ->
  find_declared_encoding lower m h e = None.
Proof. exact sniff_none_without_declaration. Qed.
Print Assumptions C07_sniff_none_without_declaration.

Theorem C07_sniff_ignores_beyond_window : forall lower (mk : str -> markup) s a b h,
  (mk = MStr \/ mk = MBytes) ->
  length a = length b ->
  (Nat.max 1024 (Nat.max 2048 ((length s + length a) / 20)) <= length s)%nat ->
  find_declared_encoding lower (mk (s ++ a)) h false = find_declared_encoding lower (mk (s ++ b)) h false.
Proof. exact sniff_ignores_beyond_window. Qed.
Print Assumptions C07_sniff_ignores_beyond_window.

Theorem C07_sniff_case_insensitive : forall m key,
  (map lower_ascii_char key = w_encoding_eq -> ci_word (markup_mode m) key w_encoding_eq) /\
  (map lower_ascii_char key = w_meta -> ci_word (markup_mode m) key w_meta) /\
  (map lower_ascii_char key = w_charset -> ci_word (markup_mode m) key w_charset).
Proof. exact sniff_case_insensitive. Qed.
Print Assumptions C07_sniff_case_insensitive.

(* ---- composed with UnicodeDammit: sniff := the modelled find_declared_encoding ---- *)
Theorem C07_declared_is_sniffed : forall lower known decode chardet m a,
  det_declared (sniff_model lower) m a =
    find_declared_encoding lower (fst (strip_byte_order_mark m)) (a_is_html a) false /\
  r_declared_html (dammit lower known decode (sniff_model lower) chardet m a) =
    if a_is_html a then find_declared_encoding lower (fst (strip_byte_order_mark m)) true false else None.
Proof. exact declared_is_sniffed. Qed.
Print Assumptions C07_declared_is_sniffed.

Theorem C07_outcome_spec_sniffed : forall lower known decode chardet b a,
  b <> [] ->
  outcome (dammit lower known decode (sniff_model lower) chardet (MBytes b) a) =
  spec_outcome (find_codec lower known) decode (fst (strip_bom b))
    (spec_candidates lower (a_exclude a)
       (documented_order (a_known a ++ a_override a) (snd (strip_bom b)) (a_user a)
          (find_declared_encoding lower (MBytes (fst (strip_bom b))) (a_is_html a) false)
          (chardet (MBytes (fst (strip_bom b)))))).
Proof. exact outcome_spec_sniffed. Qed.
Print Assumptions C07_outcome_spec_sniffed.

Theorem C07_meta_declaration_used :
  forall lower known decode chardet b a before w0 meta gap key w1 w2 oq name tm after u k,
  let md := bytes_mode in
  let tag := 60 :: w0 ++ meta ++ gap ++ key ++ w1 ++ 61 :: w2 ++ oq ++ name ++ tm :: after in
  let e := lower (ascii_replace name) in
  b <> [] -> snd (strip_bom b) = None ->
  a_known a = [] -> a_override a = [] -> a_user a = [] -> a_is_html a = true ->
  chardet (MBytes b) = None ->
  (forall g, ~ xml_shape md (searched_xml false b) g) ->
  searched_html false b = before ++ tag ->
  (forall x y, before = x ++ y -> y <> [] -> forall g', ~ meta_here md (y ++ tag) g') ->
  ws_all md w0 -> ci_word md meta w_meta -> gap <> [] -> Forall (fun c => c <> 62) gap ->
  ci_word md key w_charset -> ws_all md w1 -> ws_all md w2 -> value_ok md oq name ->
  Forall (fun c => is_term c = false) name -> is_term tm = true -> name <> [] ->
  (forall u1 u2 key' r, key ++ w1 ++ 61 :: w2 ++ oq ++ name ++ tm :: after = u1 ++ u2 -> u1 <> [] ->
                        Forall (fun c => c <> 62) u1 -> u2 = key' ++ r -> ~ ci_word md key' w_charset) ->
  excluded lower (a_exclude a) e = false ->
  find_codec lower known e = Some k -> decode b k Strict = Some u ->
  outcome (dammit lower known decode (sniff_model lower) chardet (MBytes b) a) = (Some u, Some k, false) /\
  r_declared_html (dammit lower known decode (sniff_model lower) chardet (MBytes b) a) = Some e.
Proof. exact meta_declaration_used. Qed.
Print Assumptions C07_meta_declaration_used.

(* the hypotheses are satisfiable and the functions compute: <META  CharSet = 'Big5' >, an XML declaration
   in capitals beating a meta tag, and a declaration pushed out of the 1024-character window *)
Example C07_sniff_examples :
  let lo := map lower_ascii_char in
  find_declared_encoding lo (MBytes [60;77;69;84;65;32;32;67;104;97;114;83;101;116;32;61;32;39;66;105;103;53;39;32;62]) true false
    = Some [98;105;103;53] /\
  find_declared_encoding lo (MBytes ([60;63;120;109;108;32;69;78;67;79;68;73;78;71;61;34;65;34;63;62] ++
                                     [60;109;101;116;97;32;99;104;97;114;115;101;116;61;98;62])) true false
    = Some [97] /\
  find_declared_encoding lo (MBytes (repeat 32 1005 ++ [60;63;120;109;108;32;101;110;99;111;100;105;110;103;61;34;65;34;63;62])) false false
    = None /\
  find_declared_encoding lo (MBytes (repeat 32 1004 ++ [60;63;120;109;108;32;101;110;99;111;100;105;110;103;61;34;65;34;63;62])) false false
    = Some [97] /\
  find_declared_encoding lo (MStr [60;109;101;116;97;32;99;104;97;114;383;101;116;61;120;62]) true false = Some [120] /\
  find_declared_encoding lo (MBytes [60;109;101;116;97;32;99;104;97;114;115;101;116;61;120;62]) false false = None.
Proof. vm_compute. repeat split; reflexivity. Qed.

(* ======================================================================================================
   The codecs are no longer inputs either, for ascii, iso-8859-1, windows-1252, utf-8 (and, decoding only,
   utf-16-le/be, utf-32-le/be): Model/Codecs.v defines them in Gallina (single-byte tables and codec names read
   from the running interpreter into Gen/T_Codecs.v; UTF-8 strict and with errors="replace" as CPython does it).
   The theorems below quantify over EVERY byte string, and over every [known] / [decode] that agree with Python
   on the modelled names (extends_known / extends_decode) — whatever any other codec does, whatever the sniffer
   and chardet return. Model.Codecs.c_known / c_decode (what the extracted model runs) are such a pair.
   ====================================================================================================== *)
From BS Require Model.Encode.
From BS Require Import Spec.Utf8 Gen.T_Codecs Model.Codecs Proofs.Utf8Codec Proofs.CodecsProofs.

(* ---- table obligations about the generated codec data ---- *)
(* the five bytes windows-1252 leaves undefined (from the interpreter's table, not from memory), the identity
   on ASCII and U+00A0..U+00FF; ascii and iso-8859-1 in closed form *)
Theorem C07_codec_tables :
  (forall b, b < 256 -> (sb_dec_byte cd_cp1252_table b = None <-> In b [129; 141; 143; 144; 157])) /\
  (forall b, b < 128 \/ 160 <= b < 256 -> sb_dec_byte cd_cp1252_table b = Some b) /\
  (forall b, sb_dec_byte cd_ascii_table b = if b <? 128 then Some b else None) /\
  (forall b, sb_dec_byte cd_latin1_table b = if b <? 256 then Some b else None) /\
  cd_decode_replacement = 65533.
Proof.
  exact (conj cp1252_undefined_iff (conj cp1252_dec_byte_id (conj ascii_dec_byte (conj latin1_dec_byte eq_refl)))).
Qed.
Print Assumptions C07_codec_tables.

(* the names: what the default candidates and their usual spellings denote (a wrong entry breaks this) *)
Theorem C07_codec_names :
  map codec_of_name [n_utf8; n_windows1252; n_ascii; n_utf16le; n_utf16be; n_utf32le; n_utf32be] =
  [Some Utf8; Some Cp1252; Some Ascii; Some Utf16LE; Some Utf16BE; Some Utf32LE; Some Utf32BE] /\
  map codec_of_name [[108;97;116;105;110;45;49]; [105;115;111;45;56;56;53;57;45;49]; [99;112;49;50;53;50];
                     [117;115;45;97;115;99;105;105]; [117;116;102;56]; [85;84;70;45;56]] =
  [Some Latin1; Some Latin1; Some Cp1252; Some Ascii; Some Utf8; Some Utf8].
Proof. split; vm_compute; reflexivity. Qed.
Print Assumptions C07_codec_names.

(* the concrete [known] / [decode] of the extracted model satisfy the hypotheses of the theorems below *)
Theorem C07_concrete_codecs_extend : extends_known c_known /\ extends_decode c_decode.
Proof. exact c_extends. Qed.
Print Assumptions C07_concrete_codecs_extend.

(* ---- round trips: decode (encode s) = s and encode (decode b) = b, all strings / byte strings ---- *)
Theorem C07_codec_decode_encode : forall k u b, encoder k = true ->
  Encode.enc_strict (codec_enc_char k) u = Some b -> codec_decode k Strict b = Some u.
Proof. exact codec_decode_encode. Qed.
Print Assumptions C07_codec_decode_encode.

Theorem C07_codec_encode_decode : forall k bs u, encoder k = true ->
  codec_decode k Strict bs = Some u -> Encode.enc_strict (codec_enc_char k) u = Some bs.
Proof. exact codec_encode_decode. Qed.
Print Assumptions C07_codec_encode_decode.

(* strict UTF-8 decoding yields Unicode scalar values only (no surrogates, nothing above U+10FFFF) and accepts
   exactly the well-formed byte strings of Spec/Utf8.v *)
Theorem C07_utf8_strict_is_wellformed : forall bs,
  (exists u, utf8_decode bs = Some u) <-> valid_utf8 bs.
Proof. exact utf8_strict_is_wellformed. Qed.
Print Assumptions C07_utf8_strict_is_wellformed.

(* ---- totality ---- *)
(* errors="replace" never fails, for any of the eight decoders, on any byte string *)
Theorem C07_replace_total : forall k bs, exists u, codec_decode k Replace bs = Some u.
Proof. exact codec_replace_total. Qed.
Print Assumptions C07_replace_total.

(* iso-8859-1 decodes every byte string (to the same numbers) *)
Theorem C07_latin1_total : forall bs, is_bytes bs = true ->
  codec_decode Latin1 Strict bs = Some bs /\ codec_decode Latin1 Replace bs = Some bs.
Proof. exact latin1_total. Qed.
Print Assumptions C07_latin1_total.

(* windows-1252 rejects exactly the byte strings that contain one of its five undefined bytes *)
Theorem C07_cp1252_strict_fails_iff : forall bs, is_bytes bs = true ->
  (codec_decode Cp1252 Strict bs = None <-> exists b, In b bs /\ In b [129; 141; 143; 144; 157]).
Proof. exact cp1252_strict_fails_iff. Qed.
Print Assumptions C07_cp1252_strict_fails_iff.

(* where strict decoding succeeds, errors="replace" gives the same text (single-byte codecs) *)
Theorem C07_single_byte_replace_agrees : forall tbl bs u,
  sb_decode tbl bs = Some u -> sb_decode_replace tbl bs = u.
Proof. exact sb_replace_agrees. Qed.
Print Assumptions C07_single_byte_replace_agrees.

(* ---- ASCII-only input decodes identically under ascii, iso-8859-1, windows-1252 and utf-8 ---- *)
Theorem C07_ascii_agree : forall k m bs, encoder k = true -> is_ascii bs = true -> codec_decode k m bs = Some bs.
Proof. exact ascii_agree. Qed.
Print Assumptions C07_ascii_agree.

Theorem C07_ascii_strict_iff : forall bs, codec_decode Ascii Strict bs = Some bs <-> is_ascii bs = true.
Proof. exact ascii_strict_iff. Qed.
Print Assumptions C07_ascii_strict_iff.

(* so whichever of the four is used, UnicodeDammit returns ASCII-only input as it is *)
Theorem C07_ascii_input_text : forall known decode sniff chardet b a u o k,
  extends_decode decode -> b <> [] -> is_ascii (fst (strip_bom b)) = true ->
  r_text (dammit Encode.lower_ascii known decode sniff chardet (MBytes b) a) = Some u ->
  r_orig (dammit Encode.lower_ascii known decode sniff chardet (MBytes b) a) = Some o ->
  codec_of_name o = Some k -> encoder k = true ->
  u = fst (strip_bom b).
Proof. exact ascii_input_text. Qed.
Print Assumptions C07_ascii_input_text.

(* ---- the last resort never fails: unless the caller excludes windows-1252, EVERY non-empty byte string gets a
        text (this is why the constructor raises ParserRejectedMarkup for no document) ---- *)
Theorem C07_last_resort_never_fails : forall known decode sniff chardet b a,
  extends_known known -> extends_decode decode -> b <> [] ->
  excluded Encode.lower_ascii (a_exclude a) n_windows1252 = false ->
  r_text (dammit Encode.lower_ascii known decode sniff chardet (MBytes b) a) <> None.
Proof. exact last_resort_never_fails. Qed.
Print Assumptions C07_last_resort_never_fails.

(* the same for utf-8 (errors="replace" never fails): "no text at all" needs BOTH last resorts excluded — and then
   it does happen (the constructor raises ParserRejectedMarkup) *)
Theorem C07_utf8_never_fails : forall known decode sniff chardet b a,
  extends_known known -> extends_decode decode -> b <> [] ->
  excluded Encode.lower_ascii (a_exclude a) n_utf8 = false ->
  r_text (dammit Encode.lower_ascii known decode sniff chardet (MBytes b) a) <> None.
Proof. exact utf8_never_fails. Qed.
Print Assumptions C07_utf8_never_fails.

Theorem C07_no_text_possible :
  r_text (c_dammit (MBytes [129]) (mkargs [] [] [] [n_utf8; n_windows1252] true)) = None.
Proof. exact no_text_possible. Qed.
Print Assumptions C07_no_text_possible.

(* ---- valid UTF-8 with no contrary indication is decoded as UTF-8, by the decoder defined in Coq ---- *)
Theorem C07_valid_utf8_wins : forall known decode sniff chardet b a u,
  extends_known known -> extends_decode decode -> b <> [] ->
  a_known a = [] -> a_override a = [] -> a_user a = [] ->
  chardet (MBytes (fst (strip_bom b))) = None ->
  (snd (strip_bom b) = None \/ snd (strip_bom b) = Some n_utf8) ->
  (sniff (MBytes (fst (strip_bom b))) (a_is_html a) = None \/
   sniff (MBytes (fst (strip_bom b))) (a_is_html a) = Some n_utf8) ->
  excluded Encode.lower_ascii (a_exclude a) n_utf8 = false ->
  utf8_decode (fst (strip_bom b)) = Some u ->
  outcome (dammit Encode.lower_ascii known decode sniff chardet (MBytes b) a) = (Some u, Some n_utf8, false).
Proof. exact valid_utf8_wins. Qed.
Print Assumptions C07_valid_utf8_wins.

(* ---- UnicodeDammit(data) with no arguments, no byte-order mark, no declaration — completely, for every byte
        string: UTF-8 if well formed; else windows-1252 if none of its undefined bytes occurs; else UTF-8 with
        U+FFFD substituted and contains_replacement_characters set ---- *)
Theorem C07_default_detection : forall known decode sniff chardet b,
  extends_known known -> extends_decode decode -> b <> [] ->
  snd (strip_bom b) = None ->
  sniff (MBytes (fst (strip_bom b))) true = None -> chardet (MBytes (fst (strip_bom b))) = None ->
  outcome (dammit Encode.lower_ascii known decode sniff chardet (MBytes b) no_args) =
  match utf8_decode (fst (strip_bom b)) with
  | Some u => (Some u, Some n_utf8, false)
  | None =>
      match sb_decode cd_cp1252_table (fst (strip_bom b)) with
      | Some u => (Some u, Some n_windows1252, false)
      | None => (Some (utf8_decode_replace (fst (strip_bom b))), Some n_utf8, true)
      end
  end.
Proof. exact default_detection. Qed.
Print Assumptions C07_default_detection.

(* ---- errors="replace" is strict decoding wherever that succeeds: all eight decoders (UTF-8: CPython's
        maximal-subpart machine against the strict decoder, by induction over the strict decoder's cases) ---- *)
Theorem C07_replace_agrees_with_strict : forall k bs u,
  codec_decode k Strict bs = Some u -> codec_decode k Replace bs = Some u.
Proof. exact codec_replace_agrees. Qed.
Print Assumptions C07_replace_agrees_with_strict.

(* ---- a candidate naming iso-8859-1 (either spelling, any case) makes the strict pass succeed on every byte
        string: a text, and contains_replacement_characters = False ---- *)
Theorem C07_latin1_candidate_always_clean : forall known decode sniff chardet b a c,
  extends_known known -> extends_decode decode -> b <> [] -> is_bytes (fst (strip_bom b)) = true ->
  In c (encodings Encode.lower_ascii sniff chardet (MBytes b) a) ->
  (Encode.lower_ascii c = [108; 97; 116; 105; 110; 45; 49] \/
   Encode.lower_ascii c = [105; 115; 111; 45; 56; 56; 53; 57; 45; 49]) ->
  r_text (dammit Encode.lower_ascii known decode sniff chardet (MBytes b) a) <> None /\
  r_flag (dammit Encode.lower_ascii known decode sniff chardet (MBytes b) a) = false.
Proof. exact latin1_candidate_always_clean. Qed.
Print Assumptions C07_latin1_candidate_always_clean.

(* ---- with no known-definite encoding, the encoding a byte-order mark announces is used whenever the rest of
        the data decodes in it (UTF-8 / UTF-16 / UTF-32 decoders defined in Coq), whatever the document declares;
        the five names strip_byte_order_mark reports are the modelled ones ---- *)
Theorem C07_bom_encoding_wins : forall known decode sniff chardet b a n k u,
  extends_known known -> extends_decode decode -> b <> [] ->
  a_known a = [] -> a_override a = [] ->
  snd (strip_bom b) = Some n -> In n [n_utf8; n_utf16le; n_utf16be; n_utf32le; n_utf32be] ->
  excluded Encode.lower_ascii (a_exclude a) n = false ->
  codec_of_name n = Some k -> codec_decode k Strict (fst (strip_bom b)) = Some u ->
  outcome (dammit Encode.lower_ascii known decode sniff chardet (MBytes b) a) = (Some u, Some n, false).
Proof. exact bom_encoding_wins. Qed.
Print Assumptions C07_bom_encoding_wins.

Theorem C07_bom_names_modelled :
  map (fun r => rule_name r) bom_rules = [n_utf16be; n_utf16le; n_utf8; n_utf32be; n_utf32le] /\
  map codec_of_name [n_utf8; n_utf16le; n_utf16be; n_utf32le; n_utf32be] =
  [Some Utf8; Some Utf16LE; Some Utf16BE; Some Utf32LE; Some Utf32BE].
Proof. exact bom_names_modelled. Qed.
Print Assumptions C07_bom_names_modelled.

Example C07_bom_encoding_wins_satisfiable :
  outcome (c_dammit (MBytes [255; 254; 233; 0; 61; 216; 0; 222]) no_args) = (Some [233; 128512], Some n_utf16le, false).
Proof. vm_compute. reflexivity. Qed.

(* the hypotheses are satisfiable, and the three branches all occur: "cé" as UTF-8, as latin-1, and followed by 0x81 (E9 81 is a truncated sequence: one U+FFFD) *)
Example C07_default_detection_examples :
  outcome (c_dammit (MBytes [99; 195; 169]) no_args) = (Some [99; 233], Some n_utf8, false) /\
  outcome (c_dammit (MBytes [99; 233]) no_args) = (Some [99; 233], Some n_windows1252, false) /\
  outcome (c_dammit (MBytes [99; 233; 129]) no_args) = (Some [99; 65533], Some n_utf8, true).
Proof. vm_compute. repeat split; reflexivity. Qed.

(* ======================================================================================================
   What UnicodeDammit returns for the other common call shapes, on the concrete model (c_dammit: codecs, codec
   names, declaration sniffing all computed in Coq), for EVERY non-empty byte string without a byte-order mark, in
   closed form.  A candidate is (name, codec); [concrete_outcome cands b] (Model/Autodetect.v): the first candidate
   that decodes b strictly, flag off; else the first candidate not spelled "ascii", decoded with errors="replace",
   flag on; else nothing.  [decoder_names]: the lower-case names of Gen/T_Codecs.v that denote one of the eight
   decoders; [named_candidates e k] = (e, k), utf-8, windows-1252 with each name once;
   [default_candidates u w] = utf-8 unless u, windows-1252 unless w.
   ====================================================================================================== *)
From BS Require Import Model.Autodetect Proofs.DetectShapes.

(* master statement: whenever the candidate list consists of names the code resolves to themselves and the model knows *)
Theorem C07_concrete_detection : forall b a cands,
  b <> [] -> fst (strip_bom b) <> [] ->
  c_encodings (MBytes b) a = map fst cands -> Forall resolved cands ->
  outcome (c_dammit (MBytes b) a) = concrete_outcome cands (fst (strip_bom b)).
Proof. exact concrete_detection. Qed.
Print Assumptions C07_concrete_detection.

(* UnicodeDammit(data, known_definite_encodings=[e]), e any modelled name, nothing declared in the document *)
Theorem C07_known_encoding_detection : forall b e k h,
  In (e, k) decoder_names -> b <> [] -> strip_bom b = (b, None) ->
  find_declared_encoding Encode.lower_ascii (MBytes b) h false = None ->
  outcome (c_dammit (MBytes b) (mkargs [e] [] [] [] h)) = concrete_outcome (named_candidates e k) b.
Proof. exact known_encoding_detection. Qed.
Print Assumptions C07_known_encoding_detection.

(* BeautifulSoup(data, from_encoding=e): what prepare_markup yields; ParserRejectedMarkup never, since utf-8 or
   windows-1252 remains a candidate (see C07_concrete_outcome_no_text_iff) *)
Theorem C07_from_encoding_detection : forall b e k,
  In (e, k) decoder_names -> b <> [] -> strip_bom b = (b, None) ->
  find_declared_encoding Encode.lower_ascii (MBytes b) true false = None ->
  c_prepare_markup (MBytes b) (Some e) [] =
  match concrete_outcome (named_candidates e k) b with
  | (Some t, o, f) => Prepared t o None f
  | (None, _, _) => Rejected
  end.
Proof. exact from_encoding_detection. Qed.
Print Assumptions C07_from_encoding_detection.

(* the document declares a modelled encoding (meta tag or XML declaration, as the modelled sniffer finds it) *)
Theorem C07_declared_encoding_detection : forall b e k,
  In (e, k) decoder_names -> b <> [] -> strip_bom b = (b, None) ->
  find_declared_encoding Encode.lower_ascii (MBytes b) true false = Some e ->
  outcome (c_dammit (MBytes b) no_args) = concrete_outcome (named_candidates e k) b /\
  r_declared_html (c_dammit (MBytes b) no_args) = Some e.
Proof. exact declared_encoding_detection. Qed.
Print Assumptions C07_declared_encoding_detection.

(* the document declares something the model does not know as a codec: tried, skipped, still reported *)
Theorem C07_unknown_declared_encoding_detection : forall b d d',
  b <> [] -> strip_bom b = (b, None) ->
  find_declared_encoding Encode.lower_ascii (MBytes b) true false = Some d ->
  find_codec Encode.lower_ascii c_known d = Some d' -> codec_of_name d' = None ->
  Encode.lower_ascii d <> n_utf8 -> Encode.lower_ascii d <> n_windows1252 ->
  outcome (c_dammit (MBytes b) no_args) = concrete_outcome (default_candidates false false) b /\
  r_declared_html (c_dammit (MBytes b) no_args) = Some d.
Proof. exact unknown_declared_encoding_detection. Qed.
Print Assumptions C07_unknown_declared_encoding_detection.

(* exclude_encodings only (any list X) *)
Theorem C07_excluded_encodings_detection : forall b X h,
  b <> [] -> strip_bom b = (b, None) ->
  find_declared_encoding Encode.lower_ascii (MBytes b) h false = None ->
  outcome (c_dammit (MBytes b) (mkargs [] [] [] X h)) =
  concrete_outcome (default_candidates (excluded Encode.lower_ascii X n_utf8) (excluded Encode.lower_ascii X n_windows1252)) b.
Proof. exact excluded_encodings_detection. Qed.
Print Assumptions C07_excluded_encodings_detection.

(* ... and then there is no text iff both last resorts are excluded *)
Theorem C07_excluded_no_text_iff : forall b X h,
  b <> [] -> strip_bom b = (b, None) -> find_declared_encoding Encode.lower_ascii (MBytes b) h false = None ->
  (r_text (c_dammit (MBytes b) (mkargs [] [] [] X h)) = None <->
   excluded Encode.lower_ascii X n_utf8 = true /\ excluded Encode.lower_ascii X n_windows1252 = true).
Proof. exact excluded_no_text_iff. Qed.
Print Assumptions C07_excluded_no_text_iff.

(* reading the closed form, any candidate list, any byte string: when the flag is set, when there is no text *)
Theorem C07_concrete_outcome_flag_iff : forall cands b,
  snd (concrete_outcome cands b) = true <->
  (forall n k, In (n, k) cands -> codec_decode k Strict b = None) /\
  (exists n k, In (n, k) cands /\ n <> s_ascii).
Proof. exact concrete_outcome_flag_iff. Qed.
Print Assumptions C07_concrete_outcome_flag_iff.

Theorem C07_concrete_outcome_no_text_iff : forall cands b,
  fst (fst (concrete_outcome cands b)) = None <->
  (forall n k, In (n, k) cands -> codec_decode k Strict b = None) /\
  (forall n k, In (n, k) cands -> n = s_ascii).
Proof. exact concrete_outcome_no_text_iff. Qed.
Print Assumptions C07_concrete_outcome_no_text_iff.

(* the candidate lists are what the shapes give, and every entry is resolved (table obligations over the names) *)
Theorem C07_shape_candidates : 
  (forall e k, In (e, k) decoder_names ->
     spec_candidates Encode.lower_ascii [] [e; n_utf8; n_windows1252] = map fst (named_candidates e k) /\
     Forall resolved (named_candidates e k)) /\
  (forall X, spec_candidates Encode.lower_ascii X [n_utf8; n_windows1252] =
             map fst (default_candidates (excluded Encode.lower_ascii X n_utf8) (excluded Encode.lower_ascii X n_windows1252))).
Proof. exact (conj named_candidates_ok (fun X => proj1 (default_candidates_ok X))). Qed.
Print Assumptions C07_shape_candidates.

(* satisfiable, and the branches occur: latin-1 named (always decodes); ascii named on non-ASCII bytes falls through
   to utf-8 / windows-1252 / utf-8 with replacement (the replace pass skips "ascii") *)
Example C07_known_encoding_examples :
  outcome (c_dammit (MBytes [99; 233; 129]) (mkargs [[108; 97; 116; 105; 110; 45; 49]] [] [] [] true))
    = (Some [99; 233; 129], Some [108; 97; 116; 105; 110; 45; 49], false) /\
  outcome (c_dammit (MBytes [99; 195; 169]) (mkargs [n_ascii] [] [] [] true)) = (Some [99; 233], Some n_utf8, false) /\
  outcome (c_dammit (MBytes [99; 233]) (mkargs [n_ascii] [] [] [] true)) = (Some [99; 233], Some n_windows1252, false) /\
  outcome (c_dammit (MBytes [99; 233; 129]) (mkargs [n_ascii] [] [] [] true)) = (Some [99; 65533], Some n_utf8, true) /\
  outcome (c_dammit (MBytes [99; 233; 129]) (mkargs [] [] [] [n_utf8] true)) = (Some [99; 233; 65533], Some n_windows1252, true).
Proof. vm_compute. repeat split; reflexivity. Qed.
