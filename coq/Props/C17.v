(* C17 — Attribute values: multi-valued split/join, coercion rules and duplicate policy.
   Property theorems only. The multi-valued table, the whitespace set (interpreter oracle) and
   ASCII space membership are regenerated on every run. *)
From Coq Require Import List NArith ZArith Bool.
From BS Require Import Base.Sexp Base.Types Gen.Tables Gen.Stdlib Model.Attrs Proofs.AttrsProofs.
Import ListNotations.
Open Scope N_scope.

(* every kind and amount of whitespace: the stored list is the list of tokens *)
Theorem C17_split_any_whitespace : forall lead l,
  allws lead = true -> weave_ok l = true -> split_ws (weave lead l) = map fst l.
Proof. exact split_any_whitespace. Qed.
Print Assumptions C17_split_any_whitespace.

(* for every string at all: tokens are non-empty, whitespace-free and are exactly the
   non-whitespace characters in order *)
Theorem C17_split_tokens_spec : forall s,
  Forall (fun t => valid_token t = true) (split_ws s) /\
  concat (split_ws s) = filter (fun c => negb (is_ws c)) s.
Proof. exact split_tokens_spec. Qed.
Print Assumptions C17_split_tokens_spec.

(* written back joined by single spaces, and that round-trips *)
Theorem C17_join_split : forall toks,
  forallb valid_token toks = true -> split_ws (join_sp toks) = toks.
Proof. exact join_split. Qed.
Print Assumptions C17_join_split.

Theorem C17_rendered_list_joined : forall l, rendered_value (VList l) = Some (join_sp l).
Proof. exact rendered_list_joined. Qed.
Print Assumptions C17_rendered_list_joined.

(* exactly the table's attributes are split (universal + tag-specific, tag name lower-cased),
   everything else is stored verbatim; None / empty map switches it off *)
Theorem C17_multi_valued_exactly_table : forall tb tag attrs k,
  tb <> [] ->
  dget k (replace_cdata_list (Some tb) tag attrs) =
  match dget k attrs with
  | Some v => Some (if is_multi tb tag (k_full k) then split_value v else v)
  | None => None
  end.
Proof. exact multi_valued_exactly_table. Qed.
Print Assumptions C17_multi_valued_exactly_table.

Theorem C17_multi_valued_none_verbatim : forall tag attrs,
  replace_cdata_list None tag attrs = attrs /\ replace_cdata_list (Some []) tag attrs = attrs.
Proof. exact multi_valued_none_verbatim. Qed.
Print Assumptions C17_multi_valued_none_verbatim.

Theorem C17_documented_table :
  let t := default_cdata_list_attributes in
  let c := [99;108;97;115;115] in let rel := [114;101;108] in let headers := [104;101;97;100;101;114;115] in
  is_multi t [100;105;118] c = true /\ is_multi t [80] c = true /\
  is_multi t [97] rel = true /\ is_multi t [108;105;110;107] rel = true /\
  is_multi t [65] rel = true /\
  is_multi t [116;100] headers = true /\ is_multi t [116;104] headers = true /\
  is_multi t [100;105;118] rel = false /\ is_multi t [100;105;118] headers = false /\
  is_multi t [97] [105;100] = false /\ is_multi t [97] [104;114;101;102] = false.
Proof. exact documented_multi_valued. Qed.
Print Assumptions C17_documented_table.

Theorem C17_html_coercions : forall d k v,
  dget k (html_setitem d k v) =
  match v with
  | VBool false | VNone => None
  | VBool true => Some (VStr (k_unqualified k))
  | VInt z => Some (VStr (str_of_Z z))
  | VFloat r => Some (VStr r)
  | VStr s => Some (VStr s)
  | VList l => Some (VList l)
  end.
Proof. exact html_coercions. Qed.
Print Assumptions C17_html_coercions.

Theorem C17_xml_coercions : forall d k v,
  dget k (xml_setitem d k v) =
  match v with
  | VNone => Some (VStr [])
  | VBool b => Some (VBool b)
  | VInt z => Some (VStr (str_of_Z z))
  | VFloat r => Some (VStr r)
  | VStr s => Some (VStr s)
  | VList l => Some (VList l)
  end.
Proof. exact xml_coercions. Qed.
Print Assumptions C17_xml_coercions.

Theorem C17_setitem_frame : forall d k k' v,
  akey_eqb k k' = false ->
  dget k (html_setitem d k' v) = dget k d /\ dget k (xml_setitem d k' v) = dget k d.
Proof. exact setitem_frame. Qed.
Print Assumptions C17_setitem_frame.

(* duplicate attributes: replace keeps the last, ignore keeps the first, a callable is handed
   the dictionary so far and decides *)
Theorem C17_dup_replace_last : forall on_dupe attrs k,
  dget k (collect_attrs html_setitem on_dupe DupReplace attrs) = option_map as_value (find_last k attrs).
Proof. intros on_dupe. exact (dup_replace_last html_setitem on_dupe html_setitem_str). Qed.
Print Assumptions C17_dup_replace_last.

Theorem C17_dup_ignore_first : forall on_dupe attrs k,
  dget k (collect_attrs html_setitem on_dupe DupIgnore attrs) = option_map as_value (find_first k attrs).
Proof. intros on_dupe. exact (dup_ignore_first html_setitem on_dupe html_setitem_str). Qed.
Print Assumptions C17_dup_ignore_first.

Theorem C17_dup_callable : forall on_dupe d k v,
  dup_step html_setitem on_dupe DupCall d (k, v) =
  match dget k d with
  | Some _ => on_dupe d k (as_value v)
  | None => dset k (as_value v) d
  end.
Proof. intros on_dupe. exact (dup_callable_step html_setitem on_dupe html_setitem_str). Qed.
Print Assumptions C17_dup_callable.
