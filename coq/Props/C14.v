(* C14 — prettify() changes only whitespace and shows the nesting.
   Property theorems only.  [prettify] / [decode] are the explicit-stack loops of Model/Render.v
   (Tag.decode with indent_level, _event_stream, _indent_string, _should_pretty_print); the statements
   hold for every tree, every formatter object and both flavours (the flavour only selects the
   formatter and the per-tag flags).  Whitespace = the code points str.strip() removes
   (Gen/Stdlib.v py_whitespace, regenerated from the interpreter). *)
From Coq Require Import List NArith ZArith Bool String.
From BS Require Import Base.Sexp Base.Types Base.Lit Gen.Tables Gen.Stdlib Gen.T_C05 Model.Attrs Model.Render
     Model.Reparse Model.Build Model.SmartQuotes Spec.BuildSpec Spec.RenderSpec Spec.RoundTrip Spec.PrettyTokens
     Proofs.RenderProofs Proofs.PrettyProofs Proofs.PrettyReparse.
From BS Require Model.EntitySubst.
Import ListNotations.
Open Scope N_scope.

(* the loop with its indent_level / string_literal_tag bookkeeping computes the recursive
   pretty-printer: piece by piece, for every tree and starting level (None = plain) *)
Theorem C14_decode_is_recursive_render : forall enc f level t,
  decode_pieces enc f level t = render_spec enc f level t.
Proof. exact decode_pieces_spec. Qed.
Print Assumptions C14_decode_is_recursive_render.

Theorem C14_decode_contents_is_recursive_render : forall enc f level t,
  decode_contents enc f level t = List.concat (render_contents_spec enc f level t).
Proof. exact decode_contents_spec. Qed.
Print Assumptions C14_decode_contents_is_recursive_render.

(* only whitespace changes: without whitespace characters, prettify() and decode() are the same text
   (no non-whitespace character added, lost or moved), whenever the indent unit is whitespace *)
Theorem C14_pretty_only_ws : forall enc f t, all_ws (f_indent f) = true ->
  nows (prettify enc f t) = nows (decode enc f None t).
Proof. exact prettify_only_ws. Qed.
Print Assumptions C14_pretty_only_ws.

(* ... and piece by piece: each piece is the plain piece, untouched or stripped and decorated *)
Theorem C14_pretty_pieces : forall enc f t lv pn,
  Forall2 (decorates f) (pretty enc f lv pn t) (plain enc f pn t).
Proof. intros enc f t lv pn. apply pretty_pieces. Qed.
Print Assumptions C14_pretty_pieces.

(* line structure: the output is the concatenation of  indent * depth ++ text ++ newline  over the
   items of the tree — every tag and every non-blank (stripped) string outside whitespace-preserving
   elements is one item at its nesting depth; an outermost whitespace-preserving element is one item *)
Theorem C14_line_structure : forall enc f t, no_hidden_below t = true ->
  prettify enc f t = List.concat (map (line f) (items_spec enc f t)).
Proof. exact prettify_lines. Qed.
Print Assumptions C14_line_structure.

Theorem C14_depths_nonnegative : forall enc f t, Forall (fun it => (0 <= it_depth it)%Z) (items_spec enc f t).
Proof. exact prettify_items_depth. Qed.
Print Assumptions C14_depths_nonnegative.

(* the output ends with a newline (or is empty) *)
Theorem C14_ends_with_newline : forall enc f t, no_hidden_below t = true -> ends_with_nl (prettify enc f t).
Proof. exact prettify_ends_with_newline. Qed.
Print Assumptions C14_ends_with_newline.

(* whitespace-preserving elements: their item is, character for character, their plain rendering *)
Theorem C14_pw_verbatim : forall enc f t, block_texts (items_spec enc f t) = pw_blocks_spec enc f t.
Proof. exact prettify_pw_verbatim. Qed.
Print Assumptions C14_pw_verbatim.

(* ---- the first sentence of the property, on tokens ---- *)

(* what prettify() returns is the spelling of a token sequence: the tags of the plain rendering, each tag and special
   string outside whitespace-preserving elements between an indentation and a newline text token, each text stripped and
   wrapped the same way, everything inside a whitespace-preserving element as in the plain rendering *)
Theorem C14_prettify_is_spelled_pretty_tokens : forall enc f t,
  prettify enc f t = List.concat (map spell (pretty_tokens enc f t)).
Proof. exact prettify_is_spelled_pretty_tokens. Qed.
Print Assumptions C14_prettify_is_spelled_pretty_tokens.

(* Pretty-printed output re-parses to the same tree as the plain output once whitespace inside text is disregarded.
   For every tree that is representable content (C05) and [pretty_ok] (each element whitespace-preserving for the tree
   exactly when it is for the re-parsing builder; void elements written as empty-element tags; the parser's raw-text
   elements cdata-containing for the formatter), every formatter whose indent unit is whitespace, substitution function g
   and readers rt / ra with: rt undoes g; whitespace reads as itself; a stripped, whitespace-wrapped written text reads
   back as the text up to whitespace (and not as nothing when a newline follows):
     - reading the pretty tokens back and building gives norm of the decorated tree [pretty_tree t],
     - reading the plain tokens back gives norm t (C05),
     - and the two have the same whitespace-blind canonical form: outside whitespace-preserving elements every text
       without its whitespace characters (those str.strip() removes) and blank texts dropped; inside them — and for every
       tag, attribute and special string — exactly equal. *)
Theorem C14_reparse_modulo_whitespace : forall f rt ra rc g,
  f_subst f = Some g -> g [] = [] -> (forall s, rt (g s) = s) -> rt [] = [] ->
  (forall w, all_ws w = true -> rt w = w) ->
  forall enc cfg, f_void f <> [] -> all_ws (f_indent f) = true ->
  (forall s w1, all_ws w1 = true -> strip (g s) <> [] -> rt (w1 ++ strip (g s) ++ [10]) <> []) ->
  (forall s w1 w2, all_ws w1 = true -> all_ws w2 = true -> nows (rt (w1 ++ strip (g s) ++ w2)) = nows s) ->
  forallb is_ws (c_spaces cfg) = true ->
  (forall n c, assocS n (c_containers cfg) = Some c -> output_kind c = 0) ->
  (forall s, ra (attr_inner (g s)) = s) ->
  memS (c_root cfg) (c_pw cfg) = false -> assocS (c_root cfg) (c_containers cfg) = None ->
  forall t, representable_top f rc cfg t = true -> pretty_ok_top f rc cfg t = true ->
  let pt := pretty_tree rt enc f cfg t in
  spec_run cfg (read_tokens rt ra rc (pretty_tokens enc f t)) = flat_tree cfg (norm enc f cfg pt) /\
  spec_run cfg (read_tokens rt ra rc (tokens_of enc f t)) = flat_tree cfg (norm enc f cfg t) /\
  ws_equiv cfg (norm enc f cfg pt) (norm enc f cfg t).
Proof. exact reparse_modulo_whitespace. Qed.
Print Assumptions C14_reparse_modulo_whitespace.

(* the 'html' and 'minimal' formatters with the HTML builder's tables: C09's model of substitute_html / substitute_xml,
   element text read by bs4's reader, attribute values by the model of html.unescape; nothing assumed about them *)
Theorem C14_reparse_modulo_whitespace_html : forall enc f rc t,
  f_subst f = Some EntitySubst.substitute_html -> f_void f <> [] -> all_ws (f_indent f) = true ->
  representable_top f rc html_bcfg t = true -> pretty_ok_top f rc html_bcfg t = true ->
  let pt := pretty_tree read_text enc f html_bcfg t in
  spec_run html_bcfg (read_tokens read_text EntitySubst.unescape rc (pretty_tokens enc f t)) = flat_tree html_bcfg (norm enc f html_bcfg pt) /\
  spec_run html_bcfg (read_tokens read_text EntitySubst.unescape rc (tokens_of enc f t)) = flat_tree html_bcfg (norm enc f html_bcfg t) /\
  ws_equiv html_bcfg (norm enc f html_bcfg pt) (norm enc f html_bcfg t).
Proof. exact reparse_modulo_whitespace_html. Qed.
Print Assumptions C14_reparse_modulo_whitespace_html.

Theorem C14_reparse_modulo_whitespace_minimal : forall enc f rc t,
  f_subst f = Some subst_xml -> f_void f <> [] -> all_ws (f_indent f) = true ->
  representable_top f rc html_bcfg t = true -> pretty_ok_top f rc html_bcfg t = true ->
  let pt := pretty_tree read_text enc f html_bcfg t in
  spec_run html_bcfg (read_tokens read_text EntitySubst.unescape rc (pretty_tokens enc f t)) = flat_tree html_bcfg (norm enc f html_bcfg pt) /\
  spec_run html_bcfg (read_tokens read_text EntitySubst.unescape rc (tokens_of enc f t)) = flat_tree html_bcfg (norm enc f html_bcfg t) /\
  ws_equiv html_bcfg (norm enc f html_bcfg pt) (norm enc f html_bcfg t).
Proof. exact reparse_modulo_whitespace_minimal. Qed.
Print Assumptions C14_reparse_modulo_whitespace_minimal.

(* ... and everything inside whitespace-preserving elements is reproduced exactly: two re-parsed trees with the same
   whitespace-blind form have identical sub-trees under their outermost whitespace-preserving elements *)
Theorem C14_reparse_pw_exact : forall cfg a b, ws_equiv cfg a b -> pw_parts cfg a = pw_parts cfg b.
Proof. exact ws_equiv_pw_exact. Qed.
Print Assumptions C14_reparse_pw_exact.

(* the hypotheses are satisfiable:  <div><pre> x </pre>y <br/><script> 1 </script></div>  under 'minimal' *)
Example C14_reparse_example :
  let f := mkfmt (Some subst_xml) [47] html_cdata_containing_tags false [32] in
  let pw := default_preserve_whitespace_tags in
  let tag (n : string) void ks := NTag (mktag (lit n) None [] false void pw) ks in
  let t := tag "div"%string false [tag "pre"%string false [NStr 0 (lit " x ")]; NStr 0 (lit "y "); tag "br"%string true [];
                                  tag "script"%string false [NStr 8 (lit " 1 ")]] in
  let rc := html_rcfg true in
  representable_top f rc html_bcfg t = true /\ pretty_ok_top f rc html_bcfg t = true /\
  ws_canon html_bcfg (norm true f html_bcfg (pretty_tree read_text true f html_bcfg t)) =
  ws_canon html_bcfg (norm true f html_bcfg t) /\
  pw_parts html_bcfg (norm true f html_bcfg t) = [NT (lit "pre") [] [NS 0 (lit " x ")]].
Proof. repeat split; vm_compute; reflexivity. Qed.

(* Formatter.indent: None -> "", int n -> n spaces (negative -> none), str -> itself, anything else -> one space *)
Theorem C14_formatter_indent_int : forall z, formatter_indent (IndInt z) = repeat_str [32] (Z.to_nat z).
Proof. exact formatter_indent_int. Qed.
Print Assumptions C14_formatter_indent_int.

Theorem C14_formatter_indent_whitespace : forall a,
  match a with IndStr s => True | _ => all_ws (formatter_indent a) = true end.
Proof. exact formatter_indent_whitespace. Qed.
Print Assumptions C14_formatter_indent_whitespace.

(* ---- table obligations (regenerated from /repo and from the interpreter on every run) ---- *)

(* every built-in formatter indents by whitespace (one space) *)
Theorem C14_builtin_indents_whitespace :
  forallb (fun r => match r with (_, _, _, _, _, _, ind, _) => all_ws ind && negb (str_eqb ind []) end) formatter_registry = true.
Proof. reflexivity. Qed.
Print Assumptions C14_builtin_indents_whitespace.

(* the whitespace-preserving elements of the HTML configuration are exactly pre and textarea *)
Theorem C14_preserve_whitespace_table : default_preserve_whitespace_tags = [lit "pre"; lit "textarea"].
Proof. reflexivity. Qed.
Print Assumptions C14_preserve_whitespace_table.

(* newline and space are whitespace to str.strip() *)
Theorem C14_newline_space_whitespace : is_ws 10 = true /\ is_ws 32 = true.
Proof. split; reflexivity. Qed.
Print Assumptions C14_newline_space_whitespace.

(* the hypotheses are satisfiable: <div><pre> x </pre>y</div> under the 'minimal' HTML formatter *)
Example C14_example :
  let f := mkfmt (Some subst_xml) [47] html_cdata_containing_tags false [32] in
  let pw := default_preserve_whitespace_tags in
  let t := NTag (mktag (lit "div") None [] false false pw)
                [NTag (mktag (lit "pre") None [] false false pw) [NStr 0 (lit " x ")]; NStr 0 (lit "y")] in
  all_ws (f_indent f) = true /\ no_hidden_below t = true /\
  prettify true f t = lit "<div>" ++ [10] ++ lit " <pre> x </pre>" ++ [10] ++ lit " y" ++ [10] ++ lit "</div>" ++ [10].
Proof. repeat split; reflexivity. Qed.
