(* C14 — prettify() changes only whitespace and shows the nesting.
   Property theorems only.  [prettify] / [decode] are the explicit-stack loops of Model/Render.v
   (Tag.decode with indent_level, _event_stream, _indent_string, _should_pretty_print); the statements
   hold for every tree, every formatter object and both flavours (the flavour only selects the
   formatter and the per-tag flags).  Whitespace = the code points str.strip() removes
   (Gen/Stdlib.v py_whitespace, regenerated from the interpreter). *)
From Coq Require Import List NArith ZArith Bool String.
From BS Require Import Base.Sexp Base.Types Base.Lit Gen.Tables Gen.Stdlib Gen.T_C05 Model.Attrs Model.Render
     Spec.RenderSpec Proofs.RenderProofs Proofs.PrettyProofs.
Import ListNotations.
Open Scope N_scope.

(* the loop with its indent_level / string_literal_tag bookkeeping computes the recursive
   pretty-printer: piece by piece, for every tree and starting level (None = plain) *)
Theorem C14_decode_is_recursive_render : forall enc f level t,
  decode_pieces enc f level t = render_spec enc f level t.
Proof. exact decode_pieces_spec. Qed.
Print Assumptions C14_decode_is_recursive_render.

Theorem C14_decode_contents_is_recursive_render : forall enc f level t,
  decode_contents enc f level t = List.concat (render_contents_spec enc f level t).
Proof. exact decode_contents_spec. Qed.
Print Assumptions C14_decode_contents_is_recursive_render.

(* only whitespace changes: without whitespace characters, prettify() and decode() are the same text
   (no non-whitespace character added, lost or moved), whenever the indent unit is whitespace *)
Theorem C14_pretty_only_ws : forall enc f t, all_ws (f_indent f) = true ->
  nows (prettify enc f t) = nows (decode enc f None t).
Proof. exact prettify_only_ws. Qed.
Print Assumptions C14_pretty_only_ws.

(* ... and piece by piece: each piece is the plain piece, untouched or stripped and decorated *)
Theorem C14_pretty_pieces : forall enc f t lv pn,
  Forall2 (decorates f) (pretty enc f lv pn t) (plain enc f pn t).
Proof. intros enc f t lv pn. apply pretty_pieces. Qed.
Print Assumptions C14_pretty_pieces.

(* line structure: the output is the concatenation of  indent * depth ++ text ++ newline  over the
   items of the tree — every tag and every non-blank (stripped) string outside whitespace-preserving
   elements is one item at its nesting depth; an outermost whitespace-preserving element is one item *)
Theorem C14_line_structure : forall enc f t, no_hidden_below t = true ->
  prettify enc f t = List.concat (map (line f) (items_spec enc f t)).
Proof. exact prettify_lines. Qed.
Print Assumptions C14_line_structure.

Theorem C14_depths_nonnegative : forall enc f t, Forall (fun it => (0 <= it_depth it)%Z) (items_spec enc f t).
Proof. exact prettify_items_depth. Qed.
Print Assumptions C14_depths_nonnegative.

(* the output ends with a newline (or is empty) *)
Theorem C14_ends_with_newline : forall enc f t, no_hidden_below t = true -> ends_with_nl (prettify enc f t).
Proof. exact prettify_ends_with_newline. Qed.
Print Assumptions C14_ends_with_newline.

(* whitespace-preserving elements: their item is, character for character, their plain rendering *)
Theorem C14_pw_verbatim : forall enc f t, block_texts (items_spec enc f t) = pw_blocks_spec enc f t.
Proof. exact prettify_pw_verbatim. Qed.
Print Assumptions C14_pw_verbatim.

(* Formatter.indent: None -> "", int n -> n spaces (negative -> none), str -> itself, anything else -> one space *)
Theorem C14_formatter_indent_int : forall z, formatter_indent (IndInt z) = repeat_str [32] (Z.to_nat z).
Proof. exact formatter_indent_int. Qed.
Print Assumptions C14_formatter_indent_int.

Theorem C14_formatter_indent_whitespace : forall a,
  match a with IndStr s => True | _ => all_ws (formatter_indent a) = true end.
Proof. exact formatter_indent_whitespace. Qed.
Print Assumptions C14_formatter_indent_whitespace.

(* ---- table obligations (regenerated from /repo and from the interpreter on every run) ---- *)

(* every built-in formatter indents by whitespace (one space) *)
Theorem C14_builtin_indents_whitespace :
  forallb (fun r => match r with (_, _, _, _, _, _, ind, _) => all_ws ind && negb (str_eqb ind []) end) formatter_registry = true.
Proof. reflexivity. Qed.
Print Assumptions C14_builtin_indents_whitespace.

(* the whitespace-preserving elements of the HTML configuration are exactly pre and textarea *)
Theorem C14_preserve_whitespace_table : default_preserve_whitespace_tags = [lit "pre"; lit "textarea"].
Proof. reflexivity. Qed.
Print Assumptions C14_preserve_whitespace_table.

(* newline and space are whitespace to str.strip() *)
Theorem C14_newline_space_whitespace : is_ws 10 = true /\ is_ws 32 = true.
Proof. split; reflexivity. Qed.
Print Assumptions C14_newline_space_whitespace.

(* the hypotheses are satisfiable: <div><pre> x </pre>y</div> under the 'minimal' HTML formatter *)
Example C14_example :
  let f := mkfmt (Some subst_xml) [47] html_cdata_containing_tags false [32] in
  let pw := default_preserve_whitespace_tags in
  let t := NTag (mktag (lit "div") None [] false false pw)
                [NTag (mktag (lit "pre") None [] false false pw) [NStr 0 (lit " x ")]; NStr 0 (lit "y")] in
  all_ws (f_indent f) = true /\ no_hidden_below t = true /\
  prettify true f t = lit "<div>" ++ [10] ++ lit " <pre> x </pre>" ++ [10] ++ lit " y" ++ [10] ++ lit "</div>" ++ [10].
Proof. repeat split; reflexivity. Qed.
