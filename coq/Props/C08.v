(* C08 — Output in any target encoding is valid, lossless and self-describing.

   "Rendering a tree to bytes in a real character encoding always succeeds and yields bytes that decode in
   that encoding; characters the encoding cannot represent appear as numeric character references, so decoding
   and re-parsing the bytes recovers the original text and attribute values. A charset declared in a <meta>
   tag of the document is rewritten to name the encoding actually used (and left alone when rendering to str
   with no target encoding) ..."

   Property theorems only (proofs in Proofs/EncodeProofs.v, model in Model/Encode.v). The codec is a parameter
   of every statement ([enc_char] : code point -> option bytes, [bom], a decoder [dec]); what is assumed of it
   is written in each statement and measured per codec by the harness. Tables and constants of the code
   (Gen/T_C08.v) are regenerated from the repository on every run; the table obligations at the end are
   re-proved against them.

   Known finding (open): the lossless clause is FALSE of the faithful model for C1 controls (text and
   attributes) and noncharacters (attributes) that the codec cannot represent — C08_lossless_refuted,
   C08_lossless_attr_refuted; the proved versions state the excluded class explicitly. *)
From Coq Require Import List NArith Bool String.
From BS Require Import Base.Sexp Base.Types Base.Lit Base.Reader Gen.Tables Gen.Stdlib Gen.Entities Gen.T_C08
     Spec.Utf8 Model.Encode Proofs.EncodeProofs Proofs.Utf8Codec Proofs.EncodeCompose.
Import ListNotations.
Open Scope N_scope.

(* ------------------------------------------------------------------ *)
(* 1. always succeeds                                                  *)
(* ------------------------------------------------------------------ *)

(* str.encode(enc, "xmlcharrefreplace") never raises for a codec that can write ASCII — every string *)
Theorem C08_encode_total : forall enc_char bom, ascii_ok enc_char ->
  forall s, exists b, str_encode enc_char bom XmlCharRef s = Some b.
Proof. exact encode_total. Qed.
Print Assumptions C08_encode_total.

(* encode(), prettify(encoding) and encode_contents(): every tree, every indent level, both formatters *)
Theorem C08_entry_points_never_raise : forall enc_char bom enc_name ep f t, ascii_ok enc_char ->
  exists b, entry_bytes enc_char bom enc_name ep f t = Some b.
Proof. exact entry_points_total. Qed.
Print Assumptions C08_entry_points_never_raise.

(* errors="strict" (the caller's choice) raises exactly when some character cannot be represented *)
Theorem C08_strict_raises_iff : forall enc_char bom s,
  str_encode enc_char bom Strict s = None <-> exists c, In c s /\ encodable enc_char c = false.
Proof. exact strict_raises_iff. Qed.
Print Assumptions C08_strict_raises_iff.

(* ------------------------------------------------------------------ *)
(* 2. the bytes decode in the target encoding, to the text with references *)
(* ------------------------------------------------------------------ *)

Theorem C08_decodes_in_target : forall enc_char bom dec,
  (forall u b, enc_strict enc_char u = Some b -> dec (bom ++ b) = Some u) ->
  forall p s b, str_encode enc_char bom p s = Some b ->
  dec b = Some (match p with XmlCharRef => xcr_text enc_char s | _ => s end).
Proof. exact decodes_in_target. Qed.
Print Assumptions C08_decodes_in_target.

(* what that text is: unencodable characters as decimal references, everything else itself *)
Theorem C08_unencodable_as_reference : forall enc_char s,
  xcr_text enc_char s =
  flat_map (fun c => if encodable enc_char c then [c] else c_amp :: c_hash :: decimal c ++ [c_semi]) s.
Proof. exact xcr_text_spec. Qed.
Print Assumptions C08_unencodable_as_reference.

Theorem C08_decimal_is_the_code_point : forall n,
  num_of 10 (decimal n) = n /\ forallb is_digit (decimal n) = true /\ decimal n <> [].
Proof. exact (fun n => conj (decimal_value n) (conj (decimal_digits n) (decimal_nonempty n))). Qed.
Print Assumptions C08_decimal_is_the_code_point.

Theorem C08_nothing_replaced_when_encodable : forall enc_char bom s,
  forallb (encodable enc_char) s = true ->
  xcr_text enc_char s = s /\ str_encode enc_char bom XmlCharRef s = str_encode enc_char bom Strict s.
Proof. exact (fun e b s H => conj (xcr_text_id e s H) (xcr_equals_strict_when_encodable e b s H)). Qed.
Print Assumptions C08_nothing_replaced_when_encodable.

(* ------------------------------------------------------------------ *)
(* 3. lossless: reading the decoded text back                          *)
(* ------------------------------------------------------------------ *)

(* any reader tables [ent]/[num] that know amp, lt, gt: element text, any codec that can write ASCII.
   [ref_ok]: the reference of an unencodable character reads back as that character. *)
Theorem C08_lossless_text : forall enc_char ent num,
  ascii_ok enc_char ->
  ent [97; 109; 112] = Some [38] -> ent [108; 116] = Some [60] -> ent [103; 116] = Some [62] ->
  forall t, (forall c, In c t -> ref_ok enc_char num c) ->
  read ent num (xcr_text enc_char (subst_xml t)) = t.
Proof. exact lossless_text. Qed.
Print Assumptions C08_lossless_text.

(* attribute values: what is written is q body q with q a quote not occurring in body (so the closing
   quote is found) and body reads back as the value *)
Theorem C08_lossless_attr : forall enc_char ent num,
  ascii_ok enc_char ->
  ent [97; 109; 112] = Some [38] -> ent [108; 116] = Some [60] -> ent [103; 116] = Some [62] ->
  ent [113; 117; 111; 116] = Some [34] ->
  forall v, (forall c, In c v -> ref_ok enc_char num c) ->
  let w := subst_xml v in
  let q := attr_quote w in
  xcr_text enc_char (quoted_attribute_value w) = q :: xcr_text enc_char (attr_body w) ++ [q] /\
  (q = c_dq \/ q = c_sq) /\
  ~ In q (xcr_text enc_char (attr_body w)) /\
  read ent num (xcr_text enc_char (attr_body w)) = v.
Proof. exact lossless_attr. Qed.
Print Assumptions C08_lossless_attr.

(* with the readers of the html.parser builder (tables from the repository / the interpreter):
   which references read back as their character *)
Theorem C08_reference_reads_back_text : forall c,
  c <= 1114111 -> (c < 128 \/ 160 <= c) -> num_text c = [c].
Proof. exact num_text_id. Qed.
Print Assumptions C08_reference_reads_back_text.

Theorem C08_reference_reads_back_attr : forall c,
  160 <= c -> c <= 1114111 -> is_surrogate c = false -> is_nonchar c = false -> num_attr c = [c].
Proof. exact num_attr_id. Qed.
Print Assumptions C08_reference_reads_back_attr.

(* the lossless clause, partial: every text / value whose unencodable characters lie in U+00A0..U+10FFFF
   (attributes: and are no noncharacters), every codec that can write ASCII *)
Theorem C08_lossless_text_partial : forall enc_char t,
  ascii_ok enc_char ->
  (forall c, In c t -> encodable enc_char c = false -> 160 <= c <= 1114111) ->
  read_text (xcr_text enc_char (subst_xml t)) = t.
Proof. exact lossless_text_any_codec. Qed.
Print Assumptions C08_lossless_text_partial.

Theorem C08_lossless_attr_partial : forall enc_char v,
  ascii_ok enc_char ->
  (forall c, In c v -> encodable enc_char c = false ->
             160 <= c <= 1114111 /\ is_surrogate c = false /\ is_nonchar c = false) ->
  let w := subst_xml v in
  let q := attr_quote w in
  xcr_text enc_char (quoted_attribute_value w) = q :: xcr_text enc_char (attr_body w) ++ [q] /\
  (q = c_dq \/ q = c_sq) /\
  ~ In q (xcr_text enc_char (attr_body w)) /\
  read_attr (xcr_text enc_char (attr_body w)) = v.
Proof. exact lossless_attr_any_codec. Qed.
Print Assumptions C08_lossless_attr_partial.

(* the full statement is false (known finding C08-c1-nonchar-reference): U+0096 in text, U+FDD0 in an
   attribute value, target ASCII *)
Theorem C08_lossless_refuted :
  exists t, read_text (xcr_text (id_codec 128) (subst_xml t)) <> t.
Proof. exact lossless_refuted. Qed.
Print Assumptions C08_lossless_refuted.

Theorem C08_lossless_attr_refuted :
  exists v, read_attr (xcr_text (id_codec 128) (attr_body (subst_xml v))) <> v.
Proof. exact lossless_attr_refuted. Qed.
Print Assumptions C08_lossless_attr_refuted.

(* tree level: encode() / encode_contents() of ANY tree (no indentation), decoded in the target encoding,
   is the concatenation over the tree's events of each piece with its unencodable characters replaced ... *)
Theorem C08_tree_bytes_are_segments : forall enc_char bom dec enc_name f t b,
  (forall u x, enc_strict enc_char u = Some x -> dec (bom ++ x) = Some u) ->
  tag_encode enc_char bom enc_name None f XmlCharRef t = Some b ->
  dec b = Some (flat_map (fun e => xcr_text enc_char (piece (Some enc_name) f e)) (events_self t)).
Proof. exact tree_bytes_are_segments. Qed.
Print Assumptions C08_tree_bytes_are_segments.

Theorem C08_tree_contents_bytes_are_segments : forall enc_char bom dec enc_name f t b,
  (forall u x, enc_strict enc_char u = Some x -> dec (bom ++ x) = Some u) ->
  tag_encode_contents enc_char bom enc_name None f t = Some b ->
  dec b = Some (flat_map (fun e => xcr_text enc_char (piece (Some enc_name) f e)) (events_contents t)).
Proof. exact tree_contents_bytes_are_segments. Qed.
Print Assumptions C08_tree_contents_bytes_are_segments.

(* ... in which the segment of an ordinary text node reads back as the node's text, and the piece of a plain
   attribute is name = q body q with body reading back as the value (partial: same excluded class) *)
Theorem C08_text_segment_reads_back : forall enc_char enc_name s,
  ascii_ok enc_char ->
  (forall c, In c s -> encodable enc_char c = false -> 160 <= c <= 1114111) ->
  read_text (xcr_text enc_char (piece (Some enc_name) FMinimal (EvStr 0 s false))) = s.
Proof. exact text_segment_reads_back. Qed.
Print Assumptions C08_text_segment_reads_back.

Theorem C08_attr_segment_reads_back : forall enc_char evn k v,
  ascii_ok enc_char ->
  (forall c, In c v -> encodable enc_char c = false ->
             160 <= c <= 1114111 /\ is_surrogate c = false /\ is_nonchar c = false) ->
  let w := subst_xml v in
  let q := attr_quote w in
  xcr_text enc_char (format_attr evn FMinimal (k, AStr v)) =
    xcr_text enc_char k ++ 61 :: q :: xcr_text enc_char (attr_body w) ++ [q] /\
  ~ In q (xcr_text enc_char (attr_body w)) /\
  read_attr (xcr_text enc_char (attr_body w)) = v.
Proof. exact attr_segment_reads_back. Qed.
Print Assumptions C08_attr_segment_reads_back.

(* no hypothesis left: ASCII (B = 128) and ISO-8859-1 (B = 256) as concrete codecs *)
Theorem C08_identity_codec_roundtrip : forall B t,
  128 <= B ->
  (forall c, In c t -> c < B \/ 160 <= c <= 1114111) ->
  exists b, str_encode (id_codec B) [] XmlCharRef (subst_xml t) = Some b /\
            id_dec B b = Some (xcr_text (id_codec B) (subst_xml t)) /\
            read_text (xcr_text (id_codec B) (subst_xml t)) = t.
Proof. exact identity_codec_roundtrip. Qed.
Print Assumptions C08_identity_codec_roundtrip.

(* UTF-8 and utf-8-sig as concrete codecs with a decoder defined in Coq: the codec hypotheses are theorems ... *)
Theorem C08_utf8_codec_hypotheses :
  ascii_ok utf8_codec /\
  (forall u b, enc_strict utf8_codec u = Some b -> utf8_dec ([] ++ b) = Some u) /\
  (forall u b, enc_strict utf8_codec u = Some b -> utf8_sig_dec (utf8_bom ++ b) = Some u) /\
  (forall c, encodable utf8_codec c = scalar c).
Proof. exact (conj utf8_ascii_ok (conj utf8_dec_ok (conj utf8_sig_dec_ok utf8_encodable_scalar))). Qed.
Print Assumptions C08_utf8_codec_hypotheses.

(* ... and the whole chain holds for EVERY text of Unicode scalar values, C1 controls and noncharacters
   included (UTF-8 represents them, no reference is needed) *)
Theorem C08_utf8_roundtrip : forall bom dec t,
  (bom = [] /\ dec = utf8_dec) \/ (bom = utf8_bom /\ dec = utf8_sig_dec) ->
  forallb scalar t = true ->
  exists b, str_encode utf8_codec bom XmlCharRef (subst_xml t) = Some b /\
            dec b = Some (subst_xml t) /\
            read_text (subst_xml t) = t.
Proof. exact utf8_roundtrip. Qed.
Print Assumptions C08_utf8_roundtrip.

(* the hypotheses of the codec-parametric theorems are satisfiable *)
Example C08_example_codec_hypotheses :
  ascii_ok (id_codec 128) /\
  (forall u b, enc_strict (id_codec 128) u = Some b -> id_dec 128 ([] ++ b) = Some u) /\
  encodable (id_codec 128) 9731 = false /\ ref_ok (id_codec 128) num_text 9731.
Proof.
  split; [apply id_codec_ascii_ok; discriminate|]. split; [apply id_codec_dec_ok|].
  split; [reflexivity | intros _; reflexivity].
Qed.

(* ------------------------------------------------------------------ *)
(* 3b. end to end with C09's model of the formatter and C09's readers  *)
(* ------------------------------------------------------------------ *)
(* ES = Model.EntitySubst (substitute_xml / substitute_html / quoted_attribute_value / unescape = the full
   html.unescape model / read_quoted = quote delimiting + unescape), SQ.read_text = the element-text reader of
   C09 and C19, ESp.enc = C09's relation "o is s written with known &name; references". C09's theorems
   (minimal_escaped, xml_enc, html_enc, enc_replace_dq, read_quoted_wf, unescape_ref ...) discharge everything
   about the substitution; the hypotheses left are the codec's: it writes ASCII, its decoder inverts strict
   encoding, and (the excluded class of finding C08-c1-nonchar-reference) the characters it cannot represent lie
   in U+00A0..U+10FFFF (attribute values: and are no surrogates / noncharacters). *)

(* the two developments model the same functions *)
Theorem C08_models_agree :
  (forall s, SQ.read_text s = read_text s) /\
  (forall n, ES.replace_numeric n = num_attr n) /\
  (forall s, ES.substitute_xml s false = Some (subst_xml s)) /\
  (forall v, ES.substitute_xml v true = Some (quoted_attribute_value (subst_xml v))) /\
  (forall v, ES.quoted_attribute_value v = quoted_attribute_value v).
Proof.
  exact (conj text_reader_same (conj num_attr_same (conj subst_xml_same (conj subst_xml_quoted_same quoted_same)))).
Qed.
Print Assumptions C08_models_agree.

(* html.unescape (C09's model) on a decimal reference *)
Theorem C08_unescape_decimal_reference : forall c r,
  ES.unescape_go O (charref c ++ r) = ES.replace_numeric c ++ ES.unescape_go O r.
Proof. exact unescape_charref. Qed.
Print Assumptions C08_unescape_decimal_reference.

(* any escaped text (what both formatters produce), replaced, reads back through both of C09's readers *)
Theorem C08_escaped_text_survives_replacement : forall enc_char, ascii_ok enc_char -> forall o s, ESp.enc o s ->
  ((forall c, In c s -> encodable enc_char c = false -> SQ.num_text c = [c]) ->
   SQ.read_text (xcr_text enc_char o) = s) /\
  ((forall c, In c s -> encodable enc_char c = false -> ES.replace_numeric c = [c]) ->
   ES.unescape (xcr_text enc_char o) = s /\
  ES.read_quoted (xcr_text enc_char (ES.quoted_attribute_value o)) = Some s).
Proof.
  exact (fun e Ha o s He => conj (xcr_enc_read_text e Ha o s He)
           (fun Hn => conj (xcr_enc_unescape e Ha o s He Hn) (xcr_enc_read_quoted e Ha o s He Hn))).
Qed.
Print Assumptions C08_escaped_text_survives_replacement.

(* formatter 'minimal': substitute -> encode(xmlcharrefreplace) -> decode -> read back = original *)
Theorem C08_lossless_text_minimal : forall enc_char, ascii_ok enc_char -> forall bom dec,
  (forall u b, enc_strict enc_char u = Some b -> dec (bom ++ b) = Some u) ->
  forall t, (forall c, In c t -> encodable enc_char c = false -> 160 <= c <= 1114111) ->
  exists o b d, ES.substitute_xml t false = Some o /\
  str_encode enc_char bom XmlCharRef o = Some b /\ dec b = Some d /\ SQ.read_text d = t.
Proof. exact lossless_text_minimal. Qed.
Print Assumptions C08_lossless_text_minimal.

Theorem C08_lossless_attr_minimal : forall enc_char, ascii_ok enc_char -> forall bom dec,
  (forall u b, enc_strict enc_char u = Some b -> dec (bom ++ b) = Some u) ->
  forall v, (forall c, In c v -> encodable enc_char c = false ->
                       160 <= c <= 1114111 /\ is_surrogate c = false /\ is_nonchar c = false) ->
  exists q b d, ES.substitute_xml v true = Some q /\
                str_encode enc_char bom XmlCharRef q = Some b /\ dec b = Some d /\ ES.read_quoted d = Some v.
Proof. exact lossless_attr_minimal. Qed.
Print Assumptions C08_lossless_attr_minimal.

(* formatter 'html' *)
Theorem C08_lossless_text_html : forall enc_char, ascii_ok enc_char -> forall bom dec,
  (forall u b, enc_strict enc_char u = Some b -> dec (bom ++ b) = Some u) ->
  forall t, (forall c, In c t -> encodable enc_char c = false -> 160 <= c <= 1114111) ->
  exists b d, str_encode enc_char bom XmlCharRef (ES.substitute_html t) = Some b /\ dec b = Some d /\
              SQ.read_text d = t.
Proof. exact lossless_text_html. Qed.
Print Assumptions C08_lossless_text_html.

Theorem C08_lossless_attr_html : forall enc_char, ascii_ok enc_char -> forall bom dec,
  (forall u b, enc_strict enc_char u = Some b -> dec (bom ++ b) = Some u) ->
  forall v, (forall c, In c v -> encodable enc_char c = false ->
                       160 <= c <= 1114111 /\ is_surrogate c = false /\ is_nonchar c = false) ->
  exists b d, str_encode enc_char bom XmlCharRef (ES.quoted_attribute_value (ES.substitute_html v)) = Some b /\
              dec b = Some d /\ ES.read_quoted d = Some v.
Proof. exact lossless_attr_html. Qed.
Print Assumptions C08_lossless_attr_html.

(* C09's html.unescape model and C08's reference reader agree on what 'minimal' writes *)
Theorem C08_attr_readers_agree_minimal : forall enc_char, ascii_ok enc_char ->
  forall v, (forall c, In c v -> encodable enc_char c = false ->
                       160 <= c <= 1114111 /\ is_surrogate c = false /\ is_nonchar c = false) ->
  let w := subst_xml v in
  ES.unescape (xcr_text enc_char (attr_body w)) = v /\ read_attr (xcr_text enc_char (attr_body w)) = v.
Proof. exact attr_readers_agree_minimal. Qed.
Print Assumptions C08_attr_readers_agree_minimal.

(* closed instances: NO hypothesis about the codec. UTF-8: element text of EVERY Python str (code points up to
   U+10FFFF; a lone surrogate goes out as a reference and comes back), attribute values of scalar values *)
Theorem C08_utf8_lossless_minimal : forall t, (forall c, In c t -> c <= 1114111) ->
  exists o b d, ES.substitute_xml t false = Some o /\
                str_encode utf8_codec [] XmlCharRef o = Some b /\ utf8_dec b = Some d /\ SQ.read_text d = t.
Proof. exact utf8_lossless_text_minimal. Qed.
Print Assumptions C08_utf8_lossless_minimal.

Theorem C08_utf8_lossless_attr_minimal : forall v, forallb scalar v = true ->
  exists q b d, ES.substitute_xml v true = Some q /\
                str_encode utf8_codec [] XmlCharRef q = Some b /\ utf8_dec b = Some d /\ ES.read_quoted d = Some v.
Proof. exact utf8_lossless_attr_minimal. Qed.
Print Assumptions C08_utf8_lossless_attr_minimal.

Theorem C08_utf8_lossless_html : forall t, forallb scalar t = true ->
  (exists b d, str_encode utf8_codec [] XmlCharRef (ES.substitute_html t) = Some b /\ utf8_dec b = Some d /\
               SQ.read_text d = t) /\
  (exists b d, str_encode utf8_codec [] XmlCharRef (ES.quoted_attribute_value (ES.substitute_html t)) = Some b /\
               utf8_dec b = Some d /\ ES.read_quoted d = Some t).
Proof. exact utf8_lossless_html. Qed.
Print Assumptions C08_utf8_lossless_html.

Theorem C08_utf8_sig_lossless_minimal : forall t, forallb scalar t = true ->
  (exists o b d, ES.substitute_xml t false = Some o /\ str_encode utf8_codec utf8_bom XmlCharRef o = Some b /\
                 utf8_sig_dec b = Some d /\ SQ.read_text d = t) /\
  (exists q b d, ES.substitute_xml t true = Some q /\ str_encode utf8_codec utf8_bom XmlCharRef q = Some b /\
                 utf8_sig_dec b = Some d /\ ES.read_quoted d = Some t).
Proof. exact utf8_sig_lossless_minimal. Qed.
Print Assumptions C08_utf8_sig_lossless_minimal.

(* ASCII (B = 128) and ISO-8859-1 (B = 256) *)
Theorem C08_identity_codec_lossless_minimal : forall B t, 128 <= B ->
  (forall c, In c t -> c < B \/ (160 <= c <= 1114111 /\ is_surrogate c = false /\ is_nonchar c = false)) ->
  (exists o b d, ES.substitute_xml t false = Some o /\ str_encode (id_codec B) [] XmlCharRef o = Some b /\
                 id_dec B b = Some d /\ SQ.read_text d = t) /\
  (exists q b d, ES.substitute_xml t true = Some q /\ str_encode (id_codec B) [] XmlCharRef q = Some b /\
                 id_dec B b = Some d /\ ES.read_quoted d = Some t).
Proof. exact identity_lossless_minimal. Qed.
Print Assumptions C08_identity_codec_lossless_minimal.

(* ------------------------------------------------------------------ *)
(* 4. <meta>: rewritten with a target encoding                         *)
(* ------------------------------------------------------------------ *)

(* HTML5 style, from the attributes of a parsed <meta> to the rendered attribute, any other attributes *)
Theorem C08_meta_charset_rewritten : forall attrs cs e f,
  get_str s_charset attrs = Some cs -> is_python_specific e = false -> plain_name e ->
  In (s_charset ++ 61 :: c_dq :: e ++ [c_dq])
     (map (format_attr (Some e) f) (sorted_attrs (set_up_substitutions s_meta attrs))).
Proof. exact meta_charset_rewritten. Qed.
Print Assumptions C08_meta_charset_rewritten.

Theorem C08_meta_charset_emptied_for_python_specific : forall attrs cs e f,
  get_str s_charset attrs = Some cs -> is_python_specific e = true ->
  In (s_charset ++ [61; c_dq; c_dq])
     (map (format_attr (Some e) f) (sorted_attrs (set_up_substitutions s_meta attrs))).
Proof. exact meta_charset_emptied. Qed.
Print Assumptions C08_meta_charset_emptied_for_python_specific.

(* HTML4 style: the rendered content attribute is the substituted value ... *)
Theorem C08_meta_content_rewritten : forall attrs ct e f,
  get_str s_charset attrs = None -> get_str s_content attrs = Some ct -> declares_content_type attrs = true ->
  is_python_specific e = false ->
  In (s_content ++ 61 :: quoted_attribute_value (fmt_subst f false (content_sub (Some e) ct)))
     (map (format_attr (Some e) f) (sorted_attrs (set_up_substitutions s_meta attrs))).
Proof. exact meta_content_rewritten. Qed.
Print Assumptions C08_meta_content_rewritten.

(* ... in which every charset parameter names the encoding and no parameter appeared or disappeared
   (all values; e any name that does not start with a blank and has no ';') *)
Theorem C08_content_params_name_the_encoding : forall e v, clean e -> ~ In c_semi e ->
  charset_params (content_sub (Some e) v) = map (option_map (fun _ => e)) (charset_params v).
Proof. exact content_params_rewritten. Qed.
Print Assumptions C08_content_params_name_the_encoding.

(* re-reading the output and rendering it in another encoding = rendering the original in that encoding *)
Theorem C08_content_subst_twice : forall e1 e2 v, clean e1 -> ~ In c_semi e1 ->
  content_sub (Some e2) (content_sub (Some e1) v) = content_sub (Some e2) v.
Proof. exact content_sub_twice. Qed.
Print Assumptions C08_content_subst_twice.

Theorem C08_content_without_charset_untouched : forall e v,
  (forall o, In o (charset_params v) -> o = None) -> content_sub e v = v.
Proof. exact content_sub_no_param. Qed.
Print Assumptions C08_content_without_charset_untouched.

(* python-specific target: no charset parameter remains *)
Theorem C08_content_params_removed_for_python_specific : forall v o,
  In o (charset_params (content_sub None v)) -> o = None.
Proof. exact content_params_removed. Qed.
Print Assumptions C08_content_params_removed_for_python_specific.

(* placeholder installation (HTMLTreeBuilder.set_up_substitutions), all attribute lists *)
Theorem C08_install_charset : forall attrs cs,
  get_str s_charset attrs = Some cs ->
  set_up_substitutions s_meta attrs = set_attr s_charset (ACharset cs) attrs.
Proof. exact install_charset. Qed.
Print Assumptions C08_install_charset.

Theorem C08_install_content : forall attrs ct,
  get_str s_charset attrs = None -> get_str s_content attrs = Some ct -> declares_content_type attrs = true ->
  set_up_substitutions s_meta attrs = set_attr s_content (AContent ct) attrs.
Proof. exact install_content. Qed.
Print Assumptions C08_install_content.

Theorem C08_install_nothing_else : forall name attrs,
  (str_eqb name s_meta = false \/
   (name = s_meta /\ get_str s_charset attrs = None /\
    (get_str s_content attrs = None \/ declares_content_type attrs = false))) ->
  set_up_substitutions name attrs = attrs.
Proof.
  exact (fun name attrs H => match H with
                             | or_introl H1 => install_not_meta name attrs H1
                             | or_intror (conj Hn (conj H1 H2)) =>
                                 eq_ind_r (fun n => set_up_substitutions n attrs = attrs) (install_none attrs H1 H2) Hn
                             end).
Qed.
Print Assumptions C08_install_nothing_else.

(* ------------------------------------------------------------------ *)
(* 5. <meta>: left alone without a target encoding                     *)
(* ------------------------------------------------------------------ *)

(* decode(eventual_encoding=None) / decode_contents(...): every tree, indent level and formatter renders
   exactly as the tree in which each placeholder is the plain string that was parsed *)
Theorem C08_meta_untouched_without_encoding : forall i f t,
  tag_decode i None f t = tag_decode i None f (unplace_tree t) /\
  tag_decode_contents i None f t = tag_decode_contents i None f (unplace_tree t).
Proof. exact (fun i f t => conj (decode_untouched i f t) (decode_contents_untouched i f t)). Qed.
Print Assumptions C08_meta_untouched_without_encoding.

(* ------------------------------------------------------------------ *)
(* 6. the three entry points                                           *)
(* ------------------------------------------------------------------ *)

(* same error policy (xmlcharrefreplace) and the target encoding is what decode gets as eventual_encoding *)
Theorem C08_entry_points_share_policy_and_encoding : forall enc_char bom enc_name ep f t,
  entry_bytes enc_char bom enc_name ep f t =
  str_encode enc_char bom XmlCharRef (entry_text ep (Some enc_name) f t).
Proof. exact entry_points_share. Qed.
Print Assumptions C08_entry_points_share_policy_and_encoding.

(* encode(t) = opening tag ++ encode_contents(t) ++ closing tag (no indentation; element not rendered void):
   as text, and piecewise through any codec and policy *)
Theorem C08_encode_is_open_contents_close : forall evn f h kids,
  h_hidden h = false -> (kids <> [] \/ h_can_be_empty h = false) ->
  tag_decode None evn f (Elt h kids) =
  format_tag evn f h false true ++ tag_decode_contents None evn f (Elt h kids) ++ format_tag evn f h false false.
Proof. exact decode_open_contents_close. Qed.
Print Assumptions C08_encode_is_open_contents_close.

Theorem C08_encode_bytes_open_contents_close : forall enc_char enc_name f p h kids,
  h_hidden h = false -> (kids <> [] \/ h_can_be_empty h = false) ->
  str_encode_body enc_char p (tag_decode None (Some enc_name) f (Elt h kids)) =
  lift_app (str_encode_body enc_char p (format_tag (Some enc_name) f h false true))
           (lift_app (str_encode_body enc_char p (tag_decode_contents None (Some enc_name) f (Elt h kids)))
                     (str_encode_body enc_char p (format_tag (Some enc_name) f h false false))).
Proof. exact encode_open_contents_close. Qed.
Print Assumptions C08_encode_bytes_open_contents_close.

(* ------------------------------------------------------------------ *)
(* 7. table obligations (Gen/T_C08.v, regenerated each run)            *)
(* ------------------------------------------------------------------ *)

Definition real_charsets : list str :=
  map lit ["utf-8"; "utf8"; "UTF-8"; "ascii"; "us-ascii"; "latin-1"; "iso-8859-1"; "iso-8859-2"; "iso-8859-5";
           "iso-8859-7"; "iso-8859-15"; "cp1250"; "cp1251"; "cp1252"; "windows-1252"; "cp437"; "cp850"; "koi8-r";
           "mac-roman"; "cp037"; "shift_jis"; "shift-jis"; "euc_jp"; "euc-jp"; "cp932"; "gb2312"; "gbk"; "gb18030";
           "big5"; "euc_kr"; "euc-kr"; "iso-2022-jp"; "hz"; "utf-7"; "utf-16"; "utf-16-le"; "utf-16-be"; "utf-32";
           "utf-32-le"; "utf-32-be"; "utf-8-sig"]%string.
Definition python_docs_specific : list str :=
  map lit ["idna"; "mbcs"; "oem"; "palmos"; "punycode"; "raw_unicode_escape"; "undefined"; "unicode_escape"]%string.

(* the python-specific set contains what the Python documentation lists and no real character encoding;
   the charset="" placeholder answers accordingly *)
Theorem C08_python_specific_set :
  forallb (fun e => memS e python_specific_encodings) python_docs_specific = true /\
  forallb (fun e => negb (memS e python_specific_encodings)) real_charsets = true /\
  charset_subst_probe_real = lit "koi8-r" /\
  forallb (fun r => match r with [] => true | _ => false end) charset_subst_probe_specific = true /\
  List.length charset_subst_probe_specific = List.length python_specific_encodings.
Proof. repeat split; reflexivity. Qed.
Print Assumptions C08_python_specific_set.

(* the regular expression the scanner of Model/Encode.v stands for, and its flags (re.M | re.I | re.U) *)
Theorem C08_charset_re_is_the_modelled_one :
  charset_re_pattern = lit "((^|;)\s*charset\s*=\s*)([^;]*)" /\ charset_re_flags = 42.
Proof. split; reflexivity. Qed.
Print Assumptions C08_charset_re_is_the_modelled_one.

(* defaults and error policies of the entry points *)
Theorem C08_entry_point_constants :
  default_output_encoding = lit "utf-8" /\
  decode_default_eventual = default_output_encoding /\ decode_contents_default_eventual = default_output_encoding /\
  encode_default_encoding = default_output_encoding /\ encode_contents_default_encoding = default_output_encoding /\
  encode_default_errors = lit "xmlcharrefreplace" /\ encode_contents_errors = Some (lit "xmlcharrefreplace") /\
  encode_contents_policy = XmlCharRef /\ policy_of_name encode_default_errors = XmlCharRef /\
  prettify_forwards_as_modelled = true /\ prettify_default_encoding_is_none = true.
Proof. repeat split; reflexivity. Qed.
Print Assumptions C08_entry_point_constants.

Theorem C08_set_up_substitutions_literals :
  set_up_substitutions_literals =
  map lit ["meta"; "content"; "charset"; "http-equiv"; "charset"; "content-type"; "content"]%string /\
  s_meta = lit "meta" /\ s_content = lit "content" /\ s_charset = lit "charset" /\
  s_http_equiv = lit "http-equiv" /\ s_content_type = lit "content-type".
Proof. repeat split; reflexivity. Qed.
Print Assumptions C08_set_up_substitutions_literals.

(* the 'minimal' formatter, substitute_xml, quoted_attribute_value, string classes *)
Theorem C08_formatter_tables :
  minimal_void_close_prefix = lit "/" /\ minimal_indent = lit " " /\
  minimal_cdata_containing_tags = map lit ["script"; "style"]%string /\
  minimal_empty_attributes_are_booleans = false /\ none_formatter_same_layout = true /\
  xml_entity_for = [(60, lit "&lt;"); (62, lit "&gt;"); (38, lit "&amp;")] /\
  forallb (fun p => str_eqb (quoted_attribute_value (fst p)) (snd p)) quote_probes = true /\
  List.length quote_probes = 4%nat /\
  preformatted_string_classes = [1; 2; 3; 4; 5; 6].
Proof. repeat split; reflexivity. Qed.
Print Assumptions C08_formatter_tables.

(* reader tables: the names the writers emit resolve to the right characters; html.unescape's special
   numeric references are 0, 13 and U+0080..U+009F, its dropped code points controls and noncharacters *)
Theorem C08_reader_tables :
  (ent_text (lit "amp") = Some [38] /\ ent_text (lit "lt") = Some [60] /\ ent_text (lit "gt") = Some [62] /\
   ent_text (lit "quot") = Some [34]) /\
  (ent_attr (lit "amp") = Some [38] /\ ent_attr (lit "lt") = Some [60] /\ ent_attr (lit "gt") = Some [62] /\
   ent_attr (lit "quot") = Some [34]) /\
  forallb (fun kv => (fst kv =? 0) || (fst kv =? 13) || ((128 <=? fst kv) && (fst kv <=? 159)))
          html_invalid_charrefs = true /\
  forallb (fun c => (c <? 32) || ((127 <=? c) && (c <=? 159)) || is_nonchar c) html_invalid_codepoints = true.
Proof. exact (conj ent_text_core (conj ent_attr_core (conj invalid_charrefs_keys invalid_codepoints_class))). Qed.
Print Assumptions C08_reader_tables.

(* ======================================================================================================
   Concrete target encodings: ascii, iso-8859-1, windows-1252, utf-8 as defined in Model/Codecs.v (encoder =
   inverse of the single-byte decode table generated from the running interpreter / RFC 3629; strict decoder
   defined in Coq). Nothing about the codec is a hypothesis below; [encoder k = true] says k is one of the four.
   ====================================================================================================== *)
From BS Require Model.Dammit.
From BS Require Import Gen.T_Codecs Model.Codecs Proofs.CodecsProofs.

(* table obligations: the generated tables have 256 entries and the encoder finds every defined byte back
   (no two bytes share a character) *)
Theorem C08_codec_tables_invertible :
  sb_inverse_ok cd_ascii_table = true /\ sb_inverse_ok cd_latin1_table = true /\ sb_inverse_ok cd_cp1252_table = true /\
  cd_encode_replacement = [63].
Proof. exact (conj ascii_inverse_ok (conj latin1_inverse_ok (conj cp1252_inverse_ok eq_refl))). Qed.
Print Assumptions C08_codec_tables_invertible.

(* which characters each target represents *)
Theorem C08_encodable_by_target : forall c,
  encodable (codec_enc_char Ascii) c = (c <? 128) /\
  encodable (codec_enc_char Latin1) c = (c <? 256) /\
  encodable (codec_enc_char Utf8) c = scalar c /\
  (encodable (codec_enc_char Cp1252) c = true <-> In (Some c) cd_cp1252_table) /\
  (128 <= c <= 159 -> encodable (codec_enc_char Cp1252) c = false).
Proof.
  exact (fun c => conj (ascii_encodable c) (conj (latin1_encodable c) (conj (utf8_encodable c)
           (conj (cp1252_encodable_iff c) (cp1252_c1_unencodable c))))).
Qed.
Print Assumptions C08_encodable_by_target.

(* the codec hypotheses of the parametric theorems are theorems for the four targets *)
Theorem C08_concrete_codec_hypotheses : forall k, encoder k = true ->
  ascii_ok (codec_enc_char k) /\
  (forall u b, enc_strict (codec_enc_char k) u = Some b -> codec_decode k Dammit.Strict ([] ++ b) = Some u) /\
  (forall bs u, codec_decode k Dammit.Strict bs = Some u -> enc_strict (codec_enc_char k) u = Some bs).
Proof.
  exact (fun k H => conj (codec_ascii_ok k H) (conj (codec_dec_ok k H) (fun bs u => codec_encode_decode k bs u H))).
Qed.
Print Assumptions C08_concrete_codec_hypotheses.

(* always succeeds, and the bytes decode strictly in the target to the text with references — every string *)
Theorem C08_concrete_encode_total : forall k s, encoder k = true ->
  exists b, codec_encode k EXmlCharRef s = Some b /\
            codec_decode k Dammit.Strict b = Some (xcr_text (codec_enc_char k) s).
Proof. exact concrete_encode_total. Qed.
Print Assumptions C08_concrete_encode_total.

Theorem C08_concrete_encode_replace_total : forall k s, encoder k = true ->
  exists b, codec_encode k EReplace s = Some b.
Proof. exact concrete_encode_replace_total. Qed.
Print Assumptions C08_concrete_encode_replace_total.

(* encode(), prettify(encoding), encode_contents(): every tree, every indent level, both formatters *)
Theorem C08_concrete_entry_points_never_raise : forall k nm ep f t, encoder k = true ->
  exists b, entry_bytes (codec_enc_char k) [] nm ep f t = Some b.
Proof. exact concrete_entry_points_total. Qed.
Print Assumptions C08_concrete_entry_points_never_raise.

(* lossless through C09's formatter model and both readers, for every text / attribute value each of whose
   characters the target represents or lies in U+00A0..U+10FFFF (values: and is no surrogate / noncharacter) —
   i.e. outside the class of the open finding C08-c1-nonchar-reference *)
Theorem C08_concrete_lossless_text : forall k t, encoder k = true -> text_ok k t ->
  exists o b d, ES.substitute_xml t false = Some o /\ codec_encode k EXmlCharRef o = Some b /\
                codec_decode k Dammit.Strict b = Some d /\ SQ.read_text d = t.
Proof. exact concrete_lossless_text. Qed.
Print Assumptions C08_concrete_lossless_text.

Theorem C08_concrete_lossless_attr : forall k v, encoder k = true -> attr_ok k v ->
  exists q b d, ES.substitute_xml v true = Some q /\ codec_encode k EXmlCharRef q = Some b /\
                codec_decode k Dammit.Strict b = Some d /\ ES.read_quoted d = Some v.
Proof. exact concrete_lossless_attr. Qed.
Print Assumptions C08_concrete_lossless_attr.

Theorem C08_concrete_lossless_html : forall k t, encoder k = true ->
  (text_ok k t ->
   exists b d, codec_encode k EXmlCharRef (ES.substitute_html t) = Some b /\
               codec_decode k Dammit.Strict b = Some d /\ SQ.read_text d = t) /\
  (attr_ok k t ->
   exists b d, codec_encode k EXmlCharRef (ES.quoted_attribute_value (ES.substitute_html t)) = Some b /\
               codec_decode k Dammit.Strict b = Some d /\ ES.read_quoted d = Some t).
Proof. exact concrete_lossless_html. Qed.
Print Assumptions C08_concrete_lossless_html.

(* the side condition per target: iso-8859-1 and utf-8 lose nothing of any Python str; ascii and windows-1252
   need the text free of U+0080..U+009F (windows-1252 represents none of them) *)
Theorem C08_text_ok_by_target : forall t,
  ((forall c, In c t -> c < 128 \/ 160 <= c <= 1114111) -> text_ok Ascii t /\ text_ok Cp1252 t) /\
  ((forall c, In c t -> c <= 1114111) -> text_ok Latin1 t /\ text_ok Utf8 t).
Proof. exact text_ok_by_target. Qed.
Print Assumptions C08_text_ok_by_target.

Example C08_text_ok_satisfiable : text_ok Cp1252 [99; 8364; 9731] /\ text_ok Ascii [233] /\ text_ok Latin1 [150].
Proof. exact text_ok_examples. Qed.

(* outside it the clause is false for ascii and windows-1252 (the open finding, witness U+0096), inside Coq *)
Theorem C08_concrete_lossless_refuted :
  exists t, forall k, k = Ascii \/ k = Cp1252 ->
    exists o b d, ES.substitute_xml t false = Some o /\ codec_encode k EXmlCharRef o = Some b /\
                  codec_decode k Dammit.Strict b = Some d /\ SQ.read_text d <> t.
Proof. exact concrete_lossless_refuted. Qed.
Print Assumptions C08_concrete_lossless_refuted.

(* ======================================================================================================
   The last sentence of the property, end to end on the concrete model: "... so for ASCII-compatible encodings ...
   re-parsing the bytes auto-detects that encoding."  Tag.encode as modelled (Model/Encode.v, with the concrete
   encoders of Model/Codecs.v) composed with UnicodeDammit as modelled (Model/Dammit.v with the modelled declaration
   sniffer Model/Sniff.v and the concrete decoders): c_tag_encode, then c_dammit. Targets: the names in
   [encoder_names] (14 spellings of ascii / iso-8859-1 / windows-1252 / utf-8 on which codecs.lookup and the model
   agree). meta_tag MCharset e = <meta charset="e"/>, meta_tag MContent e = <meta content="text/html; charset=e"
   http-equiv="Content-Type"/> — what _format_tag writes for a <meta> created through the builder.
   [detect_conditions st e bpre bpost] are the side conditions, all about the encoded bytes b = bpre ++ tag ++ bpost:
     no byte-order mark is recognised; the declaration, through the character closing the name, lies within the first
     max(2048, len(b) / 20) bytes — the search window of find_declared_encoding, as the code has it; the first 1024
     bytes are not an XML declaration naming an encoding; nothing earlier in the searched part matches the html pattern.
   Each of them is needed: C08_autodetect_declared_refuted_* (all four reproduce on the real library).
   ====================================================================================================== *)
From BS Require Import Spec.SniffSpec Model.Sniff Model.Autodetect Proofs.AutodetectProofs.
From BS Require Proofs.DammitProofs.

(* any tree, any split of its events around the <meta> element, both formatters, any exclusion list not naming e *)
Theorem C08_autodetect_declared : forall st e k f t evs1 h evs2 bpre bpost a,
  In (e, k) encoder_names ->
  events_self t = evs1 ++ EvEmpty h :: evs2 ->
  format_tag (Some e) f h true true = meta_tag st e ->
  codec_encode k EXmlCharRef (flat_map (piece (Some e) f) evs1) = Some bpre ->
  codec_encode k EXmlCharRef (flat_map (piece (Some e) f) evs2) = Some bpost ->
  detect_conditions st e bpre bpost ->
  Dammit.a_known a = [] -> Dammit.a_override a = [] -> Dammit.a_user a = [] -> Dammit.a_is_html a = true ->
  DammitSpec.excluded lower_ascii (Dammit.a_exclude a) e = false ->
  let b := bpre ++ meta_tag st e ++ bpost in
  c_tag_encode 0 e None f XmlCharRef t = Some (Some b) /\
  DammitProofs.outcome (c_dammit (Dammit.MBytes b) a) =
    (Some (xcr_text (codec_enc_char k) (tag_decode None (Some e) f t)), Some e, false) /\
  Dammit.r_declared_html (c_dammit (Dammit.MBytes b) a) = Some e.
Proof. exact autodetect_declared_tree. Qed.
Print Assumptions C08_autodetect_declared.

(* the same for any rendering (any str) that contains the tag *)
Theorem C08_autodetect_declared_rendering : forall st e k pre post bpre bpost a,
  In (e, k) encoder_names ->
  codec_encode k EXmlCharRef pre = Some bpre -> codec_encode k EXmlCharRef post = Some bpost ->
  detect_conditions st e bpre bpost ->
  Dammit.a_known a = [] -> Dammit.a_override a = [] -> Dammit.a_user a = [] -> Dammit.a_is_html a = true ->
  DammitSpec.excluded lower_ascii (Dammit.a_exclude a) e = false ->
  let s := pre ++ meta_tag st e ++ post in
  let b := bpre ++ meta_tag st e ++ bpost in
  codec_encode k EXmlCharRef s = Some b /\
  DammitProofs.outcome (c_dammit (Dammit.MBytes b) a) = (Some (xcr_text (codec_enc_char k) s), Some e, false) /\
  Dammit.r_declared_html (c_dammit (Dammit.MBytes b) a) = Some e.
Proof. exact autodetect_declared_str. Qed.
Print Assumptions C08_autodetect_declared_rendering.

(* the tags are the model's rendering of a <meta> created through the builder (set_up_substitutions installed the
   placeholder), for every modelled name, both formatters, every non-empty original charset value / the listed
   original content values *)
Theorem C08_meta_tag_renderings : forall e k f, In (e, k) encoder_names ->
  (forall c old, format_tag (Some e) f
      (mkhead s_meta None (set_up_substitutions s_meta [(s_charset, AStr (c :: old))]) true false) true true
    = meta_tag MCharset e) /\
  forallb (fun old =>
    str_eqb (format_tag (Some e) f
               (mkhead s_meta None
                  (set_up_substitutions s_meta [(s_http_equiv, AStr s_ct_value); (s_content, AStr (content_value old))])
                  true false) true true)
            (meta_tag MContent e))
    [[107; 111; 105; 56; 45; 114]; [120; 45; 115; 106; 105; 115]; [73; 83; 79; 45; 56; 56; 53; 57; 45; 49];
     [117; 116; 102; 45; 56]] = true.
Proof. exact (fun e k f H => conj (fun c old => charset_tag_rendering e k f c old H) (content_tag_rendering e k f H)). Qed.
Print Assumptions C08_meta_tag_renderings.

(* the names, and what the search window is *)
Theorem C08_autodetect_names_and_window :
  map fst encoder_names =
  [[108; 97; 116; 105; 110; 45; 49]; [108; 97; 116; 105; 110; 49]; [108; 97; 116; 105; 110; 95; 49];
   [105; 115; 111; 45; 56; 56; 53; 57; 45; 49]; [105; 115; 111; 95; 56; 56; 53; 57; 95; 49]; [99; 112; 49; 50; 53; 50];
   [119; 105; 110; 100; 111; 119; 115; 45; 49; 50; 53; 50]; [119; 105; 110; 100; 111; 119; 115; 95; 49; 50; 53; 50];
   [97; 115; 99; 105; 105]; [117; 115; 45; 97; 115; 99; 105; 105]; [117; 115; 95; 97; 115; 99; 105; 105];
   [117; 116; 102; 45; 56]; [117; 116; 102; 56]; [117; 116; 102; 95; 56]] /\
  (forall n : nat, html_window n = Nat.max 2048%nat (Nat.div n 20%nat)) /\
  (forall s, searched_html false s = firstn (html_window (List.length s)) s) /\
  (forall s, searched_xml false s = firstn 1024 s).
Proof. exact (conj encoder_names_are (conj (fun n => eq_refl) (conj (fun s => eq_refl) (fun s => eq_refl)))). Qed.
Print Assumptions C08_autodetect_names_and_window.

(* the side conditions in decidable form (what the extracted model evaluates on generated documents, command 21010),
   and a sufficient condition for the first one *)
Theorem C08_autodetect_conditions_decidable : forall st e bpre bpost,
  detect_conditions_b st e bpre bpost = true -> detect_conditions st e bpre bpost.
Proof. exact detect_conditions_b_sound. Qed.
Print Assumptions C08_autodetect_conditions_decidable.

Theorem C08_no_mark_when_ascii_start : forall c r, 0 < c < 128 -> Dammit.strip_bom (c :: r) = (c :: r, None).
Proof. exact no_bom_ascii_start. Qed.
Print Assumptions C08_no_mark_when_ascii_start.

(* the hypotheses are satisfiable: <html><head><title>é☃</title> + the content-style tag + </head><body>..., latin-1 *)
Example C08_autodetect_declared_satisfiable :
  detect_conditions MContent n_latin1
    (match codec_encode Latin1 EXmlCharRef ex_pre with Some x => x | None => [] end)
    (match codec_encode Latin1 EXmlCharRef ex_post with Some x => x | None => [] end) /\
  In (n_latin1, Latin1) encoder_names /\
  DammitProofs.outcome (c_dammit (Dammit.MBytes (match codec_encode Latin1 EXmlCharRef (ex_pre ++ meta_tag MContent n_latin1 ++ ex_post)
                             with Some x => x | None => [] end)) no_args)
  = (Some (xcr_text (codec_enc_char Latin1) (ex_pre ++ meta_tag MContent n_latin1 ++ ex_post)), Some n_latin1, false).
Proof. exact autodetect_satisfiable. Qed.

(* ---- without the side conditions the statement is false; [wrongly_detected k e s d]: s encoded in k is re-detected
        as d <> e and decoded to a text other than the rendering ---- *)
(* rendering that starts with the text "ÿþ", target iso-8859-1: FF FE is taken for a UTF-16LE mark *)
Theorem C08_autodetect_declared_refuted_mark_lookalike :
  In (n_latin1, Latin1) encoder_names /\
  wrongly_detected Latin1 n_latin1 ([255; 254] ++ meta_tag MCharset n_latin1 ++ [60; 112; 62; 99; 97; 102; 233; 60; 47; 112; 62])
                   DammitSpec.n_utf16le.
Proof. exact autodetect_refuted_bom_lookalike. Qed.
Print Assumptions C08_autodetect_declared_refuted_mark_lookalike.

(* a processing instruction <?xml version="1.0" encoding="latin-1"?> in front of the rewritten <meta>, target utf-8:
   the instruction is not rewritten and the XML pattern is searched first *)
Theorem C08_autodetect_declared_refuted_stale_xml_declaration :
  In (n_utf8', Utf8) encoder_names /\
  exists pre post, wrongly_detected Utf8 n_utf8' (pre ++ meta_tag MCharset n_utf8' ++ post) n_latin1.
Proof. exact autodetect_refuted_stale_xml_declaration_ex. Qed.
Print Assumptions C08_autodetect_declared_refuted_stale_xml_declaration.

(* a comment <!-- <meta charset="latin-1"> --> in front, target utf-8 *)
Theorem C08_autodetect_declared_refuted_declaration_in_comment :
  exists pre post, wrongly_detected Utf8 n_utf8' (pre ++ meta_tag MCharset n_utf8' ++ post) n_latin1.
Proof. exact autodetect_refuted_declaration_in_comment_ex. Qed.
Print Assumptions C08_autodetect_declared_refuted_declaration_in_comment.

(* <meta charset="utf-8" x="charset=latin-1"/>: inside one tag the RIGHTMOST charset is reported *)
Theorem C08_autodetect_declared_refuted_later_charset_in_tag :
  exists rest, wrongly_detected Utf8 n_utf8' (tag_head MCharset n_utf8' ++ rest) n_latin1.
Proof. exact autodetect_refuted_later_charset_in_tag_ex. Qed.
Print Assumptions C08_autodetect_declared_refuted_later_charset_in_tag.

(* ---- "... (and those written with a byte-order mark)": encode("utf-16") / encode("utf-32") = the mark the
        interpreter writes (Gen/T_Codecs.v) + the little-endian form, encoders defined in Model/Codecs.v ---- *)
(* round trips, every string: the strict UTF-16 / UTF-32 decoders of Model/Codecs.v invert the encoders (both byte orders) *)
Theorem C08_wide_decode_encode : forall le u b,
  (enc_strict (utf16_enc_char le) u = Some b -> utf16_decode le false b = Some u) /\
  (enc_strict (utf32_enc_char le) u = Some b -> utf32_decode le false b = Some u).
Proof. exact (fun le u b => conj (utf16_decode_encode le u b) (utf32_decode_encode le u b)). Qed.
Print Assumptions C08_wide_decode_encode.

Theorem C08_wide_marks : cd_utf16_bom = [255; 254] /\ cd_utf32_bom = [255; 254; 0; 0].
Proof. split; reflexivity. Qed.
Print Assumptions C08_wide_marks.

(* the bytes given back to UnicodeDammit: the mark decides, whatever the document declares — for EVERY non-empty
   string (unencodable lone surrogates become references first), any user encodings / exclusions not naming it.
   Side condition actually needed: for UTF-16 the first character is not U+0000 (FF FE 00 00 is the UTF-32LE mark). *)
Theorem C08_autodetect_bom : forall w c0 s a,
  (w = W16 -> c0 <> 0) ->
  Dammit.a_known a = [] -> Dammit.a_override a = [] ->
  DammitSpec.excluded lower_ascii (Dammit.a_exclude a) (wide_name w) = false ->
  exists b, wide_encode w (c0 :: s) = Some b /\
    DammitProofs.outcome (c_dammit (Dammit.MBytes b) a) =
      (Some (xcr_text (wide_enc_char w) (c0 :: s)), Some (wide_name w), false).
Proof. exact autodetect_bom. Qed.
Print Assumptions C08_autodetect_bom.

(* and that condition is needed: U+0000 first, UTF-16 -> the bytes FF FE 00 00 ... are taken for UTF-32LE *)
Theorem C08_autodetect_bom_refuted_nul_first :
  exists b, wide_encode W16 [0; 97] = Some b /\
    DammitProofs.outcome (c_dammit (Dammit.MBytes b) no_args) <> (Some [0; 97], Some (wide_name W16), false).
Proof. eexists. split; [vm_compute; reflexivity|vm_compute; discriminate]. Qed.
Print Assumptions C08_autodetect_bom_refuted_nul_first.
