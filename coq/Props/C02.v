(* C02 — Each editing call has exactly its documented effect on tree shape.
   Property theorems only.  Spec/ListEdit.v holds list-level models of what insert / insert_before /
   insert_after / replace_with do to the child list of the receiving tag (tied to the code by the
   correspondence run) and the documented effects; the theorems say they coincide for ALL lists. *)
From Coq Require Import List Arith Bool.
From BS Require Import Base.Sexp Model.Heap Model.Edit Spec.Tree Spec.ListEdit
  Model.Iter Proofs.HeapBasics Proofs.Views Proofs.EditFrames Proofs.ExtractRep Proofs.InsertRep Proofs.ListEditProofs Proofs.EditBase Proofs.EditRep Proofs.EditEffect Proofs.EditConserve Proofs.EditConserve2 Model.EditOps.
Import ListNotations.

(* a successful _insert of a parentless child puts it at the requested (clipped) index *)
Theorem C02_insert1_places_child : forall fuel h self position nc h',
  insert1 fuel h self position nc = Some h' ->
  par (h nc) = None ->
  par (h' nc) = Some self /\
  kids (h' self) = insert_at (Nat.min position (length (kids (h self)))) nc (kids (h self)).
Proof. exact insert1_places_child. Qed.
Print Assumptions C02_insert1_places_child.

(* Tag.insert(position, c1, ..., cn): whatever mixture of new elements, earlier siblings and later
   siblings the arguments are, they end up contiguous, in the given order, immediately before the
   first old child at or after the requested position that is not itself an argument; every other
   child keeps its relative order (nothing else moves) *)
Theorem C02_insert_multi : forall cs pos K, NoDup cs -> NoDup K ->
  kmove_all pos cs K = splice_spec pos cs K.
Proof. exact kmove_all_spec. Qed.
Print Assumptions C02_insert_multi.

Theorem C02_insert_before : forall cs self K, NoDup cs -> NoDup K -> In self K -> ~ In self cs ->
  kbefore self cs K = before_spec self cs K.
Proof. exact kbefore_spec. Qed.
Print Assumptions C02_insert_before.

Theorem C02_insert_after : forall cs self K, NoDup cs -> NoDup K -> In self K -> ~ In self cs ->
  kafter self cs K = after_spec self cs K.
Proof. exact kafter_spec. Qed.
Print Assumptions C02_insert_after.

Theorem C02_replace_with : forall cs self K, NoDup cs -> NoDup K -> In self K -> ~ In self cs ->
  kreplace self cs K = replace_spec self cs K.
Proof. exact kreplace_spec. Qed.
Print Assumptions C02_replace_with.

(* no element is duplicated or lost, none occupies two places *)
Theorem C02_insert_conserves : forall cs pos K, NoDup cs -> NoDup K ->
  NoDup (kmove_all pos cs K) /\ (forall x, In x (kmove_all pos cs K) <-> In x K \/ In x cs).
Proof. exact splice_conserves. Qed.
Print Assumptions C02_insert_conserves.

Theorem C02_insert_contiguous : forall cs pos K, NoDup cs -> NoDup K ->
  exists A B, kmove_all pos cs K = A ++ cs ++ B /\ A ++ B = others cs K.
Proof. exact splice_contiguous. Qed.
Print Assumptions C02_insert_contiguous.

(* at tree level: extract takes exactly the subtree out (it comes back intact: s is the subtree as it
   was), _insert puts exactly the tree in as child number pos — both as effects on the forest the
   heap represents (shared with C01) *)
Theorem C02_extract_effect : forall F T b h x T' s fuel,
  rep ((T, b) :: F) h -> rid T <> x -> remove x T = (T', Some s) -> length (pre T) <= fuel ->
  rep ((T', b) :: (s, true) :: F) (extract fuel h x).
Proof. exact extract_rep. Qed.
Print Assumptions C02_extract_effect.

Theorem C02_insert_effect : forall F Tp bp Tc h self position fuel h',
  rep ((Tp, bp) :: (Tc, true) :: F) h ->
  In self (pre Tp) -> is_tag h self = true ->
  length (pre Tp) + length (pre Tc) <= fuel ->
  insert1 fuel h self position (rid Tc) = Some h' ->
  let pos := Nat.min position (length (kids (h self))) in
  rep ((insert_sub self pos Tc Tp, bp || (Nat.eqb self (rid Tp) && Nat.eqb pos 0)) :: F) h'.
Proof. exact insert1_rep. Qed.
Print Assumptions C02_insert_effect.

(* the general _insert: the new child may currently sit anywhere in the forest (same parent - with the
   code's index adjustment and its no-op branch -, another parent, another tree, or be a root), as
   long as it is not the destination or one of its ancestors: either nothing changes (it already is
   at that index), or the heap represents the forest in which exactly its subtree was taken out of
   where it was and put in as child number eff_pos of the destination - nothing else moves *)
Theorem C02_insert_move_effect : forall F h self position nc fuel h',
  rep F h -> In self (fids F) -> In nc (fids F) -> is_tag h self = true ->
  ~ anc h nc self -> unlinked_ok F nc -> length (fids F) <= fuel ->
  insert1 fuel h self position nc = Some h' ->
  let pos := Nat.min position (length (kids (h self))) in
  (h' = h /\ par (h nc) = Some self /\ index_of nc (kids (h self)) = Some pos) \/
  (exists F', rep F' h' /\ moved F F' self nc (eff_pos h self nc pos)).
Proof. exact insert1_move_rep. Qed.
Print Assumptions C02_insert_move_effect.

(* no call gets stuck: every admissible call other than insert_after returns, in a consistent state;
   insert_after returns when no argument is repeated or a BeautifulSoup object (else the code itself
   raises ValueError from parent.index(anchor)) *)
Theorem C02_calls_total : forall s o, consistent s -> wf_op_b s o = true ->
  (forall self args, o = OInsertAfter self args -> simple_args_b s args = true) ->
  exists s', apply_op s o = Ok s' /\ consistent s'.
Proof. exact op_total_b. Qed.
Print Assumptions C02_calls_total.

(* ---- the documented effect holds of the heap-level calls themselves ----
   For existing (non-BeautifulSoup) element arguments cs, in any consistent state and for any
   admissible call, the call's effect on the receiving tag's child list IS the documented splice
   (arguments contiguous, in order, at the requested place; the other children keep their order),
   the arguments leave their old parents, and nothing else moves. *)
Theorem C02_insert_documented : forall s self pos args cs s',
  consistent s -> wf_op s (OInsert self pos args) -> elem_args s args cs ->
  op_insert s self pos args = Ok s' ->
  kids (hp s' self) = splice_spec pos cs (kids (hp s self)).
Proof. exact op_insert_documented. Qed.
Print Assumptions C02_insert_documented.

Theorem C02_insert_nothing_else_moves : forall s self pos args cs s',
  consistent s -> wf_op s (OInsert self pos args) -> elem_args s args cs ->
  op_insert s self pos args = Ok s' ->
  (forall q, live s q -> q <> self ->
     kids (hp s' q) = filter (fun y => negb (mem y cs)) (kids (hp s q))) /\
  (forall c, In c cs -> par (hp s' c) = Some self) /\
  (forall y, live s y -> ~ In y cs -> par (hp s' y) = par (hp s y)).
Proof. exact op_insert_frame. Qed.
Print Assumptions C02_insert_nothing_else_moves.

Theorem C02_insert_before_documented : forall s self p args cs s',
  consistent s -> wf_op s (OInsertBefore self args) -> elem_args s args cs -> par (hp s self) = Some p ->
  op_insert_before s self args = Ok s' ->
  kids (hp s' p) = before_spec self cs (kids (hp s p)).
Proof. exact op_insert_before_documented. Qed.
Print Assumptions C02_insert_before_documented.

Theorem C02_insert_after_documented : forall s self p args cs s',
  consistent s -> wf_op s (OInsertAfter self args) -> elem_args s args cs -> par (hp s self) = Some p ->
  op_insert_after s self args = Ok s' ->
  kids (hp s' p) = after_spec self cs (kids (hp s p)).
Proof. exact op_insert_after_documented. Qed.
Print Assumptions C02_insert_after_documented.

Theorem C02_replace_with_documented : forall s self p args cs s',
  consistent s -> wf_op s (OReplaceWith self args) -> elem_args s args cs -> ~ In self cs ->
  par (hp s self) = Some p -> op_replace_with s self args = Ok s' ->
  kids (hp s' p) = replace_spec self cs (kids (hp s p)).
Proof. exact op_replace_with_documented. Qed.
Print Assumptions C02_replace_with_documented.

(* ---- conservation, one place per element, and the documented effect of every remaining call (Proofs/EditConserve.v) ----
   "No element is ever duplicated or lost (only decompose destroys), and no element occupies two places":
   C02_op_conserves / C02_history_conserves(_or) / C02_op_live_exact (the live set after a non-destroying call is exactly
   the old live set plus the ids allocated by the call; smooth() destroys nothing, only decompose and clear(decompose=True)
   do, and exactly the subtree), C02_one_place(_forest) / C02_history_one_place.  The *_documented theorems give, for
   extract, append, extend (list and Tag, also extend(self)), wrap, unwrap, clear, .string=, decompose, and for calls whose
   arguments mix strings and elements, the child list of every element and the parent of every element after the call;
   the old parent of a moved argument loses exactly that argument (the naive frame "only target, parent and arguments
   change" is false: Example ex_frame_old_parent in the proof file).  *_subtree: what comes back detached has its own
   subtree intact. *)

Theorem C02_op_conserves s o s' : consistent s -> wf_op s o -> apply_op s o = Ok s' ->
  nxt s <= nxt s' /\
  (forall y, y < nxt s -> kind (hp s' y) = kind (hp s y) /\ txt (hp s' y) = txt (hp s y) /\
                          (dead (hp s y) = true -> dead (hp s' y) = true)) /\
  (forall x, live s' x -> live s x \/ nxt s <= x) /\
  (destroying o = false ->
     (forall y, y < nxt s -> meta (hp s' y) = meta (hp s y)) /\ (forall x, live s x -> live s' x)).
Proof. exact (op_conserves s o s'). Qed.
Print Assumptions C02_op_conserves.

Theorem C02_op_conserves_b s o s' : consistent s -> wf_op_b s o = true -> apply_op s o = Ok s' ->
  destroying o = false ->
  nxt s <= nxt s' /\ (forall x, live s x -> live s' x) /\ (forall x, live s' x -> live s x \/ nxt s <= x).
Proof. exact (op_conserves_b s o s'). Qed.
Print Assumptions C02_op_conserves_b.

Theorem C02_op_decompose_conserves s x s' : consistent s -> live s x -> op_decompose s x = Ok s' ->
  nxt s' = nxt s /\
  (forall y, live s' y <-> live s y /\ ~ anc (hp s) x y) /\
  (forall y, live s y -> anc (hp s) x y -> hp s' y = wiped (hp s y)) /\
  (forall y, kind (hp s' y) = kind (hp s y) /\ txt (hp s' y) = txt (hp s y) /\
             (dead (hp s y) = true -> dead (hp s' y) = true)).
Proof. exact (op_decompose_conserves s x s'). Qed.
Print Assumptions C02_op_decompose_conserves.

Theorem C02_op_clear_true_conserves s self s' : consistent s -> live s self -> op_clear s self true = Ok s' ->
  nxt s' = nxt s /\
  (forall y, live s' y <-> live s y /\ forall c, In c (kids (hp s self)) -> ~ anc (hp s) c y) /\
  (forall y, live s' y <-> live s y /\ (y = self \/ ~ anc (hp s) self y)) /\
  (forall y, kind (hp s' y) = kind (hp s y) /\ txt (hp s' y) = txt (hp s y) /\
             (dead (hp s y) = true -> dead (hp s' y) = true)).
Proof. exact (op_clear_true_conserves s self s'). Qed.
Print Assumptions C02_op_clear_true_conserves.

Theorem C02_one_place s : consistent s ->
  (forall p x, live s p -> (In x (kids (hp s p)) <-> live s x /\ par (hp s x) = Some p)) /\
  (forall p, live s p -> NoDup (kids (hp s p))) /\
  (forall p q x, live s p -> live s q -> In x (kids (hp s p)) -> In x (kids (hp s q)) -> p = q) /\
  (forall p x, live s p -> In x (kids (hp s p)) -> count_occ Nat.eq_dec (kids (hp s p)) x = 1) /\
  (forall x p, live s x -> par (hp s x) = Some p -> live s p /\ In x (kids (hp s p))).
Proof. exact (one_place s). Qed.
Print Assumptions C02_one_place.

Theorem C02_one_place_forest s : consistent s ->
  exists F, rep F (hp s) /\ NoDup (fids F) /\ (forall x, In x (fids F) <-> live s x) /\
            (forall x, live s x -> count_occ Nat.eq_dec (fids F) x = 1).
Proof. exact (one_place_forest s). Qed.
Print Assumptions C02_one_place_forest.

Theorem C02_history_one_place ops s : consistent s ->
  let s' := run_history s ops in
  (forall p x, live s' p -> (In x (kids (hp s' p)) <-> live s' x /\ par (hp s' x) = Some p)) /\
  (forall p, live s' p -> NoDup (kids (hp s' p))) /\
  (forall p q x, live s' p -> live s' q -> In x (kids (hp s' p)) -> In x (kids (hp s' q)) -> p = q).
Proof. exact (history_one_place ops s). Qed.
Print Assumptions C02_history_one_place.

Theorem C02_history_static  : forall ops s, consistent s ->
  nxt s <= nxt (run_history s ops) /\
  (forall y, y < nxt s -> kind (hp (run_history s ops) y) = kind (hp s y) /\ txt (hp (run_history s ops) y) = txt (hp s y) /\
                          (dead (hp s y) = true -> dead (hp (run_history s ops) y) = true)) /\
  (forall x, live (run_history s ops) x -> live s x \/ nxt s <= x).
Proof. exact history_static. Qed.
Print Assumptions C02_history_static.

Theorem C02_history_conserves  : forall ops s, consistent s -> forallb (fun o => negb (destroying o)) ops = true ->
  forall x, live s x -> live (run_history s ops) x.
Proof. exact history_conserves. Qed.
Print Assumptions C02_history_conserves.

Theorem C02_history_conserves_or  : forall ops s, consistent s -> forall x, live s x ->
  live (run_history s ops) x \/
  exists ops1 o ops2, ops = ops1 ++ o :: ops2 /\ destroying o = true /\
    live (run_history s ops1) x /\ ~ live (step (run_history s ops1) o) x.
Proof. exact history_conserves_or. Qed.
Print Assumptions C02_history_conserves_or.

Theorem C02_op_live_exact s o s' : apply_op s o = Ok s' -> destroying o = false ->
  forall x, live s' x <-> live s x \/ nxt s <= x < nxt s'.
Proof. exact (op_live_exact s o s'). Qed.
Print Assumptions C02_op_live_exact.

Theorem C02_history_live_exact  : forall ops s, forallb (fun o => negb (destroying o)) ops = true ->
  forall x, live (run_history s ops) x <-> live s x \/ nxt s <= x < nxt (run_history s ops).
Proof. exact history_live_exact. Qed.
Print Assumptions C02_history_live_exact.

Theorem C02_op_fresh_count s o s' n : apply_op s o = Ok s' -> fresh_count o = Some n -> nxt s' = nxt s + n.
Proof. exact (op_fresh_count s o s' n). Qed.
Print Assumptions C02_op_fresh_count.

Theorem C02_op_extract_documented s x s' : consistent s -> live s x -> op_extract s x = Ok s' ->
  nxt s' = nxt s /\ (forall y, meta (hp s' y) = meta (hp s y)) /\
  par (hp s' x) = None /\ kids (hp s' x) = kids (hp s x) /\
  (forall p, par (hp s x) = Some p ->
     kids (hp s' p) = drop x (kids (hp s p)) /\
     exists A B, kids (hp s p) = A ++ x :: B /\ kids (hp s' p) = A ++ B /\ ~ In x (A ++ B)) /\
  (forall q, live s q -> par (hp s x) <> Some q -> kids (hp s' q) = kids (hp s q)) /\
  (forall y, y <> x -> par (hp s' y) = par (hp s y)).
Proof. exact (op_extract_documented s x s'). Qed.
Print Assumptions C02_op_extract_documented.

Theorem C02_op_append_documented s self a s' : consistent s -> wf_op s (OAppend self a) -> op_append s self a = Ok s' ->
  match a with
  | AEl c =>
      kind (hp s c) <> KSoup ->
      nxt s' = nxt s /\
      kids (hp s' self) = drop c (kids (hp s self)) ++ [c] /\ par (hp s' c) = Some self /\
      (forall q, live s q -> q <> self -> kids (hp s' q) = drop c (kids (hp s q))) /\
      (forall y, y <> c -> par (hp s' y) = par (hp s y))
  | AStr t =>
      nxt s' = S (nxt s) /\
      kids (hp s' self) = kids (hp s self) ++ [nxt s] /\
      kind (hp s' (nxt s)) = KStr false /\ txt (hp s' (nxt s)) = t /\ dead (hp s' (nxt s)) = false /\
      par (hp s' (nxt s)) = Some self /\ kids (hp s' (nxt s)) = [] /\
      (forall q, live s q -> q <> self -> kids (hp s' q) = kids (hp s q)) /\
      (forall y, y < nxt s -> par (hp s' y) = par (hp s y))
  end.
Proof. exact (op_append_documented s self a s'). Qed.
Print Assumptions C02_op_append_documented.

Theorem C02_op_extend_list_documented s self args cs s' :
  consistent s -> wf_op s (OExtendList self args) -> elem_args s args cs -> op_extend_list s self args = Ok s' ->
  nxt s' = nxt s /\
  kids (hp s' self) = others cs (kids (hp s self)) ++ cs /\
  (forall q, live s q -> q <> self -> kids (hp s' q) = others cs (kids (hp s q))) /\
  (forall c, In c cs -> par (hp s' c) = Some self) /\
  (forall y, ~ In y cs -> par (hp s' y) = par (hp s y)).
Proof. exact (op_extend_list_documented s self args cs s'). Qed.
Print Assumptions C02_op_extend_list_documented.

Theorem C02_op_extend_tag_documented s self other s' :
  consistent s -> wf_op s (OExtendTag self other) -> live s other -> nonsoups s (kids (hp s other)) ->
  op_extend_tag s self other = Ok s' ->
  let cs := kids (hp s other) in
  nxt s' = nxt s /\
  (other <> self -> kids (hp s' self) = kids (hp s self) ++ cs /\ kids (hp s' other) = []) /\
  (other = self -> kids (hp s' self) = kids (hp s self)) /\
  (forall q, live s q -> q <> self -> q <> other -> kids (hp s' q) = kids (hp s q)) /\
  (forall c, In c cs -> par (hp s' c) = Some self) /\
  (forall y, ~ In y cs -> par (hp s' y) = par (hp s y)).
Proof. exact (op_extend_tag_documented s self other s'). Qed.
Print Assumptions C02_op_extend_tag_documented.

Theorem C02_op_replace_with_frame s self p args cs s' :
  consistent s -> wf_op s (OReplaceWith self args) -> elem_args s args cs -> ~ In self cs ->
  par (hp s self) = Some p -> op_replace_with s self args = Ok s' ->
  nxt s' = nxt s /\ par (hp s' self) = None /\
  (forall q, live s q -> q <> p -> kids (hp s' q) = others cs (kids (hp s q))) /\
  (forall c, In c cs -> par (hp s' c) = Some p) /\
  (forall y, live s y -> y <> self -> ~ In y cs -> par (hp s' y) = par (hp s y)).
Proof. exact (op_replace_with_frame s self p args cs s'). Qed.
Print Assumptions C02_op_replace_with_frame.

Theorem C02_op_wrap_documented s self w p s' :
  consistent s -> wf_op s (OWrap self w) -> par (hp s self) = Some p -> kind (hp s self) <> KSoup ->
  op_wrap s self w = Ok s' ->
  nxt s' = nxt s /\
  par (hp s' self) = Some w /\ par (hp s' w) = Some p /\
  kids (hp s' w) = kids (hp s w) ++ [self] /\
  kids (hp s' p) = replace_spec self [w] (kids (hp s p)) /\
  (forall P Q, kids (hp s p) = P ++ self :: Q -> kids (hp s' p) = drop w P ++ w :: drop w Q) /\
  (forall q, live s q -> q <> p -> q <> w -> kids (hp s' q) = drop w (kids (hp s q))) /\
  (forall y, live s y -> y <> self -> y <> w -> par (hp s' y) = par (hp s y)).
Proof. exact (op_wrap_documented s self w p s'). Qed.
Print Assumptions C02_op_wrap_documented.

Theorem C02_op_unwrap_documented s self p s' :
  consistent s -> wf_op s (OUnwrap self) -> par (hp s self) = Some p -> nonsoups s (kids (hp s self)) ->
  op_unwrap s self = Ok s' ->
  nxt s' = nxt s /\ par (hp s' self) = None /\ kids (hp s' self) = [] /\
  (forall A B, kids (hp s p) = A ++ self :: B -> kids (hp s' p) = A ++ kids (hp s self) ++ B) /\
  (forall c, In c (kids (hp s self)) -> par (hp s' c) = Some p) /\
  (forall q, live s q -> q <> p -> q <> self -> kids (hp s' q) = kids (hp s q)) /\
  (forall y, y <> self -> ~ In y (kids (hp s self)) -> par (hp s' y) = par (hp s y)).
Proof. exact (op_unwrap_documented s self p s'). Qed.
Print Assumptions C02_op_unwrap_documented.

Theorem C02_op_clear_documented s self s' : consistent s -> live s self -> op_clear s self false = Ok s' ->
  nxt s' = nxt s /\ (forall y, meta (hp s' y) = meta (hp s y)) /\
  kids (hp s' self) = [] /\
  (forall c, In c (kids (hp s self)) -> par (hp s' c) = None /\ kids (hp s' c) = kids (hp s c)) /\
  (forall q, live s q -> q <> self -> kids (hp s' q) = kids (hp s q)) /\
  (forall y, ~ In y (kids (hp s self)) -> par (hp s' y) = par (hp s y)).
Proof. exact (op_clear_documented s self s'). Qed.
Print Assumptions C02_op_clear_documented.

Theorem C02_op_set_string_documented s self t s' :
  consistent s -> wf_op s (OSetString self t) -> op_set_string s self t = Ok s' ->
  nxt s' = S (nxt s) /\ kids (hp s' self) = [nxt s] /\
  kind (hp s' (nxt s)) = KStr false /\ txt (hp s' (nxt s)) = t /\ dead (hp s' (nxt s)) = false /\
  par (hp s' (nxt s)) = Some self /\ kids (hp s' (nxt s)) = [] /\
  (forall c, In c (kids (hp s self)) -> par (hp s' c) = None /\ kids (hp s' c) = kids (hp s c)) /\
  (forall q, live s q -> q <> self -> kids (hp s' q) = kids (hp s q)) /\
  (forall y, y < nxt s -> ~ In y (kids (hp s self)) -> par (hp s' y) = par (hp s y)).
Proof. exact (op_set_string_documented s self t s'). Qed.
Print Assumptions C02_op_set_string_documented.

Theorem C02_op_decompose_documented s x s' : consistent s -> live s x -> op_decompose s x = Ok s' ->
  (forall y, live s y -> anc (hp s) x y -> hp s' y = wiped (hp s y)) /\
  (forall p, par (hp s x) = Some p -> kids (hp s' p) = drop x (kids (hp s p))) /\
  (forall q, live s q -> ~ anc (hp s) x q -> par (hp s x) <> Some q -> kids (hp s' q) = kids (hp s q)) /\
  (forall y, ~ anc (hp s) x y -> par (hp s' y) = par (hp s y)).
Proof. exact (op_decompose_documented s x s'). Qed.
Print Assumptions C02_op_decompose_documented.

Theorem C02_op_clear_true_documented s self s' : consistent s -> live s self -> op_clear s self true = Ok s' ->
  kids (hp s' self) = [] /\ par (hp s' self) = par (hp s self) /\
  (forall q, live s q -> ~ anc (hp s) self q -> kids (hp s' q) = kids (hp s q) /\ par (hp s' q) = par (hp s q)).
Proof. exact (op_clear_true_documented s self s'). Qed.
Print Assumptions C02_op_clear_true_documented.

Theorem C02_op_insert_before_frame s self p args cs s' :
  consistent s -> wf_op s (OInsertBefore self args) -> elem_args s args cs -> par (hp s self) = Some p ->
  op_insert_before s self args = Ok s' ->
  nxt s' = nxt s /\
  (forall q, live s q -> q <> p -> kids (hp s' q) = others cs (kids (hp s q))) /\
  (forall c, In c cs -> par (hp s' c) = Some p) /\
  (forall y, ~ In y cs -> par (hp s' y) = par (hp s y)).
Proof. exact (op_insert_before_frame s self p args cs s'). Qed.
Print Assumptions C02_op_insert_before_frame.

Theorem C02_op_insert_after_frame s self p args cs s' :
  consistent s -> wf_op s (OInsertAfter self args) -> elem_args s args cs -> par (hp s self) = Some p ->
  op_insert_after s self args = Ok s' ->
  nxt s' = nxt s /\
  (forall q, live s q -> q <> p -> kids (hp s' q) = others cs (kids (hp s q))) /\
  (forall c, In c cs -> par (hp s' c) = Some p) /\
  (forall y, ~ In y cs -> par (hp s' y) = par (hp s y)).
Proof. exact (op_insert_after_frame s self p args cs s'). Qed.
Print Assumptions C02_op_insert_after_frame.

Theorem C02_op_extract_subtree s x s' : consistent s -> live s x -> op_extract s x = Ok s' ->
  (forall f, abs_tree f (hp s') x = abs_tree f (hp s) x) /\
  (forall y, anc (hp s) x y -> y <> x -> par (hp s' y) = par (hp s y)).
Proof. exact (op_extract_subtree s x s'). Qed.
Print Assumptions C02_op_extract_subtree.

Theorem C02_op_clear_subtree s self s' c : consistent s -> live s self -> op_clear s self false = Ok s' ->
  In c (kids (hp s self)) -> forall f, abs_tree f (hp s') c = abs_tree f (hp s) c.
Proof. exact (op_clear_subtree s self s' c). Qed.
Print Assumptions C02_op_clear_subtree.

Theorem C02_op_set_string_subtree s self t s' c : consistent s -> wf_op s (OSetString self t) ->
  op_set_string s self t = Ok s' ->
  In c (kids (hp s self)) -> forall f, abs_tree f (hp s') c = abs_tree f (hp s) c.
Proof. exact (op_set_string_subtree s self t s' c). Qed.
Print Assumptions C02_op_set_string_subtree.

Theorem C02_op_unwrap_subtree s self p s' c :
  consistent s -> wf_op s (OUnwrap self) -> par (hp s self) = Some p -> nonsoups s (kids (hp s self)) ->
  op_unwrap s self = Ok s' ->
  In c (kids (hp s self)) -> forall f, abs_tree f (hp s') c = abs_tree f (hp s) c.
Proof. exact (op_unwrap_subtree s self p s' c). Qed.
Print Assumptions C02_op_unwrap_subtree.

Theorem C02_op_replace_with_subtree s self p args cs s' :
  consistent s -> wf_op s (OReplaceWith self args) -> elem_args s args cs -> ~ In self cs ->
  par (hp s self) = Some p -> op_replace_with s self args = Ok s' ->
  (forall c, In c cs -> ~ anc (hp s) self c) ->
  forall f, abs_tree f (hp s') self = abs_tree f (hp s) self.
Proof. exact (op_replace_with_subtree s self p args cs s'). Qed.
Print Assumptions C02_op_replace_with_subtree.

Theorem C02_op_wrap_subtree s self w p s' :
  consistent s -> wf_op s (OWrap self w) -> par (hp s self) = Some p -> kind (hp s self) <> KSoup ->
  op_wrap s self w = Ok s' -> ~ anc (hp s) self w ->
  forall f, abs_tree f (hp s') self = abs_tree f (hp s) self.
Proof. exact (op_wrap_subtree s self w p s'). Qed.
Print Assumptions C02_op_wrap_subtree.

Theorem C02_op_insert_mixed_documented s self pos args s' :
  consistent s -> wf_op s (OInsert self pos args) -> Forall (nonsoup s) args -> NoDup (els args) ->
  op_insert s self pos args = Ok s' ->
  let ids := arg_ids (nxt s) args in
  nxt s' = nxt s + nstr args /\
  kids (hp s' self) = splice_spec pos ids (kids (hp s self)) /\
  (forall q, live s q -> q <> self -> kids (hp s' q) = others ids (kids (hp s q))) /\
  (forall c, In c ids -> par (hp s' c) = Some self) /\
  (forall y, y < nxt s -> ~ In y ids -> par (hp s' y) = par (hp s y)).
Proof. exact (op_insert_mixed_documented s self pos args s'). Qed.
Print Assumptions C02_op_insert_mixed_documented.

Theorem C02_op_extend_list_mixed_documented s self args s' :
  consistent s -> wf_op s (OExtendList self args) -> Forall (nonsoup s) args -> NoDup (els args) ->
  op_extend_list s self args = Ok s' ->
  let ids := arg_ids (nxt s) args in
  nxt s' = nxt s + nstr args /\
  kids (hp s' self) = others ids (kids (hp s self)) ++ ids /\
  (forall q, live s q -> q <> self -> kids (hp s' q) = others ids (kids (hp s q))) /\
  (forall c, In c ids -> par (hp s' c) = Some self) /\
  (forall y, y < nxt s -> ~ In y ids -> par (hp s' y) = par (hp s y)).
Proof. exact (op_extend_list_mixed_documented s self args s'). Qed.
Print Assumptions C02_op_extend_list_mixed_documented.

Theorem C02_op_insert_before_mixed_documented s self p args s' :
  consistent s -> wf_op s (OInsertBefore self args) -> Forall (nonsoup s) args -> NoDup (els args) ->
  par (hp s self) = Some p -> op_insert_before s self args = Ok s' ->
  let ids := arg_ids (nxt s) args in
  nxt s' = nxt s + nstr args /\
  kids (hp s' p) = before_spec self ids (kids (hp s p)) /\
  (forall q, live s q -> q <> p -> kids (hp s' q) = others ids (kids (hp s q))) /\
  (forall c, In c ids -> par (hp s' c) = Some p) /\
  (forall y, y < nxt s -> ~ In y ids -> par (hp s' y) = par (hp s y)).
Proof. exact (op_insert_before_mixed_documented s self p args s'). Qed.
Print Assumptions C02_op_insert_before_mixed_documented.

Theorem C02_op_insert_after_mixed_documented s self p args s' :
  consistent s -> wf_op s (OInsertAfter self args) -> Forall (nonsoup s) args -> NoDup (els args) ->
  par (hp s self) = Some p -> op_insert_after s self args = Ok s' ->
  let ids := arg_ids (nxt s) args in
  nxt s' = nxt s + nstr args /\
  kids (hp s' p) = after_spec self ids (kids (hp s p)) /\
  (forall q, live s q -> q <> p -> kids (hp s' q) = others ids (kids (hp s q))) /\
  (forall c, In c ids -> par (hp s' c) = Some p) /\
  (forall y, y < nxt s -> ~ In y ids -> par (hp s' y) = par (hp s y)).
Proof. exact (op_insert_after_mixed_documented s self p args s'). Qed.
Print Assumptions C02_op_insert_after_mixed_documented.

Theorem C02_op_replace_with_mixed_documented s self p args s' :
  consistent s -> wf_op s (OReplaceWith self args) -> Forall (nonsoup s) args -> NoDup (els args) ->
  ~ In (AEl self) args -> par (hp s self) = Some p -> op_replace_with s self args = Ok s' ->
  let ids := arg_ids (nxt s) args in
  nxt s' = nxt s + nstr args /\ par (hp s' self) = None /\
  kids (hp s' p) = replace_spec self ids (kids (hp s p)) /\
  (forall q, live s q -> q <> p -> kids (hp s' q) = others ids (kids (hp s q))) /\
  (forall c, In c ids -> par (hp s' c) = Some p) /\
  (forall y, y < nxt s -> y <> self -> ~ In y ids -> par (hp s' y) = par (hp s y)).
Proof. exact (op_replace_with_mixed_documented s self p args s'). Qed.
Print Assumptions C02_op_replace_with_mixed_documented.

(* ---- BeautifulSoup-object arguments, smooth(), clear(decompose=True), and one statement for every call (Proofs/EditConserve2.v) ----
   A BeautifulSoup argument stands for the children it still has when ITS TURN comes (processing time, not call time:
   Example ex_soup_processing_time) - C02_op_*_expansion give the receiving child list as the documented splice of that
   expansion, the frame, and that every soup argument ends up childless where it was.  smooth(): per tag of the subtree the
   child list is the old one with every maximal run of adjacent plain strings replaced by one fresh string whose text is the
   concatenation (empty strings are merged like any other; preformatted strings are not merged), nothing mergeable is left,
   the text in document order is unchanged, merged originals are live and detached.  C02_apply_op_documented: for EVERY
   admissible call that returns, the state is consistent, conservation holds and the call's documented effect holds. *)

Theorem C02_op_insert_expansion s self pos args s' :
  consistent s -> wf_op s (OInsert self pos args) -> op_insert s self pos args = Ok s' ->
  let ids := expand (hp s) (nxt s) [] args in
  nxt s' = nxt s + nstr args /\
  kids (hp s' self) = kmove_all pos ids (kids (hp s self)) /\
  (NoDup ids -> kids (hp s' self) = splice_spec pos ids (kids (hp s self))) /\
  placed s s' self ids /\ soups_emptied s s' args ids.
Proof. exact (op_insert_expansion s self pos args s'). Qed.
Print Assumptions C02_op_insert_expansion.

Theorem C02_op_insert_soup_documented s self pos args s' :
  consistent s -> wf_op s (OInsert self pos args) -> op_insert s self pos args = Ok s' ->
  let ids := arg_expansion (hp s) (nxt s) args in
  NoDup ids ->
  nxt s' = nxt s + nstr args /\
  kids (hp s' self) = splice_spec pos ids (kids (hp s self)) /\
  placed s s' self ids /\ soups_emptied s s' args ids.
Proof. exact (op_insert_soup_documented s self pos args s'). Qed.
Print Assumptions C02_op_insert_soup_documented.

Theorem C02_op_append_soup_documented s self a s' :
  consistent s -> wf_op s (OAppend self a) -> op_append s self a = Ok s' ->
  let ids := arg_just s a in
  nxt s' = nxt s + nstr [a] /\
  kids (hp s' self) = others ids (kids (hp s self)) ++ ids /\
  placed s s' self ids /\ soups_emptied s s' [a] ids.
Proof. exact (op_append_soup_documented s self a s'). Qed.
Print Assumptions C02_op_append_soup_documented.

Theorem C02_op_replace_with_expansion s self p args s' :
  consistent s -> wf_op s (OReplaceWith self args) -> ~ In (AEl self) args ->
  par (hp s self) = Some p -> op_replace_with s self args = Ok s' ->
  let ids := expand (hp s) (nxt s) [] args in
  nxt s' = nxt s + nstr args /\ par (hp s' self) = None /\
  (NoDup ids -> kids (hp s' p) = replace_spec self ids (kids (hp s p))) /\
  (forall q, live s q -> q <> p -> kids (hp s' q) = others ids (kids (hp s q))) /\
  (forall c, In c ids -> par (hp s' c) = Some p) /\
  (forall y, y < nxt s -> y <> self -> ~ In y ids -> par (hp s' y) = par (hp s y)) /\
  soups_emptied s s' args ids.
Proof. exact (op_replace_with_expansion s self p args s'). Qed.
Print Assumptions C02_op_replace_with_expansion.

Theorem C02_op_extend_list_expansion s self args s' :
  consistent s -> wf_op s (OExtendList self args) -> op_extend_list s self args = Ok s' ->
  let ids := expand (hp s) (nxt s) [] args in
  NoDup ids ->
  nxt s' = nxt s + nstr args /\
  kids (hp s' self) = others ids (kids (hp s self)) ++ ids /\
  placed s s' self ids /\ soups_emptied s s' args ids.
Proof. exact (op_extend_list_expansion s self args s'). Qed.
Print Assumptions C02_op_extend_list_expansion.

Theorem C02_op_insert_before_expansion s self p args s' :
  consistent s -> wf_op s (OInsertBefore self args) -> Forall (soup_root s) args ->
  par (hp s self) = Some p -> op_insert_before s self args = Ok s' ->
  let ids := expand (hp s) (nxt s) [] args in
  NoDup ids ->
  nxt s' = nxt s + nstr args /\
  kids (hp s' p) = before_spec self ids (kids (hp s p)) /\
  placed s s' p ids /\ soups_emptied s s' args ids.
Proof. exact (op_insert_before_expansion s self p args s'). Qed.
Print Assumptions C02_op_insert_before_expansion.

Theorem C02_op_insert_after_expansion s self p args s' :
  consistent s -> wf_op s (OInsertAfter self args) -> Forall (soup_root s) args ->
  par (hp s self) = Some p -> op_insert_after s self args = Ok s' ->
  let ids := expand (hp s) (nxt s) [] args in
  NoDup ids ->
  nxt s' = nxt s + nstr args /\
  kids (hp s' p) = after_spec self ids (kids (hp s p)) /\
  placed s s' p ids /\ soups_emptied s s' args ids.
Proof. exact (op_insert_after_expansion s self p args s'). Qed.
Print Assumptions C02_op_insert_after_expansion.

Theorem C02_expansion_disjoint s args : NoDup (arg_expansion (hp s) (nxt s) args) ->
  expand (hp s) (nxt s) [] args = arg_expansion (hp s) (nxt s) args /\ NoDup (expand (hp s) (nxt s) [] args).
Proof. exact (expansion_disjoint s args). Qed.
Print Assumptions C02_expansion_disjoint.

Theorem C02_op_clear_true_wiped s self s' : consistent s -> live s self -> op_clear s self true = Ok s' ->
  forall y, live s y -> anc (hp s) self y -> y <> self -> hp s' y = wiped (hp s y).
Proof. exact (op_clear_true_wiped s self s'). Qed.
Print Assumptions C02_op_clear_true_wiped.

Theorem C02_forest_read_off F s : cons_with F s ->
  forall T b, In (T, b) F -> abs_tree (fuel_of s) (hp s) (rid T) = T /\ par (hp s (rid T)) = None.
Proof. exact (forest_read_off F s). Qed.
Print Assumptions C02_forest_read_off.

Theorem C02_op_smooth_documented s self s' : consistent s -> live s self -> op_smooth s self = Ok s' ->
  ext s s' /\
  (forall q, live s q -> anc (hp s) self q -> (q = self \/ is_tag (hp s) q = true) ->
     exists n, nxt s <= n /\ kids (hp s' q) = fst (smooth_list (hp s) (kids (hp s q)) n)) /\
  (forall q, live s q -> ~ (anc (hp s) self q /\ (q = self \/ is_tag (hp s) q = true)) -> kids (hp s' q) = kids (hp s q)) /\
  (forall y, live s y -> par (hp s' y) = par (hp s y) \/
     (par (hp s' y) = None /\ exists q, anc (hp s) self q /\ par (hp s y) = Some q)) /\
  (forall q, live s q -> anc (hp s) self q -> (q = self \/ is_tag (hp s) q = true) ->
     mrel (nxt s') (hp s') (kids (hp s q)) (kids (hp s' q))).
Proof. exact (op_smooth_documented s self s'). Qed.
Print Assumptions C02_op_smooth_documented.

Theorem C02_op_smooth_text s self s' : consistent s -> live s self -> op_smooth s self = Ok s' ->
  forall f q, live s q -> anc (hp s) self q -> text_below f (hp s') q = text_below f (hp s) q.
Proof. exact (op_smooth_text s self s'). Qed.
Print Assumptions C02_op_smooth_text.

Theorem C02_op_smooth_merged s self s' q y : consistent s -> live s self -> op_smooth s self = Ok s' ->
  live s q -> anc (hp s) self q -> (q = self \/ is_tag (hp s) q = true) -> In y (kids (hp s q)) ->
  (In y (kids (hp s' q)) /\ par (hp s' y) = Some q) \/
  (~ In y (kids (hp s' q)) /\ par (hp s' y) = None /\ plain_str (hp s) y = true /\ kids (hp s' y) = [] /\ live s' y).
Proof. exact (op_smooth_merged s self s' q y). Qed.
Print Assumptions C02_op_smooth_merged.

Theorem C02_op_smooth_nothing_left s self s' q : consistent s -> live s self -> op_smooth s self = Ok s' ->
  live s q -> anc (hp s) self q -> (q = self \/ is_tag (hp s) q = true) ->
  marked_positions (hp s') 0 (kids (hp s' q)) = [].
Proof. exact (op_smooth_nothing_left s self s' q). Qed.
Print Assumptions C02_op_smooth_nothing_left.

Theorem C02_apply_op_documented s o s' : consistent s -> wf_op s o -> apply_op s o = Ok s' ->
  consistent s' /\ conserves_doc s o s' /\ documented s o s'.
Proof. exact (apply_op_documented s o s'). Qed.
Print Assumptions C02_apply_op_documented.
