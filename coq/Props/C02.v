(* C02 — Each editing call has exactly its documented effect on tree shape.
   Property theorems only. *)
From Coq Require Import List Arith Bool.
From BS Require Import Base.Sexp Model.Heap Model.Edit Proofs.HeapBasics.
Import ListNotations.

(* a successful _insert of a parentless child puts it at the requested (clipped) index *)
Theorem C02_insert1_places_child : forall fuel h self position nc h',
  insert1 fuel h self position nc = Some h' ->
  par (h nc) = None ->
  par (h' nc) = Some self /\
  kids (h' self) = insert_at (Nat.min position (length (kids (h self)))) nc (kids (h self)).
Proof. exact insert1_places_child. Qed.
Print Assumptions C02_insert1_places_child.
