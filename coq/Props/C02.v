(* C02 — Each editing call has exactly its documented effect on tree shape.
   Property theorems only.  Spec/ListEdit.v holds list-level models of what insert / insert_before /
   insert_after / replace_with do to the child list of the receiving tag (tied to the code by the
   correspondence run) and the documented effects; the theorems say they coincide for ALL lists. *)
From Coq Require Import List Arith Bool.
From BS Require Import Base.Sexp Model.Heap Model.Edit Spec.Tree Spec.ListEdit
  Proofs.HeapBasics Proofs.ExtractRep Proofs.InsertRep Proofs.ListEditProofs Proofs.EditBase Proofs.EditRep Proofs.EditEffect Model.EditOps.
Import ListNotations.

(* a successful _insert of a parentless child puts it at the requested (clipped) index *)
Theorem C02_insert1_places_child : forall fuel h self position nc h',
  insert1 fuel h self position nc = Some h' ->
  par (h nc) = None ->
  par (h' nc) = Some self /\
  kids (h' self) = insert_at (Nat.min position (length (kids (h self)))) nc (kids (h self)).
Proof. exact insert1_places_child. Qed.
Print Assumptions C02_insert1_places_child.

(* Tag.insert(position, c1, ..., cn): whatever mixture of new elements, earlier siblings and later
   siblings the arguments are, they end up contiguous, in the given order, immediately before the
   first old child at or after the requested position that is not itself an argument; every other
   child keeps its relative order (nothing else moves) *)
Theorem C02_insert_multi : forall cs pos K, NoDup cs -> NoDup K ->
  kmove_all pos cs K = splice_spec pos cs K.
Proof. exact kmove_all_spec. Qed.
Print Assumptions C02_insert_multi.

Theorem C02_insert_before : forall cs self K, NoDup cs -> NoDup K -> In self K -> ~ In self cs ->
  kbefore self cs K = before_spec self cs K.
Proof. exact kbefore_spec. Qed.
Print Assumptions C02_insert_before.

Theorem C02_insert_after : forall cs self K, NoDup cs -> NoDup K -> In self K -> ~ In self cs ->
  kafter self cs K = after_spec self cs K.
Proof. exact kafter_spec. Qed.
Print Assumptions C02_insert_after.

Theorem C02_replace_with : forall cs self K, NoDup cs -> NoDup K -> In self K -> ~ In self cs ->
  kreplace self cs K = replace_spec self cs K.
Proof. exact kreplace_spec. Qed.
Print Assumptions C02_replace_with.

(* no element is duplicated or lost, none occupies two places *)
Theorem C02_insert_conserves : forall cs pos K, NoDup cs -> NoDup K ->
  NoDup (kmove_all pos cs K) /\ (forall x, In x (kmove_all pos cs K) <-> In x K \/ In x cs).
Proof. exact splice_conserves. Qed.
Print Assumptions C02_insert_conserves.

Theorem C02_insert_contiguous : forall cs pos K, NoDup cs -> NoDup K ->
  exists A B, kmove_all pos cs K = A ++ cs ++ B /\ A ++ B = others cs K.
Proof. exact splice_contiguous. Qed.
Print Assumptions C02_insert_contiguous.

(* at tree level: extract takes exactly the subtree out (it comes back intact: s is the subtree as it
   was), _insert puts exactly the tree in as child number pos — both as effects on the forest the
   heap represents (shared with C01) *)
Theorem C02_extract_effect : forall F T b h x T' s fuel,
  rep ((T, b) :: F) h -> rid T <> x -> remove x T = (T', Some s) -> length (pre T) <= fuel ->
  rep ((T', b) :: (s, true) :: F) (extract fuel h x).
Proof. exact extract_rep. Qed.
Print Assumptions C02_extract_effect.

Theorem C02_insert_effect : forall F Tp bp Tc h self position fuel h',
  rep ((Tp, bp) :: (Tc, true) :: F) h ->
  In self (pre Tp) -> is_tag h self = true ->
  length (pre Tp) + length (pre Tc) <= fuel ->
  insert1 fuel h self position (rid Tc) = Some h' ->
  let pos := Nat.min position (length (kids (h self))) in
  rep ((insert_sub self pos Tc Tp, bp || (Nat.eqb self (rid Tp) && Nat.eqb pos 0)) :: F) h'.
Proof. exact insert1_rep. Qed.
Print Assumptions C02_insert_effect.

(* the general _insert: the new child may currently sit anywhere in the forest (same parent - with the
   code's index adjustment and its no-op branch -, another parent, another tree, or be a root), as
   long as it is not the destination or one of its ancestors: either nothing changes (it already is
   at that index), or the heap represents the forest in which exactly its subtree was taken out of
   where it was and put in as child number eff_pos of the destination - nothing else moves *)
Theorem C02_insert_move_effect : forall F h self position nc fuel h',
  rep F h -> In self (fids F) -> In nc (fids F) -> is_tag h self = true ->
  ~ anc h nc self -> unlinked_ok F nc -> length (fids F) <= fuel ->
  insert1 fuel h self position nc = Some h' ->
  let pos := Nat.min position (length (kids (h self))) in
  (h' = h /\ par (h nc) = Some self /\ index_of nc (kids (h self)) = Some pos) \/
  (exists F', rep F' h' /\ moved F F' self nc (eff_pos h self nc pos)).
Proof. exact insert1_move_rep. Qed.
Print Assumptions C02_insert_move_effect.

(* no call gets stuck: every admissible call other than insert_after returns, in a consistent state;
   insert_after returns when no argument is repeated or a BeautifulSoup object (else the code itself
   raises ValueError from parent.index(anchor)) *)
Theorem C02_calls_total : forall s o, consistent s -> wf_op_b s o = true ->
  (forall self args, o = OInsertAfter self args -> simple_args_b s args = true) ->
  exists s', apply_op s o = Ok s' /\ consistent s'.
Proof. exact op_total_b. Qed.
Print Assumptions C02_calls_total.

(* ---- the documented effect holds of the heap-level calls themselves ----
   For existing (non-BeautifulSoup) element arguments cs, in any consistent state and for any
   admissible call, the call's effect on the receiving tag's child list IS the documented splice
   (arguments contiguous, in order, at the requested place; the other children keep their order),
   the arguments leave their old parents, and nothing else moves. *)
Theorem C02_insert_documented : forall s self pos args cs s',
  consistent s -> wf_op s (OInsert self pos args) -> elem_args s args cs ->
  op_insert s self pos args = Ok s' ->
  kids (hp s' self) = splice_spec pos cs (kids (hp s self)).
Proof. exact op_insert_documented. Qed.
Print Assumptions C02_insert_documented.

Theorem C02_insert_nothing_else_moves : forall s self pos args cs s',
  consistent s -> wf_op s (OInsert self pos args) -> elem_args s args cs ->
  op_insert s self pos args = Ok s' ->
  (forall q, live s q -> q <> self ->
     kids (hp s' q) = filter (fun y => negb (mem y cs)) (kids (hp s q))) /\
  (forall c, In c cs -> par (hp s' c) = Some self) /\
  (forall y, live s y -> ~ In y cs -> par (hp s' y) = par (hp s y)).
Proof. exact op_insert_frame. Qed.
Print Assumptions C02_insert_nothing_else_moves.

Theorem C02_insert_before_documented : forall s self p args cs s',
  consistent s -> wf_op s (OInsertBefore self args) -> elem_args s args cs -> par (hp s self) = Some p ->
  op_insert_before s self args = Ok s' ->
  kids (hp s' p) = before_spec self cs (kids (hp s p)).
Proof. exact op_insert_before_documented. Qed.
Print Assumptions C02_insert_before_documented.

Theorem C02_insert_after_documented : forall s self p args cs s',
  consistent s -> wf_op s (OInsertAfter self args) -> elem_args s args cs -> par (hp s self) = Some p ->
  op_insert_after s self args = Ok s' ->
  kids (hp s' p) = after_spec self cs (kids (hp s p)).
Proof. exact op_insert_after_documented. Qed.
Print Assumptions C02_insert_after_documented.

Theorem C02_replace_with_documented : forall s self p args cs s',
  consistent s -> wf_op s (OReplaceWith self args) -> elem_args s args cs -> ~ In self cs ->
  par (hp s self) = Some p -> op_replace_with s self args = Ok s' ->
  kids (hp s' p) = replace_spec self cs (kids (hp s p)).
Proof. exact op_replace_with_documented. Qed.
Print Assumptions C02_replace_with_documented.
