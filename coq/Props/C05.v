(* C05 — Serialising and re-parsing gives the same tree back.
   Property theorems only.  The renderer is Model/Render.v (Tag.decode's loop over Tag._event_stream's
   explicit stack, _format_tag, output_ready, Formatter.substitute, quoted_attribute_value); the round trip is
   stated on tokens (Model/Reparse.v): the rendering is the spelling of a token sequence, and an HTML
   parser that reads those tokens back (read_tokens: html.parser + BeautifulSoupHTMLParser, token by
   token) into the documented construction rules (Spec/BuildSpec.v spec_run, C03) builds [norm] of the
   tree.  That the standard-library tokenizer cuts the text into those tokens is outside the proof and
   is compared on every run (harness/props/c05.py).  Tables are regenerated from /repo on every run. *)
From Coq Require Import List NArith ZArith Bool String.
From BS Require Import Base.Sexp Base.Types Base.Lit Gen.Tables Gen.Stdlib Gen.T_C05 Gen.Entities
     Model.Attrs Model.Render Model.Reparse Model.Build Model.SmartQuotes Spec.BuildSpec Spec.RenderSpec Spec.RoundTrip
     Proofs.RenderProofs Proofs.RoundTripProofs Proofs.NormProofs Proofs.RoundTripHtml
     Model.Adapter Model.Tokenizer Model.TokParse Spec.DocWrite Spec.RenderTok Proofs.AdapterCompose Proofs.RenderTokProofs.
From BS Require Model.EntitySubst.
Import ListNotations.
Open Scope N_scope.

(* ---- the event loop ---- *)

(* _event_stream's explicit stack, driven by comparing each element's parent with the top of the stack
   over the pre-order, emits exactly the recursive bracket sequence of the tree: START ... END around
   the children, EMPTY for an empty-element tag, STRING for a string — for every tree (and from the
   children of the starting element, as decode_contents and a hidden BeautifulSoup object do) *)
Theorem C05_event_stream_brackets : forall q par pn t,
  event_stream (flat q par pn t) = brackets q par pn t.
Proof. exact event_stream_tree. Qed.
Print Assumptions C05_event_stream_brackets.

Theorem C05_event_stream_brackets_contents : forall q pn i ks,
  event_stream (flat_kids q pn i ks) = brackets_kids q pn i ks.
Proof. exact event_stream_kids. Qed.
Print Assumptions C05_event_stream_brackets_contents.

(* decode() returns, piece by piece, the recursive rendering *)
Theorem C05_decode_is_recursive_render : forall enc f level t,
  decode_pieces enc f level t = render_spec enc f level t.
Proof. exact decode_pieces_spec. Qed.
Print Assumptions C05_decode_is_recursive_render.

(* ---- never an empty-element tag around children; script/style text verbatim ---- *)

Theorem C05_no_empty_tag_with_children : forall t, Forall empty_ok (event_stream (elements_of t)).
Proof. exact no_empty_tag_with_children. Qed.
Print Assumptions C05_no_empty_tag_with_children.

Theorem C05_tag_with_children_rendering : forall enc f pn p k ks,
  plain enc f pn (NTag p (k :: ks)) =
  format_tag enc f p (S (List.length ks)) true :: plain_kids enc f (g_name p) (k :: ks) ++ [format_tag enc f p (S (List.length ks)) false]
  /\ is_empty_element p (S (List.length ks)) = false.
Proof. exact tag_with_children_rendering. Qed.
Print Assumptions C05_tag_with_children_rendering.

Theorem C05_cdata_text_verbatim : forall f c s pname,
  output_kind c = 0 -> affixes c = ([], []) -> memS pname (f_cdata f) = true ->
  output_ready f c s (Some pname) = s.
Proof. exact cdata_text_verbatim. Qed.
Print Assumptions C05_cdata_text_verbatim.

Theorem C05_other_text_substituted : forall f g c s pname,
  f_subst f = Some g -> output_kind c = 0 -> affixes c = ([], []) ->
  match pname with Some n => memS n (f_cdata f) | None => false end = false ->
  output_ready f c s pname = g s.
Proof. exact other_text_substituted. Qed.
Print Assumptions C05_other_text_substituted.

Theorem C05_special_strings_verbatim : forall f c s pname,
  output_kind c = 1 -> output_ready f c s pname = fst (affixes c) ++ s ++ snd (affixes c).
Proof. exact preformatted_verbatim. Qed.
Print Assumptions C05_special_strings_verbatim.

(* ---- the round trip ---- *)

(* what decode() returns is the spelling of the tree's tokens *)
Theorem C05_decode_is_spelled_tokens : forall enc f t,
  decode enc f None t = List.concat (map spell (tokens_of enc f t)).
Proof. exact decode_is_spelled_tokens. Qed.
Print Assumptions C05_decode_is_spelled_tokens.

(* For every representable tree, every formatter whose substitution function g the readers undo, HTML- or
   XML-flavoured tags alike: reading the tokens back and building gives norm of the tree — the same
   elements and attributes, text runs merged and whitespace-only runs normalised, special strings with
   their class, a newline after a doctype.  (g, rt, ra are parameters: C09 proves the substitution
   functions; for substitute_xml the next theorem discharges the hypotheses.) *)
Theorem C05_roundtrip_tokens : forall enc f rt ra rc cfg g,
  f_subst f = Some g -> g [] = [] -> (forall s, rt (g s) = s) -> rt [] = [] ->
  (forall s, ra (attr_inner (g s)) = s) -> f_void f <> [] -> rt [10] = [10] ->
  memS (c_root cfg) (c_pw cfg) = false -> assocS (c_root cfg) (c_containers cfg) = None ->
  forall t, representable_top f rc cfg t = true ->
  spec_run cfg (read_tokens rt ra rc (tokens_of enc f t)) = flat_tree cfg (norm enc f cfg t).
Proof. exact roundtrip_tokens. Qed.
Print Assumptions C05_roundtrip_tokens.

(* the 'minimal' formatter (substitute_xml), with bs4's own reading of character data: nothing assumed *)
Theorem C05_roundtrip_minimal : forall enc f rc cfg t,
  f_subst f = Some subst_xml -> f_void f <> [] ->
  memS (c_root cfg) (c_pw cfg) = false -> assocS (c_root cfg) (c_containers cfg) = None ->
  representable_top f rc cfg t = true ->
  spec_run cfg (read_tokens read_text read_text rc (tokens_of enc f t)) = flat_tree cfg (norm enc f cfg t).
Proof. exact roundtrip_minimal. Qed.
Print Assumptions C05_roundtrip_minimal.

(* the 'html' formatter: the substitution function is C09's model of substitute_html; element text is read by bs4's
   reader (read_text: the definition C09's theorems are about as well), attribute values by the model of html.unescape
   (Model/EntitySubst.v unescape), which is what html.parser applies to a quoted value.  No hypothesis about the
   functions is left: C09's html_escaped / escaped_reads_back / replace_dq_transparent discharge them. *)
Theorem C05_roundtrip_html : forall enc f rc cfg t,
  f_subst f = Some EntitySubst.substitute_html -> f_void f <> [] ->
  memS (c_root cfg) (c_pw cfg) = false -> assocS (c_root cfg) (c_containers cfg) = None ->
  representable_top f rc cfg t = true ->
  spec_run cfg (read_tokens read_text EntitySubst.unescape rc (tokens_of enc f t)) = flat_tree cfg (norm enc f cfg t).
Proof. exact roundtrip_html. Qed.
Print Assumptions C05_roundtrip_html.

(* 'minimal' with the same pair of readers (attribute values through html.unescape rather than the reference reader
   of C05_roundtrip_minimal), resting on C09's escaped_reads_back *)
Theorem C05_roundtrip_minimal_unescape : forall enc f rc cfg t,
  f_subst f = Some subst_xml -> f_void f <> [] ->
  memS (c_root cfg) (c_pw cfg) = false -> assocS (c_root cfg) (c_containers cfg) = None ->
  representable_top f rc cfg t = true ->
  spec_run cfg (read_tokens read_text EntitySubst.unescape rc (tokens_of enc f t)) = flat_tree cfg (norm enc f cfg t).
Proof. exact roundtrip_minimal_unescape. Qed.
Print Assumptions C05_roundtrip_minimal_unescape.

(* what stands between the quotes of a written attribute value reads, under html.unescape, as the substituted text
   before quoting; hence both substitutions read back in both positions *)
Theorem C05_substitutions_read_back : forall s,
  read_text (EntitySubst.substitute_html s) = s /\
  EntitySubst.unescape (attr_inner (EntitySubst.substitute_html s)) = s /\
  read_text (subst_xml s) = s /\
  EntitySubst.unescape (attr_inner (subst_xml s)) = s.
Proof.
  intros s. destruct (html_reads_back s) as [A B]. destruct (minimal_reads_back s) as [C D]. repeat split; assumption.
Qed.
Print Assumptions C05_substitutions_read_back.

Theorem C05_read_text_inverts_substitute_xml : forall s,
  read_text (subst_xml s) = s /\ read_text (attr_inner (subst_xml s)) = s.
Proof. intros s. split; [apply read_text_subst_xml|apply read_text_attr_subst_xml]. Qed.
Print Assumptions C05_read_text_inverts_substitute_xml.

(* A second round trip changes nothing — full strength:
     forall t, norm enc f cfg (doc cfg (norm enc f cfg t)) = norm enc f cfg t
   is FALSE of the code: a doctype's newline is written again on every rendering and merges into the text that
   follows, so that text grows by one newline per round trip (known finding C05-doctype-newline-accumulates).
   Proved: it holds for every tree whose re-parsed form has stable doctypes — outside whitespace-preserving
   elements every string written with a trailing newline (the Doctype) is followed by exactly the text "\n"
   (whitespace-only runs collapse back to it), as in  <!DOCTYPE html>\n<html>...  *)
Theorem C05_second_roundtrip_partial : forall enc f cfg,
  (forall n c, assocS n (c_containers cfg) = Some c -> output_kind c = 0) -> memN 10 (c_spaces cfg) = true ->
  forall t, stable_doctypes cfg (norm enc f cfg t) = true ->
  norm enc f cfg (doc cfg (norm enc f cfg t)) = norm enc f cfg t.
Proof. exact norm_second_roundtrip_partial. Qed.
Print Assumptions C05_second_roundtrip_partial.

Theorem C05_second_roundtrip_html_partial : forall enc f t,
  stable_doctypes html_bcfg (norm enc f html_bcfg t) = true ->
  norm enc f html_bcfg (doc html_bcfg (norm enc f html_bcfg t)) = norm enc f html_bcfg t.
Proof. exact norm_second_roundtrip_partial_html. Qed.
Print Assumptions C05_second_roundtrip_html_partial.

(* the excluded class is real: <!DOCTYPE x>a  re-parses as  Doctype "x", "\na"  and then as  Doctype "x", "\n\na" *)
Theorem C05_second_roundtrip_refuted :
  let f := mkfmt (Some subst_xml) (lit "/") html_cdata_containing_tags false (lit " ") in
  exists t, representable_top f (html_rcfg true) html_bcfg t = true /\
            t = doc html_bcfg [NS 6 (lit "x"); NS 0 (lit "a")] /\
            norm true f html_bcfg t = [NS 6 (lit "x"); NS 0 (10 :: lit "a")] /\
            norm true f html_bcfg (doc html_bcfg (norm true f html_bcfg t)) = [NS 6 (lit "x"); NS 0 (10 :: 10 :: lit "a")].
Proof. eexists. repeat split; reflexivity. Qed.
Print Assumptions C05_second_roundtrip_refuted.

(* the hypothesis is satisfiable: <!DOCTYPE html>\n<p>a</p> — also without the newline in the source, which the
   first round trip supplies *)
Example C05_stable_doctypes_example :
  let f := mkfmt (Some subst_xml) (lit "/") html_cdata_containing_tags false (lit " ") in
  let p := NT (lit "p") [] [NS 0 (lit "a")] in
  stable_doctypes html_bcfg (norm true f html_bcfg (doc html_bcfg [NS 6 (lit "html"); NS 0 [10]; p])) = true /\
  stable_doctypes html_bcfg (norm true f html_bcfg (doc html_bcfg [NS 6 (lit "html"); p])) = true /\
  stable_doctypes html_bcfg (norm true f html_bcfg (doc html_bcfg [NS 6 (lit "x"); NS 0 (lit "a")])) = false.
Proof. repeat split; reflexivity. Qed.

(* ---- table obligations ---- *)

(* PREFIX / SUFFIX of every string class, as the reader of Model/Reparse.v assumes them *)
Theorem C05_string_class_affixes :
  string_class_affixes =
  [(0, ([], [])); (1, (lit "<![CDATA[", lit "]]>")); (2, (lit "<?", lit ">")); (3, (lit "<?", lit "?>"));
   (4, (lit "<!--", lit "-->")); (5, (lit "<?", lit "?>")); (6, (lit "<!DOCTYPE ", lit ">" ++ [10]));
   (7, ([], [])); (8, ([], [])); (9, ([], [])); (10, ([], [])); (11, ([], []))].
Proof. reflexivity. Qed.
Print Assumptions C05_string_class_affixes.

(* NavigableString and the container classes go through the formatter; CData, processing instructions,
   Comment, Declaration, Doctype bypass it; no class has an output_ready of its own *)
Theorem C05_string_class_output :
  string_class_output = [(0, 0); (1, 1); (2, 1); (3, 1); (4, 1); (5, 1); (6, 1); (7, 0); (8, 0); (9, 0); (10, 0); (11, 0)].
Proof. reflexivity. Qed.
Print Assumptions C05_string_class_output.

(* 'minimal' is substitute_xml and 'html' is substitute_html in both registries; both write "/" before the
   ">" of an empty-element tag; script and style are the HTML formatters' cdata-containing tags, the XML
   formatters have none *)
Definition reg_entry (flav : N) (name : string) :=
  find (fun r => match r with (fl, nm, _, _, _, _, _, _) =>
                   (fl =? flav) && match nm with Some n => str_eqb n (lit name) | None => false end end) formatter_registry.
Theorem C05_formatter_registry :
  reg_entry 0 "minimal" = Some (0, Some (lit "minimal"), 1, lit "/", [lit "script"; lit "style"], false, lit " ", 0) /\
  reg_entry 0 "html" = Some (0, Some (lit "html"), 2, lit "/", [lit "script"; lit "style"], false, lit " ", 0) /\
  reg_entry 1 "minimal" = Some (1, Some (lit "minimal"), 1, lit "/", [], false, lit " ", 1) /\
  reg_entry 1 "html" = Some (1, Some (lit "html"), 2, lit "/", [], false, lit " ", 1).
Proof. repeat split; reflexivity. Qed.
Print Assumptions C05_formatter_registry.

(* substitute_xml replaces exactly & < > and the XML entity names are the documented five *)
Theorem C05_xml_entity_table :
  ampersand_or_bracket = [38; 60; 62] /\
  character_to_xml_entity = [(34, lit "quot"); (38, lit "amp"); (39, lit "apos"); (60, lit "lt"); (62, lit "gt")].
Proof. split; reflexivity. Qed.
Print Assumptions C05_xml_entity_table.

(* the HTML formatters' cdata-containing tags are the parser's raw-text elements *)
Theorem C05_cdata_tags_are_raw_text_elements :
  html_cdata_containing_tags = htmlparser_cdata_content_elements /\
  html_cdata_containing_tags = [lit "script"; lit "style"].
Proof. split; reflexivity. Qed.
Print Assumptions C05_cdata_tags_are_raw_text_elements.

(* the HTML builder's root is neither whitespace-preserving nor a string container *)
Theorem C05_html_root_plain :
  memS (c_root html_bcfg) (c_pw html_bcfg) = false /\ assocS (c_root html_bcfg) (c_containers html_bcfg) = None.
Proof. split; reflexivity. Qed.
Print Assumptions C05_html_root_plain.

(* ---- a finding: a Declaration does not come back ---- *)
(* html.parser hands marked sections such as <![if IE]> to unknown_decl, which makes a Declaration; it is
   written <?if IE?> and read back as the processing instruction "if IE?" (known finding C05-declaration-as-pi) *)
Theorem C05_declaration_class_refuted :
  let f := mkfmt (Some subst_xml) (lit "/") html_cdata_containing_tags false (lit " ") in
  exists t, representable_top f (html_rcfg true) html_bcfg t = true /\
            t = doc html_bcfg [NS 5 (lit "if IE")] /\
            norm true f html_bcfg t = [NS 2 (lit "if IE?")].
Proof. eexists. repeat split; reflexivity. Qed.
Print Assumptions C05_declaration_class_refuted.

(* the hypotheses are satisfiable: a document with every kind of token is representable, and the theorem's
   two sides compute to the same tree *)
Example C05_example :
  let f := mkfmt (Some subst_xml) (lit "/") html_cdata_containing_tags false (lit " ") in
  let pw := default_preserve_whitespace_tags in
  let tag (n : string) attrs void ks := NTag (mktag (lit n) None attrs false void pw) ks in
  let t := NTag (mktag root_tag_name None [] true false pw)
             [NStr 6 (lit "html");
              tag "p"%string [(lit "title", RStr (lit "a&b""c'<")); (lit "class", RList [lit "x"; lit "y"])] false
                  [NStr 0 (lit "1 < 2 &amp; "); NStr 0 (lit "3"); tag "br"%string [] true []; NStr 4 (lit " c ")];
              tag "script"%string [] false [NStr 8 (lit "a<b&&c")];
              NStr 1 (lit "x]]"); NStr 2 (lit "pi ?")] in
  representable_top f (html_rcfg true) html_bcfg t = true /\
  spec_run html_bcfg (read_tokens read_text read_text (html_rcfg true) (tokens_of true f t)) =
  flat_tree html_bcfg (norm true f html_bcfg t) /\
  decode true f None t =
  lit "<!DOCTYPE html>" ++ [10] ++
  lit "<p class=""x y"" title=""a&amp;b&quot;c'&lt;"">1 &lt; 2 &amp;amp; 3<br/><!-- c --></p><script>a<b&&c</script><![CDATA[x]]]]><?pi ?>".
Proof. repeat split; vm_compute; reflexivity. Qed.

(* ================= from the rendered STRING (the tokenizer inside the model) =================
   Model/Tokenizer.v is the model of the installed html/parser.py + _markupbase.py (tied by correspondence and by
   fingerprints, Props/C18.v); [callbacks unesc text] is what BeautifulSoupHTMLParser receives for a text, [adapted] what
   the adapter model (Model/Adapter.v) makes of it, [parse_string] the heap built.  [unesc] stands for html.unescape.
   [toks_covered rc toks] (Spec/RenderTok.v) is the sub-domain: element names [a-z][a-z0-9-.:_]*; start tags only for
   non-void elements, void elements as empty-element tags with "/"; script / style elements holding at most one piece of
   raw text free of '<'; attribute names [a-z_:][a-z0-9-.:_]*, distinct, every value laid out between double quotes or,
   when it contains a double quote, between single quotes (references allowed); character data in which every '&' begins
   a complete reference &name; / &#digits; / &#xhex; (what substitute_xml / substitute_html produce); comments without
   '--', CDATA sections without ']', processing instructions, declarations and doctypes without '>'; hidden tags.
   PARTIAL: void elements written as start tags, raw text containing '<' or in several strings, comments containing '--',
   names with other characters and bare '&' in text are outside these theorems (token level + correspondence as before). *)

(* For EVERY covered token list: tokenizing its spelling and adapting the callbacks builds exactly what the token-level
   reader's events build (same documented fold), and html.parser does not reject the text.  [text_value] — what
   handle_data / handle_entityref / handle_charref make of a piece of character data — is the reader's rt, html.unescape
   (with "" for "") its ra.  No assumption on unesc. *)
Theorem C05_rendered_string_read_partial : forall unesc cfg rc,
  (forall n, can_be_empty (a_b cfg) n = memS n (r_void rc)) ->
  forall toks, toks_covered rc toks = true ->
  rejected unesc (List.concat (map spell toks)) = false /\
  spec_run (a_b cfg) (adapted cfg (callbacks unesc (List.concat (map spell toks)))) =
  spec_run (a_b cfg) (read_tokens (text_value (a_orig cfg)) (attr_read unesc) rc toks).
Proof. exact rendered_string_read. Qed.
Print Assumptions C05_rendered_string_read_partial.

(* The round trip through the STRING: render, tokenize, adapt, build = the normalised tree (fold and heap), for every
   representable tree whose tokens are covered, whenever the formatter's substitution g is undone by what the parser
   makes of character data and by html.unescape on attribute values (both hypotheses are evaluated by the harness on
   every string it meets, the second one against the real html.unescape). *)
Theorem C05_string_round_trip_partial : forall unesc enc f rc cfg g t,
  f_subst f = Some g -> g [] = [] ->
  (forall s, text_value (a_orig cfg) (g s) = s) ->
  (forall s, attr_read unesc (attr_inner (g s)) = s) ->
  f_void f <> [] ->
  memS (c_root (a_b cfg)) (c_pw (a_b cfg)) = false -> assocS (c_root (a_b cfg)) (c_containers (a_b cfg)) = None ->
  (forall n, can_be_empty (a_b cfg) n = memS n (r_void rc)) ->
  representable_top f rc (a_b cfg) t = true ->
  toks_covered rc (tokens_of enc f t) = true ->
  rejected unesc (decode enc f None t) = false /\
  spec_run (a_b cfg) (adapted cfg (callbacks unesc (decode enc f None t))) = flat_tree (a_b cfg) (norm enc f (a_b cfg) t) /\
  heap_is (parse_string cfg unesc (decode enc f None t)) (flat_tree (a_b cfg) (norm enc f (a_b cfg) t)).
Proof. exact string_round_trip. Qed.
Print Assumptions C05_string_round_trip_partial.

(* what the parser makes of substitute_xml's output is the text itself: every string *)
Theorem C05_text_value_inverts_substitute_xml : forall orig s, text_value orig (subst_xml s) = s.
Proof. exact text_value_subst_xml. Qed.
Print Assumptions C05_text_value_inverts_substitute_xml.

(* hence, for the 'minimal' formatter and with C09's model of html.unescape in the place of html.unescape, NOTHING is
   assumed: every representable tree with covered tokens comes back, from the rendered STRING, as its normalised tree *)
Theorem C05_string_round_trip_minimal_partial : forall enc f rc cfg t,
  f_subst f = Some subst_xml -> f_void f <> [] ->
  memS (c_root (a_b cfg)) (c_pw (a_b cfg)) = false -> assocS (c_root (a_b cfg)) (c_containers (a_b cfg)) = None ->
  (forall n, can_be_empty (a_b cfg) n = memS n (r_void rc)) ->
  representable_top f rc (a_b cfg) t = true ->
  toks_covered rc (tokens_of enc f t) = true ->
  rejected EntitySubst.unescape (decode enc f None t) = false /\
  spec_run (a_b cfg) (adapted cfg (callbacks EntitySubst.unescape (decode enc f None t))) =
    flat_tree (a_b cfg) (norm enc f (a_b cfg) t) /\
  heap_is (parse_string cfg EntitySubst.unescape (decode enc f None t)) (flat_tree (a_b cfg) (norm enc f (a_b cfg) t)).
Proof. exact string_round_trip_minimal. Qed.
Print Assumptions C05_string_round_trip_minimal_partial.

(* the hypotheses are satisfiable: a document with a doctype, nested elements, attributes, markup-significant text, a
   void element, a comment, a CDATA section and a processing instruction is representable and covered, and the string
   route computes the promised tree *)
Example C05_string_example :
  let f := mkfmt (Some subst_xml) (lit "/") html_cdata_containing_tags false (lit " ") in
  let pw := default_preserve_whitespace_tags in
  let tag (n : string) attrs void ks := NTag (mktag (lit n) None attrs false void pw) ks in
  let cfg := mkacfg html_bcfg DupReplace (fun d _ _ => d) true None in
  let t := NTag (mktag root_tag_name None [] true false pw)
             [NStr 6 (lit "html");
              tag "p"%string [(lit "title", RStr (lit "a&b'c<")); (lit "class", RList [lit "x"; lit "y"])] false
                  [NStr 0 (lit "1 < 2 &amp; "); NStr 0 (lit "3"); tag "br"%string [] true []; NStr 4 (lit " c ")];
              NStr 1 (lit "x"); NStr 2 (lit "pi ?")] in
  representable_top f (html_rcfg false) html_bcfg t = true /\
  toks_covered (html_rcfg false) (tokens_of true f t) = true /\
  spec_run html_bcfg (adapted cfg (callbacks EntitySubst.unescape (decode true f None t))) =
  flat_tree html_bcfg (norm true f html_bcfg t).
Proof. repeat split; vm_compute; reflexivity. Qed.

