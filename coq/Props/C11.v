(* C11 — Working with a tree never recurses on its depth.

   Property theorems only.  They are statements about the call-structure model Model/Depth.v:
   [d_<operation>] is the maximum number of simultaneously active frames of the tree code
   (functions of bs4/element.py, bs4/__init__.py, bs4/filter.py) while the operation runs.  The
   model is tied to the code on every run by the measured depth of every operation on the shape
   families and on random trees (harness/props/c11.py); frames of the standard library are outside
   it (measured by the oracle only).  Quantifiers: every tree (elem), every ancestor chain, every
   formatter / indent / encoding choice, every search criterion, every argument list, every
   sequence of parser callbacks, every nesting depth — no size bound anywhere. *)
From Coq Require Import List NArith Arith Bool String.
From BS Require Import Base.Sexp Base.Types Base.Lit Gen.T_C11 Model.Depth
     Proofs.DepthProofs Proofs.DepthParse Proofs.DepthFamilies Proofs.DepthMain.
Import ListNotations.
Local Open Scope nat_scope.

(* ---- rendering: decode, encode, prettify, decode_contents, encode_contents, str() ---- *)
(* any tree at all (elements that do not know whether they are XML cost one find("is_xml") at the top) *)
Theorem C11_render_bounded : forall e ctx indent f enc to_bytes,
  d_decode e ctx indent f enc <= 16 /\ d_encode e ctx indent f <= 17 /\ d_prettify e ctx to_bytes f <= 18 /\
  d_decode_contents e ctx indent f <= 17 /\ d_encode_contents e ctx indent f <= 18 /\ d_str e ctx <= 17.
Proof. exact render_bounded_thm. Qed.
Print Assumptions C11_render_bounded.

(* below anything that knows its markup language — every parsed document, every BeautifulSoup object *)
Theorem C11_render_bounded_in_documents : forall e ctx indent f enc to_bytes,
  chain_known (e :: ctx) = true ->
  d_decode e ctx indent f enc <= 6 /\ d_encode e ctx indent f <= 7 /\ d_prettify e ctx to_bytes f <= 8 /\
  d_decode_contents e ctx indent f <= 7 /\ d_encode_contents e ctx indent f <= 8 /\ d_str e ctx <= 7.
Proof. exact render_bounded_in_documents_thm. Qed.
Print Assumptions C11_render_bounded_in_documents.
Example C11_known_chain_satisfiable : chain_known [document FTrailText 3] = true.
Proof. reflexivity. Qed.

(* ---- copying and pickling ---- *)
Theorem C11_copy_bounded : forall e ctx,
  d_deepcopy e ctx <= 16 /\ d_copy e ctx <= 17 /\
  (chain_known (e :: ctx) = true -> d_deepcopy e ctx <= 7 /\ d_copy e ctx <= 8).
Proof. exact copy_bounded_thm. Qed.
Print Assumptions C11_copy_bounded.

Theorem C11_pickle_bounded : forall soup cfg callbacks deep eqres,
  d_getstate soup <= 17 /\ (chain_known [soup] = true -> d_getstate soup <= 7) /\
  d_setstate deep eqres cfg callbacks <= 6.
Proof. exact pickle_bounded_thm. Qed.
Print Assumptions C11_pickle_bounded.

(* ---- text extraction ---- *)
Theorem C11_text_bounded : forall e,
  d_get_text e <= 4 /\ d_stripped_strings e <= 4 /\ d_string_property e = 1.
Proof. exact text_bounded_thm. Qed.
Print Assumptions C11_text_bounded.

(* ---- searching: every criterion, every axis ---- *)
Theorem C11_search_bounded : forall (c : crit) (e : elem) (elems : list elem) (n : str),
  d_find_all c e <= 10 /\ d_find c e <= 11 /\ d_tag_getattr n e <= 12 /\ d_tag_call c e <= 11 /\
  d_find_all_axis c elems <= 10 /\ d_find_one_axis c elems <= 12 /\ d_find_parent c elems <= 11.
Proof. exact search_bounded_thm. Qed.
Print Assumptions C11_search_bounded.

Theorem C11_iterators_bounded : forall k e, d_iter k e <= 3.
Proof. exact iter_bounded. Qed.
Print Assumptions C11_iterators_bounded.

(* ---- the editing calls.  Arguments are well-formed when a BeautifulSoup argument does not itself
        contain BeautifulSoup objects (it never does: _insert expands them) ---- *)
Theorem C11_edit_bounded : forall (args : list ins_arg) (a : ins_arg) (e : elem) (decompose : bool),
  forallb wf_arg args = true -> wf_arg a = true ->
  d_insert args <= 6 /\ d_append a <= 7 /\ d_extend args <= 8 /\ d_insert_beside args <= 7 /\
  d_replace_with args <= 7 /\ d_wrap = 5 /\ d_unwrap e <= 6 /\ d_clear e decompose <= 4 /\
  d_set_string e <= 6 /\ d_smooth e <= 6 /\ d_extract = 2 /\ d_decompose e = 3 /\ d_new_string = 3.
Proof. exact edit_bounded_thm. Qed.
Print Assumptions C11_edit_bounded.
Example C11_edit_args_satisfiable : forallb wf_arg [IStr; IFresh; IAttached false; ISoup [IFresh; IStr]] = true.
Proof. reflexivity. Qed.
(* the hypothesis is needed: BeautifulSoup objects nested n deep (which the library never builds)
   would cost 2n+2 frames *)
Theorem C11_edit_nested_soups_unbounded : forall n, d_insert_one (soup_tower n) = 2 * n + 2.
Proof. exact soup_tower_depth. Qed.
Print Assumptions C11_edit_nested_soups_unbounded.

(* ---- parsing: every sequence of parser callbacks, every builder configuration ---- *)
Theorem C11_parse_bounded : forall deep eqres cfg markup callbacks,
  d_parse deep eqres cfg markup callbacks <= 6.
Proof. exact parse_bounded_thm. Qed.
Print Assumptions C11_parse_bounded.

(* popTag compares tags with the structural ==, which recurses over children; along every run the
   compared tags are the same object or have different names, so the parse depth does not depend on
   what a deep comparison would cost [deep] or answer [eqres] *)
Theorem C11_parse_never_compares_deeply : forall deep eqres deep' eqres' cfg markup callbacks,
  d_parse deep eqres cfg markup callbacks = d_parse deep' eqres' cfg markup callbacks.
Proof. exact parse_never_compares_deeply_thm. Qed.
Print Assumptions C11_parse_never_compares_deeply.

(* ---- the shape families of the property: the depth at nesting depth d is the depth at 2, for
        every d >= 2 (so at d, at 2d and beyond any recursion limit alike) ---- *)
Theorem C11_family_depth_independent : forall (f : family) (d : nat), 2 <= d ->
  (forall indent fm enc, d_decode (document f d) [] indent fm enc = d_decode (document f 2) [] indent fm enc) /\
  (forall indent fm, d_decode_contents (document f d) [] indent fm = d_decode_contents (document f 2) [] indent fm) /\
  (forall c, c_limit c = None -> c_recursive c = true -> d_find_all c (document f d) = d_find_all c (document f 2)) /\
  d_get_text (document f d) = d_get_text (document f 2) /\
  d_smooth (document f d) = d_smooth (document f 2) /\
  d_deepcopy (document f d) [] = d_deepcopy (document f 2) [].
Proof. exact family_depth_independent_thm. Qed.
Print Assumptions C11_family_depth_independent.

(* the bounds are attained on the families *)
Theorem C11_bounds_attained :
  d_decode (document FAttrs 3) [] false (FmtName true) EncNormal = 6 /\
  d_prettify (document FTrailText 3) [] true (FmtName true) = 8 /\
  d_copy (document FRepeat 3) [] = 7 /\ d_get_text (document FChain 3) = 4 /\
  d_smooth (soup_ [tag_ s_a [] [text_ s_x; text_ s_x]]) = 6 /\
  d_find (mkcrit (SOne (RStr s_a)) [(s_id, SOne (RStr s_x))] SNone None true) (document FAttrs 3) = 11.
Proof. exact bounds_attained_thm. Qed.
Print Assumptions C11_bounds_attained.

(* ---- the four recursion sites as they were before the repairs: depth grew with the nesting ---- *)
(* `c.parent != tag_stack[-1]` in _event_stream, on the trailing-text family *)
Theorem C11_legacy_event_stream_ne_unbounded : forall n,
  legacy_d_parent_ne (nest FTrailText (S n)) (nest FTrailText n) = 2 * n + 2.
Proof. exact legacy_parent_ne_depth. Qed.
Print Assumptions C11_legacy_event_stream_ne_unbounded.
Theorem C11_legacy_tag_string_unbounded : forall n, legacy_d_tag_string (nest FChain (S n)) = S (S n).
Proof. exact legacy_tag_string_depth. Qed.
Print Assumptions C11_legacy_tag_string_unbounded.
Theorem C11_legacy_smooth_unbounded : forall n, legacy_d_smooth (nest FChain n) = S n.
Proof. exact legacy_smooth_depth. Qed.
Print Assumptions C11_legacy_smooth_unbounded.
Theorem C11_legacy_is_xml_unbounded : forall n, legacy_d_is_xml (repeat unknown_tag (S n)) = S n.
Proof. exact legacy_is_xml_depth. Qed.
Print Assumptions C11_legacy_is_xml_unbounded.

(* ---- obligations over the source, regenerated on every run (Gen/T_C11.v) ---- *)
(* no function of the tree code reaches for its own name on another object, except these (a dict's
   get, a str's encode, the CSS object's select, the builder's reset, a MatchRule's matches_tag, the
   non-recursive element.__deepcopy__(memo, recursive=False), and _make_match_rules on the items of a
   list, which refuses nested lists) *)
Theorem C11_self_named_calls_table :
  c11_self_named_calls =
  [ (lit "element.py:Tag.__deepcopy__", lit "element");
    (lit "element.py:Tag.get", lit "self.attrs");
    (lit "element.py:Tag.__hash__", lit "str(self)");
    (lit "element.py:Tag.encode", lit "u");
    (lit "element.py:Tag.select_one", lit "self.css");
    (lit "element.py:Tag.select", lit "self.css");
    (lit "__init__.py:BeautifulSoup.reset", lit "self.builder");
    (lit "filter.py:SoupStrainer._make_match_rules", lit "cls");
    (lit "filter.py:SoupStrainer.matches_tag", lit "rule") ].
Proof. reflexivity. Qed.
Print Assumptions C11_self_named_calls_table.
(* _event_stream decides that the tag on its stack has closed by identity of the parent *)
Theorem C11_event_stream_compares_by_identity : c11_event_stream_parent_test = lit "IsNot".
Proof. reflexivity. Qed.
Print Assumptions C11_event_stream_compares_by_identity.
(* __getstate__ replaces every entry of the state that points into the tree *)
Theorem C11_getstate_drops_tree_links :
  forallb (fun k => memS (lit k) c11_getstate_replaced) ["contents"; "_most_recent_element"; "next_element"]%string = true.
Proof. reflexivity. Qed.
Print Assumptions C11_getstate_drops_tree_links.
