(* C01 — One consistent tree: every navigation view agrees after any edit history.
   Property theorems only: each is closed by [exact] of a lemma proved in Proofs/, followed by
   Print Assumptions.  [rep1 h T linked] (Spec/Tree.v) says that the six links of the heap h
   describe the ordered tree T; the theorems below say that then every traversal generator of
   the code (Model/Iter.v) returns what the pre-order walk of the child lists dictates. *)
From Coq Require Import List Arith Bool.
From BS Require Import Base.Sexp Model.Heap Model.Edit Model.Iter Spec.Tree Proofs.HeapBasics Proofs.Views Proofs.ExtractRep Proofs.InsertRep Proofs.ParseRep.
From BS Require Import Base.Types Model.Build Model.EditOps Proofs.EditBase Proofs.EditRep Proofs.ParseConsistent.
Import ListNotations.

(* what extract() hands back has no parent, no siblings and nothing before it — for every heap *)
Theorem C01_extract_detached : forall fuel h x,
  let h' := extract fuel h x in
  par (h' x) = None /\ ps (h' x) = None /\ ns (h' x) = None /\ pe (h' x) = None.
Proof. exact extract_detached. Qed.
Print Assumptions C01_extract_detached.

(* next_elements / previous_elements = the rest / the reversed beginning of the pre-order *)
Theorem C01_next_elements : forall h T linked i x fuel, rep1 h T linked ->
  nth_error (echain_of T linked) i = Some x -> length (pre T) <= fuel ->
  next_elements fuel h x = skipn (S i) (echain_of T linked).
Proof. exact next_elements_spec. Qed.
Print Assumptions C01_next_elements.

Theorem C01_previous_elements : forall h T linked i x fuel, rep1 h T linked ->
  nth_error (echain_of T linked) i = Some x -> length (pre T) <= fuel ->
  previous_elements fuel h x = rev (firstn i (echain_of T linked)).
Proof. exact previous_elements_spec. Qed.
Print Assumptions C01_previous_elements.

(* the document root may stand outside the chain; it then sees nothing in either direction *)
Theorem C01_unlinked_root : forall h T fuel, rep1 h T false ->
  next_elements fuel h (rid T) = [] /\ previous_elements fuel h (rid T) = [].
Proof. exact unlinked_root_views. Qed.
Print Assumptions C01_unlinked_root.

(* siblings = the rest / the reversed beginning of the parent's child list *)
Theorem C01_next_siblings : forall h T linked t j c fuel, rep1 h T linked -> In t (subterms T) ->
  nth_error (map rid (tkids t)) j = Some c -> length (pre T) <= fuel ->
  next_siblings fuel h c = skipn (S j) (map rid (tkids t)).
Proof. exact next_siblings_spec. Qed.
Print Assumptions C01_next_siblings.

Theorem C01_previous_siblings : forall h T linked t j c fuel, rep1 h T linked -> In t (subterms T) ->
  nth_error (map rid (tkids t)) j = Some c -> length (pre T) <= fuel ->
  previous_siblings fuel h c = rev (firstn j (map rid (tkids t))).
Proof. exact previous_siblings_spec. Qed.
Print Assumptions C01_previous_siblings.

Theorem C01_root_has_no_siblings : forall h T linked fuel, rep1 h T linked ->
  next_siblings fuel h (rid T) = [] /\ previous_siblings fuel h (rid T) = [].
Proof. exact root_has_no_siblings. Qed.
Print Assumptions C01_root_has_no_siblings.

(* parents = the path from the root, innermost first *)
Theorem C01_parents : forall h T linked x anc fuel, rep1 h T linked ->
  path_to x T = Some anc -> length (pre T) <= fuel -> parents fuel h x = rev anc.
Proof. exact parents_spec'. Qed.
Print Assumptions C01_parents.

(* descendants of any node = the pre-order of its subtree without the node itself *)
Theorem C01_descendants : forall h T linked t fuel, rep1 h T linked -> In t (subterms T) ->
  length (pre T) <= fuel -> descendants fuel h (rid t) = tl (pre t).
Proof. exact descendants_spec'. Qed.
Print Assumptions C01_descendants.

(* no element occupies two places *)
Theorem C01_no_duplicates : forall h T linked, rep1 h T linked -> NoDup (pre T).
Proof. exact rep1_NoDup. Qed.
Print Assumptions C01_no_duplicates.

(* Tag._insert of a (fully linked) tree Tc of the forest under the tag [self] of the tree Tp re-links
   all six pointers so that the heap represents the forest in which Tc has become child number
   [pos] of [self]; when the insertion is at position 0 directly under a document root that stood
   outside the element chain, the root joins the chain (it points at the new first element). *)
Theorem C01_insert_rep : forall F Tp bp Tc h self position fuel h',
  rep ((Tp, bp) :: (Tc, true) :: F) h ->
  In self (pre Tp) -> is_tag h self = true ->
  length (pre Tp) + length (pre Tc) <= fuel ->
  insert1 fuel h self position (rid Tc) = Some h' ->
  let pos := Nat.min position (length (kids (h self))) in
  rep ((insert_sub self pos Tc Tp, bp || (Nat.eqb self (rid Tp) && Nat.eqb pos 0)) :: F) h'.
Proof. exact insert1_rep. Qed.
Print Assumptions C01_insert_rep.

(* extract() of any non-root element x re-links all six pointers so that the heap represents the
   forest in which the tree has lost the subtree s rooted at x and s is a self-contained tree of
   its own: no parent, no siblings, element chain closed on both ends, no link into the tree it
   came from (that is what [rep] says of the new tree (s, true)).  Holds whether or not the
   document root stands outside the element chain (b). *)
Theorem C01_extract_rep : forall F T b h x T' s fuel,
  rep ((T, b) :: F) h -> rid T <> x -> remove x T = (T', Some s) -> length (pre T) <= fuel ->
  rep ((T', b) :: (s, true) :: F) (extract fuel h x).
Proof. exact extract_rep. Qed.
Print Assumptions C01_extract_rep.

(* the side conditions of C01_extract_rep are satisfiable by every non-root element, and the
   removed segment is contiguous in document order *)
Theorem C01_remove_total : forall x T, In x (pre T) -> x <> rid T ->
  exists T' s, remove x T = (T', Some s) /\ rid s = x.
Proof. exact remove_found. Qed.
Print Assumptions C01_remove_total.

Theorem C01_remove_contiguous : forall x T T' s, rid T <> x -> remove x T = (T', Some s) ->
  rid s = x /\ rid T' = rid T /\ exists A B, pre T = A ++ pre s ++ B /\ pre T' = A ++ B.
Proof. exact remove_pre. Qed.
Print Assumptions C01_remove_contiguous.

(* extracting something that is already a root changes nothing *)
Theorem C01_extract_root_rep : forall F T b h fuel,
  rep ((T, b) :: F) h -> length (pre T) <= fuel -> rep ((T, b) :: F) (extract fuel h (rid T)).
Proof. exact extract_root_rep. Qed.
Print Assumptions C01_extract_root_rep.

(* After parsing: for every builder configuration and EVERY event sequence the tree builder sends,
   the heap the parser leaves behind represents one tree rooted at the document object, whose
   pre-order is the creation order of the elements, with the root outside the element chain -
   and the same holds after every prefix of the events (so also for a tree inspected mid-parse). *)
Theorem C01_parse_rep : forall cfg evs,
  let b := feed cfg evs in
  exists T, rid T = 0 /\ pre T = seq 0 (nxt (b_st b)) /\ rep [(T, false)] (hp (b_st b)).
Proof. exact parse_rep. Qed.
Print Assumptions C01_parse_rep.

(* ---- every editing call, and every history of calls ----
   [consistent s] (Proofs/EditRep.v): the heap of the state s represents some forest that covers
   exactly the live allocated elements (all six links of every element agree with it; only a
   BeautifulSoup object may stand outside its own element chain).  [wf_op_b] (Model/EditOps.v) is
   the executable admissibility test the property's quantifier describes: targets exist and are
   alive, arguments are plain strings or live elements from anywhere in the forest other than the
   destination and its ancestors.  [apply_op] runs the model of the call (Model/Edit.v): insert
   (multi-argument), append, extend, insert_before, insert_after, extract, replace_with, wrap,
   unwrap, decompose, clear, .string=, smooth, with BeautifulSoup-object arguments expanded. *)

(* one admissible call keeps the state a consistent forest *)
Theorem C01_call_consistent : forall s o s',
  consistent s -> wf_op s o -> apply_op s o = Ok s' -> consistent s'.
Proof. exact op_consistent. Qed.
Print Assumptions C01_call_consistent.

Theorem C01_wf_op_b_sound : forall s o, consistent s -> wf_op_b s o = true -> wf_op s o.
Proof. exact wf_op_b_sound. Qed.
Print Assumptions C01_wf_op_b_sound.

(* ANY finite history of calls (each applied when admissible and when it returns) keeps it so *)
Theorem C01_history_consistent : forall ops s, consistent s -> consistent (run_history s ops).
Proof. exact history_consistent. Qed.
Print Assumptions C01_history_consistent.

(* every fragment that was extracted, replaced, unwrapped or cleared out is the root of a tree of
   the resulting forest: a self-contained tree with no parent, no siblings and a closed chain *)
Theorem C01_fragments_detached : forall s,
  consistent s ->
  (forall x s', live s x -> op_extract s x = Ok s' -> root_fragment s' x) /\
  (forall self args s', wf_op s (OReplaceWith self args) -> ~ In (AEl self) args ->
     op_replace_with s self args = Ok s' -> root_fragment s' self) /\
  (forall self s', wf_op s (OUnwrap self) -> op_unwrap s self = Ok s' -> root_fragment s' self) /\
  (forall self s' c, live s self -> op_clear s self false = Ok s' -> In c (kids (hp s self)) -> root_fragment s' c).
Proof. exact fragments_detached. Qed.
Print Assumptions C01_fragments_detached.

(* the executable check run by the extracted model on every reached state is sound for [consistent] *)
Theorem C01_checker_sound : forall s, cons_b (abs_forest (nxt s) (hp s)) s = true -> consistent s.
Proof. exact cons_b_consistent. Qed.
Print Assumptions C01_checker_sound.

(* THE PROPERTY, end to end: after parsing ANY event sequence under ANY builder configuration and
   applying ANY finite history of admissible editing calls, the heap is a consistent forest ... *)
Theorem C01_parse_then_edit : forall cfg evs ops,
  consistent (run_history (b_st (feed cfg evs)) ops).
Proof. exact parse_then_edit_consistent. Qed.
Print Assumptions C01_parse_then_edit.

(* ... in which every live element lies in a tree T with [rep1 (hp s) T b] - the premise of the
   view theorems above (C01_next_elements ... C01_descendants), so all its navigation views are the
   pre-order walk of the child lists *)
Theorem C01_consistent_views_premise : forall s x, consistent s -> live s x ->
  exists F T b, cons_with F s /\ In (T, b) F /\ In x (pre T) /\ rep1 (hp s) T b.
Proof. exact consistent_views_premise. Qed.
Print Assumptions C01_consistent_views_premise.
