(* C01 — One consistent tree: every navigation view agrees after any edit history.
   Property theorems only: each is closed by [exact] of a lemma proved in Proofs/, followed by
   Print Assumptions. *)
From Coq Require Import List Arith Bool.
From BS Require Import Base.Sexp Model.Heap Model.Edit Proofs.HeapBasics.
Import ListNotations.

(* what extract() hands back has no parent, no siblings and nothing before it — for every heap *)
Theorem C01_extract_detached : forall fuel h x,
  let h' := extract fuel h x in
  par (h' x) = None /\ ps (h' x) = None /\ ns (h' x) = None /\ pe (h' x) = None.
Proof. exact extract_detached. Qed.
Print Assumptions C01_extract_detached.
