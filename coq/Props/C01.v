(* C01 — One consistent tree: every navigation view agrees after any edit history.
   Property theorems only: each is closed by [exact] of a lemma proved in Proofs/, followed by
   Print Assumptions.  [rep1 h T linked] (Spec/Tree.v) says that the six links of the heap h
   describe the ordered tree T; the theorems below say that then every traversal generator of
   the code (Model/Iter.v) returns what the pre-order walk of the child lists dictates. *)
From Coq Require Import List Arith Bool.
From BS Require Import Base.Sexp Model.Heap Model.Edit Model.Iter Spec.Tree Proofs.HeapBasics Proofs.Views Proofs.ExtractRep Proofs.InsertRep.
Import ListNotations.

(* what extract() hands back has no parent, no siblings and nothing before it — for every heap *)
Theorem C01_extract_detached : forall fuel h x,
  let h' := extract fuel h x in
  par (h' x) = None /\ ps (h' x) = None /\ ns (h' x) = None /\ pe (h' x) = None.
Proof. exact extract_detached. Qed.
Print Assumptions C01_extract_detached.

(* next_elements / previous_elements = the rest / the reversed beginning of the pre-order *)
Theorem C01_next_elements : forall h T linked i x fuel, rep1 h T linked ->
  nth_error (echain_of T linked) i = Some x -> length (pre T) <= fuel ->
  next_elements fuel h x = skipn (S i) (echain_of T linked).
Proof. exact next_elements_spec. Qed.
Print Assumptions C01_next_elements.

Theorem C01_previous_elements : forall h T linked i x fuel, rep1 h T linked ->
  nth_error (echain_of T linked) i = Some x -> length (pre T) <= fuel ->
  previous_elements fuel h x = rev (firstn i (echain_of T linked)).
Proof. exact previous_elements_spec. Qed.
Print Assumptions C01_previous_elements.

(* the document root may stand outside the chain; it then sees nothing in either direction *)
Theorem C01_unlinked_root : forall h T fuel, rep1 h T false ->
  next_elements fuel h (rid T) = [] /\ previous_elements fuel h (rid T) = [].
Proof. exact unlinked_root_views. Qed.
Print Assumptions C01_unlinked_root.

(* siblings = the rest / the reversed beginning of the parent's child list *)
Theorem C01_next_siblings : forall h T linked t j c fuel, rep1 h T linked -> In t (subterms T) ->
  nth_error (map rid (tkids t)) j = Some c -> length (pre T) <= fuel ->
  next_siblings fuel h c = skipn (S j) (map rid (tkids t)).
Proof. exact next_siblings_spec. Qed.
Print Assumptions C01_next_siblings.

Theorem C01_previous_siblings : forall h T linked t j c fuel, rep1 h T linked -> In t (subterms T) ->
  nth_error (map rid (tkids t)) j = Some c -> length (pre T) <= fuel ->
  previous_siblings fuel h c = rev (firstn j (map rid (tkids t))).
Proof. exact previous_siblings_spec. Qed.
Print Assumptions C01_previous_siblings.

Theorem C01_root_has_no_siblings : forall h T linked fuel, rep1 h T linked ->
  next_siblings fuel h (rid T) = [] /\ previous_siblings fuel h (rid T) = [].
Proof. exact root_has_no_siblings. Qed.
Print Assumptions C01_root_has_no_siblings.

(* parents = the path from the root, innermost first *)
Theorem C01_parents : forall h T linked x anc fuel, rep1 h T linked ->
  path_to x T = Some anc -> length (pre T) <= fuel -> parents fuel h x = rev anc.
Proof. exact parents_spec'. Qed.
Print Assumptions C01_parents.

(* descendants of any node = the pre-order of its subtree without the node itself *)
Theorem C01_descendants : forall h T linked t fuel, rep1 h T linked -> In t (subterms T) ->
  length (pre T) <= fuel -> descendants fuel h (rid t) = tl (pre t).
Proof. exact descendants_spec'. Qed.
Print Assumptions C01_descendants.

(* no element occupies two places *)
Theorem C01_no_duplicates : forall h T linked, rep1 h T linked -> NoDup (pre T).
Proof. exact rep1_NoDup. Qed.
Print Assumptions C01_no_duplicates.

(* Tag._insert of a (fully linked) tree Tc of the forest under the tag [self] of the tree Tp re-links
   all six pointers so that the heap represents the forest in which Tc has become child number
   [pos] of [self]; when the insertion is at position 0 directly under a document root that stood
   outside the element chain, the root joins the chain (it points at the new first element). *)
Theorem C01_insert_rep : forall F Tp bp Tc h self position fuel h',
  rep ((Tp, bp) :: (Tc, true) :: F) h ->
  In self (pre Tp) -> is_tag h self = true ->
  length (pre Tp) + length (pre Tc) <= fuel ->
  insert1 fuel h self position (rid Tc) = Some h' ->
  let pos := Nat.min position (length (kids (h self))) in
  rep ((insert_sub self pos Tc Tp, bp || (Nat.eqb self (rid Tp) && Nat.eqb pos 0)) :: F) h'.
Proof. exact insert1_rep. Qed.
Print Assumptions C01_insert_rep.

(* extract() of any non-root element x re-links all six pointers so that the heap represents the
   forest in which the tree has lost the subtree s rooted at x and s is a self-contained tree of
   its own: no parent, no siblings, element chain closed on both ends, no link into the tree it
   came from (that is what [rep] says of the new tree (s, true)).  Holds whether or not the
   document root stands outside the element chain (b). *)
Theorem C01_extract_rep : forall F T b h x T' s fuel,
  rep ((T, b) :: F) h -> rid T <> x -> remove x T = (T', Some s) -> length (pre T) <= fuel ->
  rep ((T', b) :: (s, true) :: F) (extract fuel h x).
Proof. exact extract_rep. Qed.
Print Assumptions C01_extract_rep.

(* the side conditions of C01_extract_rep are satisfiable by every non-root element, and the
   removed segment is contiguous in document order *)
Theorem C01_remove_total : forall x T, In x (pre T) -> x <> rid T ->
  exists T' s, remove x T = (T', Some s) /\ rid s = x.
Proof. exact remove_found. Qed.
Print Assumptions C01_remove_total.

Theorem C01_remove_contiguous : forall x T T' s, rid T <> x -> remove x T = (T', Some s) ->
  rid s = x /\ rid T' = rid T /\ exists A B, pre T = A ++ pre s ++ B /\ pre T' = A ++ B.
Proof. exact remove_pre. Qed.
Print Assumptions C01_remove_contiguous.

(* extracting something that is already a root changes nothing *)
Theorem C01_extract_root_rep : forall F T b h fuel,
  rep ((T, b) :: F) h -> length (pre T) <= fuel -> rep ((T, b) :: F) (extract fuel h (rid T)).
Proof. exact extract_root_rep. Qed.
Print Assumptions C01_extract_root_rep.
