(* C13 — Text extraction returns exactly the interesting strings, in document order.

   "get_text()/.text, .strings and .stripped_strings of an element yield, in document order, exactly
    the strings beneath it that the element counts as text: ordinary text and CDATA for ordinary
    elements (never comments, doctypes, declarations, processing instructions, or the contents of
    script/style/template seen from outside), and the element's own special string type when called
    on a script/style/template/ruby element; an explicit types argument selects exactly those
    classes. separator joins the pieces, strip trims each piece and drops empties, and .string is
    the sole string reachable through a chain of only children, else None."

   Property theorems only.  [rep1 h T linked] (Spec/Tree.v) says that the six links of the heap h
   describe the ordered tree T — the state every editing history and every parse leaves behind
   (C01); the model of the code (Model/Text.v) walks the next_element chain, the evaluator
   (Spec/TextSpec.v) the children lists.  Classes: 0 NavigableString, 1 CData,
   2 ProcessingInstruction, 3 XMLProcessingInstruction, 4 Comment, 5 Declaration, 6 Doctype,
   7 Stylesheet, 8 Script, 9 TemplateString, 10 RubyTextString, 11 RubyParenthesisString
   (Gen/T_C13.v, regenerated from the code on every run). *)
From Coq Require Import String List NArith Bool Arith.
From BS Require Import Base.Sexp Base.Types Base.Lit Gen.Stdlib Gen.Tables Gen.T_C13 Model.Heap Model.Iter
     Model.Edit Model.EditOps Model.Build Model.Text Spec.Tree Spec.TextSpec Proofs.Views Proofs.EditRep Proofs.RepSound
     Proofs.TextProofs Proofs.TextParse Proofs.TextHistories.
Import ListNotations.
Local Open Scope nat_scope.

(* ---- refinement: the chain walk of Tag._all_strings = the recursive evaluator, for every tree, every
   element of it, every payload, every strip / types argument ---- *)
Theorem C13_strings_refine_evaluator : forall h p T linked t fuel strip types,
  rep1 h T linked -> In t (subterms T) -> length (pre T) <= fuel ->
  tag_all_strings fuel h p (rid t) strip types =
  texts_below (fun x => negb (is_tag h x)) (t_cls p) (fun x => txt (h x))
              (type_selected (tag_types p (rid t) types)) py_strip strip t.
Proof. exact tag_strings_refine. Qed.
Print Assumptions C13_strings_refine_evaluator.

(* exactly the strings beneath the element whose class counts, in document order, each string object
   itself with its own text (strip off) *)
Theorem C13_exactly_counted_in_document_order : forall h p T linked t fuel types,
  rep1 h T linked -> In t (subterms T) -> length (pre T) <= fuel ->
  tag_all_strings fuel h p (rid t) false types =
  map (fun d => (d, txt (h d)))
      (filter (fun d => negb (is_tag h d) && type_selected (tag_types p (rid t) types) (t_cls p d))
              (tl (pre t))).
Proof. exact tag_strings_exact. Qed.
Print Assumptions C13_exactly_counted_in_document_order.

(* no argument = the element's own set, which is {ordinary text, CDATA} when it has none *)
Theorem C13_default_is_own_set : forall h p fuel x strip,
  is_tag h x = true ->
  all_strings fuel h p x strip TyDefault =
  all_strings fuel h p x strip (TyMany (match t_ist p x with Some s => s | None => [0%N; 1%N] end)).
Proof. exact default_is_own_set. Qed.
Print Assumptions C13_default_is_own_set.

(* an ordinary element never yields a comment, doctype, declaration, processing instruction or a
   container class — on any heap whatsoever *)
Theorem C13_ordinary_element_only_text_and_cdata : forall h p fuel x strip d s,
  t_ist p x = None \/ t_ist p x = Some [0%N; 1%N] ->
  In (d, s) (tag_all_strings fuel h p x strip TyDefault) ->
  t_cls p d = 0%N \/ t_cls p d = 1%N.
Proof. exact ordinary_element_only_text_and_cdata. Qed.
Print Assumptions C13_ordinary_element_only_text_and_cdata.

(* a script / style / template / rt / rp element yields its own special class only *)
Theorem C13_container_element_only_own_class : forall h p fuel x strip c d s,
  t_ist p x = Some [c] ->
  In (d, s) (tag_all_strings fuel h p x strip TyDefault) -> t_cls p d = c.
Proof. exact container_element_only_own_class. Qed.
Print Assumptions C13_container_element_only_own_class.

(* an explicit types argument selects exactly those classes (any heap): nothing else is yielded ... *)
Theorem C13_explicit_types_only : forall h p fuel x strip types d s,
  In (d, s) (tag_all_strings fuel h p x strip types) ->
  is_tag h d = false /\ type_selected (tag_types p x types) (t_cls p d) = true.
Proof. exact tag_strings_only_selected. Qed.
Print Assumptions C13_explicit_types_only.

(* ... and a single class means the same as the one-element tuple *)
Theorem C13_single_class_is_singleton : forall h p fuel x strip c,
  all_strings fuel h p x strip (TyOne c) = all_strings fuel h p x strip (TyMany [c]).
Proof. exact single_class_is_singleton. Qed.
Print Assumptions C13_single_class_is_singleton.

(* a string asked about itself: itself if its class counts ({text, CDATA} by default) and something is left *)
Theorem C13_string_on_itself : forall h p x strip types,
  str_all_strings h p x strip types =
  filter (fun ds => negb (is_empty (snd ds)))
         (if type_selected (str_types types) (t_cls p x)
          then map (fun s => (x, s)) (shown py_strip strip (txt (h x))) else []).
Proof. exact str_strings_spec. Qed.
Print Assumptions C13_string_on_itself.

(* ---- strip ---- *)
(* strip trims each piece and drops the ones that become empty; order and origin are untouched *)
Theorem C13_strip_trims_and_drops_empties : forall h p fuel x types,
  tag_all_strings fuel h p x true types =
  flat_map (fun ds => match py_strip (snd ds) with [] => [] | s => [(fst ds, s)] end)
           (tag_all_strings fuel h p x false types).
Proof. exact tag_strings_strip. Qed.
Print Assumptions C13_strip_trims_and_drops_empties.

(* what "trim" is: the input minus a whitespace-only prefix and suffix, with clean ends — and it is
   the only such string (whitespace = str.isspace(), Gen/Stdlib.v) *)
Theorem C13_strip_is_trim : forall s, trimmed s (py_strip s).
Proof. exact py_strip_trimmed. Qed.
Print Assumptions C13_strip_is_trim.

Theorem C13_trim_unique : forall s t, trimmed s t -> t = py_strip s.
Proof. exact trimmed_unique. Qed.
Print Assumptions C13_trim_unique.

(* ---- separator ---- *)
(* get_text = the pieces with the separator between every two neighbours *)
Theorem C13_get_text_joins : forall h p fuel x sep strip types,
  get_text fuel h p x sep strip types =
  join_spec sep (map snd (all_strings fuel h p x strip types)).
Proof. exact get_text_joins. Qed.
Print Assumptions C13_get_text_joins.

Theorem C13_join_empty_separator : forall l, join [] l = concat l.
Proof. exact join_empty_sep. Qed.
Print Assumptions C13_join_empty_separator.

Theorem C13_join_app : forall sep l1 l2, l1 <> [] -> l2 <> [] ->
  join sep (l1 ++ l2) = join sep l1 ++ sep ++ join sep l2.
Proof. exact join_app. Qed.
Print Assumptions C13_join_app.

(* ---- .string ---- *)
(* the string at the end of a chain of only children, else None; the recursion always terminates
   within the fuel (never SFuel) *)
Theorem C13_string_is_sole : forall h T linked t fuel,
  rep1 h T linked -> In t (subterms T) -> length (pre T) <= fuel ->
  string_prop fuel h (rid t) =
  (if negb (is_tag h (rid t)) then SIs (rid t)
   else match sole (fun x => negb (is_tag h x)) t with Some s => SIs s | None => SNone end).
Proof. exact string_prop_spec. Qed.
Print Assumptions C13_string_is_sole.

Theorem C13_sole_is_only_child_chain : forall isstr t s,
  sole isstr t = Some s <-> sole_chain isstr t s.
Proof. exact sole_iff_chain. Qed.
Print Assumptions C13_sole_is_only_child_chain.

(* and then it is the only string beneath the element at all *)
Theorem C13_sole_is_the_only_string : forall isstr t s,
  (forall u, In u (subterms t) -> isstr (rid u) = true -> tkids u = []) ->
  sole isstr t = Some s -> filter isstr (tl (pre t)) = [s].
Proof. exact sole_only_string. Qed.
Print Assumptions C13_sole_is_the_only_string.

(* ---- configuration: which set an element gets, which class parsed text gets ---- *)
Theorem C13_interesting_types_from_builder : forall containers name passed,
  init_interesting (Some containers) name passed =
  Some (match assocS name containers with Some c => [c] | None => [0%N; 1%N] end).
Proof. exact init_interesting_spec. Qed.
Print Assumptions C13_interesting_types_from_builder.

Theorem C13_string_container_plain : forall containers top base,
  string_container_of [] containers top base =
  match base with
  | Some c => if N.eqb c 0 then match top with
                                | Some name => match assocS name containers with Some k => k | None => 0%N end
                                | None => 0%N end
              else c
  | None => match top with
            | Some name => match assocS name containers with Some k => k | None => 0%N end
            | None => 0%N end
  end.
Proof. exact string_container_plain. Qed.
Print Assumptions C13_string_container_plain.

(* ---- parsed trees: "the contents of script/style/template seen from outside" ----
   Model/Build.v is the C03 model of the tree builder (pushTag / popTag / endData /
   string_container / object_was_parsed), tied to the code by C03's and this property's runs. *)

(* at every point of every parse, for every configuration: the open elements are the parent chain
   of whatever is created next, and a new piece of text takes the class of the nearest open container
   element unless a special class (comment, CDATA, ...) was asked for *)
Theorem C13_parsed_text_takes_nearest_container_class : forall cfg evs base,
  let b := fold_left (step_event cfg) evs (reset cfg) in
  string_container cfg b base =
    (let c0 := match base with Some c => c | None => 0%N end in
     if N.eqb c0 0 then nearest_class cfg (b_pay b) (b_stack b) else c0) /\
  b_cur b = hd_error (b_stack b) /\ chain_ok (hp (b_st b)) (b_stack b).
Proof. exact text_takes_nearest_container_class. Qed.
Print Assumptions C13_parsed_text_takes_nearest_container_class.

(* in the finished tree, for every configuration and event list: a string of the plain class has a
   complete ancestor path on which the nearest container (if any) gives the plain class *)
Theorem C13_parsed_plain_text_placement : forall cfg evs x,
  let b := feed cfg evs in
  x < nxt (b_st b) ->
  is_string_node (hp (b_st b)) x = true -> p_cls (b_pay b x) = 0%N ->
  exists path, par (hp (b_st b) x) = hd_error path /\ chain_ok (hp (b_st b)) path /\
               Forall (fun a => a < nxt (b_st b)) path /\ nearest_class cfg (b_pay b) path = 0%N.
Proof. exact parsed_plain_text_placement. Qed.
Print Assumptions C13_parsed_plain_text_placement.

(* with the shipped container table (or any table without the plain class): no ancestor of a
   plain-class string is a container element — so, by C13_ordinary_element_only_text_and_cdata,
   the only container content an ordinary element can yield is of class CData *)
Theorem C13_parsed_plain_text_outside_containers : forall cfg evs x a,
  c_containers cfg = html_string_containers ->
  let b := feed cfg evs in
  x < nxt (b_st b) -> is_string_node (hp (b_st b)) x = true -> p_cls (b_pay b x) = 0%N ->
  anc (hp (b_st b)) x a -> assocS (p_name (b_pay b a)) (c_containers cfg) = None.
Proof. exact parsed_plain_text_outside_html_containers. Qed.
Print Assumptions C13_parsed_plain_text_outside_containers.

(* ---- table obligations (Gen/T_C13.v is regenerated from the code on every run) ---- *)
(* "ordinary text and CDATA": the main set is exactly {NavigableString, CData} *)
Theorem C13_main_types_table : forall c,
  memN c main_content_string_types = true <-> (c = 0%N \/ c = 1%N).
Proof.
  intros c. unfold main_content_string_types, memN. cbn [existsb].
  rewrite !orb_true_iff, !N.eqb_eq. intuition congruence.
Qed.
Print Assumptions C13_main_types_table.

(* "script/style/template/ruby": the containers of the HTML builders (class attribute and what an
   html.parser builder instance carries) and their classes; none of which an ordinary element counts *)
Theorem C13_string_containers_table :
  html_string_containers =
    [(lit "rp", 11%N); (lit "rt", 10%N); (lit "script", 8%N); (lit "style", 7%N); (lit "template", 9%N)] /\
  htmlparser_instance_string_containers = html_string_containers /\
  default_string_containers = html_string_containers /\
  base_string_containers = [] /\ explicit_empty_string_containers = [] /\
  forallb (fun kc => negb (memN (snd kc) main_content_string_types)) html_string_containers = true.
Proof. repeat split; reflexivity. Qed.
Print Assumptions C13_string_containers_table.

(* defaults of get_text: empty separator, no stripping; one shared sentinel for `types`; a tag made
   without a builder has no set of its own *)
Theorem C13_defaults_table :
  get_text_default_separator = [] /\ get_text_default_strip = false /\
  types_sentinel_shared = true /\ tag_default_interesting_is_none = true.
Proof. repeat split; reflexivity. Qed.
Print Assumptions C13_defaults_table.

(* ---- end to end: "for all trees, parsed and edited" ----
   [consistent s] is C01's invariant (Proofs/EditRep.v): the heap of s represents a forest covering exactly
   the live elements.  C01 proves it for the result of every parse and keeps it through every admissible
   editing call (C01_parse_then_edit); composed with the refinement above, with the fuel the extracted
   model runs with. *)
Theorem C13_consistent_state_text_extraction : forall p s x strip types,
  consistent s -> live s x ->
  exists T b t, rep1 (hp s) T b /\ In t (subterms T) /\ rid t = x /\
    tag_all_strings (fuel_of s) (hp s) p x strip types =
      texts_below (fun y => negb (is_tag (hp s) y)) (t_cls p) (fun y => txt (hp s y))
                  (type_selected (tag_types p x types)) py_strip strip t /\
    string_prop (fuel_of s) (hp s) x =
      (if negb (is_tag (hp s) x) then SIs x
       else match sole (fun y => negb (is_tag (hp s) y)) t with Some z => SIs z | None => SNone end).
Proof. exact consistent_text_extraction. Qed.
Print Assumptions C13_consistent_state_text_extraction.

(* any event list, any builder configuration, any finite history of editing calls, any live element, any
   class payload, any strip / types argument *)
Theorem C13_after_any_parse_and_history : forall p cfg evs ops x strip types,
  let s := run_history (b_st (feed cfg evs)) ops in
  live s x ->
  exists T b t, rep1 (hp s) T b /\ In t (subterms T) /\ rid t = x /\
    tag_all_strings (fuel_of s) (hp s) p x strip types =
      texts_below (fun y => negb (is_tag (hp s) y)) (t_cls p) (fun y => txt (hp s y))
                  (type_selected (tag_types p x types)) py_strip strip t /\
    string_prop (fuel_of s) (hp s) x =
      (if negb (is_tag (hp s) x) then SIs x
       else match sole (fun y => negb (is_tag (hp s) y)) t with Some z => SIs z | None => SNone end).
Proof. exact text_extraction_after_parse_and_history. Qed.
Print Assumptions C13_after_any_parse_and_history.

(* ---- the hypothesis [rep1] on the states the correspondence reaches ----
   every heap dumped from the real objects is passed through the executable check consistent_b
   (Spec/Tree.v); that check is sound for rep1, so the theorems above apply to each such state *)
Theorem C13_checked_states_satisfy_rep : forall n h, consistent_b n h = true ->
  Forall (fun tb => rep1 h (fst tb) (snd tb)) (abs_forest n h).
Proof. exact consistent_b_sound. Qed.
Print Assumptions C13_checked_states_satisfy_rep.

(* the hypotheses above are satisfiable: <a> x <!--c--><b>y</b></a>, ids a=0 x=1 c=2 b=3 y=4 *)
Example C13_example :
  let h : heap := fun i =>
    match i with
    | 0 => mkcell KTag None [1; 2; 3] None None None (Some 1) (lit "a") false
    | 1 => mkcell (KStr false) (Some 0) [] None (Some 2) (Some 0) (Some 2) (lit " x ") false
    | 2 => mkcell (KStr true) (Some 0) [] (Some 1) (Some 3) (Some 1) (Some 3) (lit "c") false
    | 3 => mkcell KTag (Some 0) [4] (Some 2) None (Some 2) (Some 4) (lit "b") false
    | _ => mkcell (KStr false) (Some 3) [] None None (Some 3) None (lit "y") false
    end in
  let p := mktp (fun i => match i with 2 => 4%N | _ => 0%N end) (fun _ => None) in
  let T := Node 0 [Node 1 []; Node 2 []; Node 3 [Node 4 []]] in
  rep1 h T true /\ In (Node 3 [Node 4 []]) (subterms T) /\
  get_text 6 h p 0 (lit "|") true TyDefault = lit "x|y" /\
  get_text 6 h p 0 (lit "|") false TyNone = lit " x |c|y" /\
  string_prop 6 h 3 = SIs 4 /\ string_prop 6 h 0 = SNone.
Proof.
  cbv zeta. split; [apply rep1_b_sound; vm_compute; reflexivity|].
  split; [cbn; tauto|]. vm_compute. repeat split; reflexivity.
Qed.
