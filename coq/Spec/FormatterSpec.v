(* C15 — the documented behaviour, stated independently of the decode loop:
   * what each constructor argument becomes (Formatter docstring);
   * rendering as a structural recursion over the tree: without pretty-printing the pieces are simply
     concatenated; with pretty-printing every tag and every non-blank string outside a
     whitespace-preserving element is one line, prefixed by (indent unit) x depth;
   * where a substitution function is consulted (text nodes and attribute values outside
     cdata-containing tags) and where its result is used (the same, minus the verbatim string classes);
   * "the same tree up to the order in which attributes were inserted". *)
From Coq Require Import List NArith ZArith Bool Permutation.
From BS Require Import Base.Sexp Base.Types Model.FmtTypes Gen.Stdlib Gen.T_C15 Model.Formatter.
Import ListNotations.
Open Scope N_scope.

(* ------------------------------------------------------------------ constructor arguments *)

(* "If indent is a non-negative integer or string, then the contents of elements will be indented
   appropriately when pretty-printing. An indent level of 0, negative, or "" will only insert newlines.
   Using a positive integer indent indents that many spaces per level. If indent is a string (such as
   "\t"), that string is used to indent each level." None behaves like 0; any other object gives the
   default, one space (bs4/tests/test_formatter.py::test_indent). *)
Definition documented_indent (i : pyindent) : str :=
  match i with
  | INone => []
  | IInt z => repeat 32 (Z.to_nat z)          (* Z.to_nat of a negative number is 0 *)
  | IStr s => s
  | IOther => [32]
  end.

(* documented keyword defaults: entity_substitution=None, void_element_close_prefix="/",
   cdata_containing_tags=None, empty_attributes_are_booleans=False, indent=1 *)
Definition documented_language (c : fclass) (a : ctor_args) : str :=
  match c with
  | CHTMLFormatter => [104; 116; 109; 108]
  | CXMLFormatter => [120; 109; 108]
  | CFormatter =>
      match a_language a with
      | Some (Some (ch :: l)) => ch :: l
      | _ => [104; 116; 109; 108]
      end
  end.
Definition documented_formatter (c : fclass) (a : ctor_args) : formatter :=
  let lang := documented_language c a in
  mkfmt lang
        (match a_subst a with Some f => f | None => None end)
        (match a_void a with Some v => v | None => Some [47] end)
        (match a_cdata a with
         | Some (Some tags) => tags
         | _ => if str_eqb lang [120; 109; 108] then [] else [[115; 99; 114; 105; 112; 116]; [115; 116; 121; 108; 101]]
         end)
        (match a_eab a with Some b => b | None => false end)
        (documented_indent (match a_indent a with Some i => i | None => IInt 1 end)).

(* ------------------------------------------------------------------ rendering *)

Definition einfo_of (i : nat) (nm : str) (pf : option str) (ats : list attr) (cbe hid : bool)
           (pw : list str) (ks : list node) : einfo :=
  mkei i nm pf ats (cbe && is_nil ks) hid pw.

Fixpoint node_ids (n : node) : list nat :=
  match n with
  | NText _ _ => []
  | NElem i _ _ _ _ _ _ ks => i :: flat_map node_ids ks
  end.

Section Spec.
  Variable apply : subst -> str -> str.
  Variable fmt : formatter.

  (* no pretty-printing: start tag, children, end tag *)
  Fixpoint render_plain (pn : option str) (n : node) : str :=
    match n with
    | NText c s => output_ready apply fmt c s pn
    | NElem i nm pf ats cbe hid pw ks =>
        let e := einfo_of i nm pf ats cbe hid pw ks in
        if cbe && is_nil ks then format_tag apply fmt e true
        else format_tag apply fmt e true ++ flat_map (render_plain (Some nm)) ks ++ format_tag apply fmt e false
    end.

  (* one output line at depth l; an empty piece (blank string, hidden tag) gives no line *)
  Definition line (l : Z) (piece : str) : str :=
    if is_nil piece then [] else rep (f_indent fmt) (Z.to_nat l) ++ piece ++ [10].

  Fixpoint render_pretty (l : Z) (pn : option str) (n : node) : str :=
    match n with
    | NText c s => line l (strip (output_ready apply fmt c s pn))
    | NElem i nm pf ats cbe hid pw ks =>
        let e := einfo_of i nm pf ats cbe hid pw ks in
        let op := format_tag apply fmt e true in
        let cl := format_tag apply fmt e false in
        if cbe && is_nil ks then line l op
        else if negb (memS nm pw)
        then line l op ++ flat_map (render_pretty (l + 1) (Some nm)) ks ++ line l cl
        else (* whitespace-preserving element: indentation before the start tag, a newline after the
                end tag, everything in between exactly as without pretty-printing *)
             (if is_nil op then [] else rep (f_indent fmt) (Z.to_nat l) ++ op)
             ++ flat_map (render_plain (Some nm)) ks
             ++ (if is_nil cl then [] else cl ++ [10])
    end.

  Definition render_node (lvl : option Z) (pn : option str) (n : node) : str :=
    match lvl with
    | None => render_plain pn n
    | Some l => render_pretty l pn n
    end.

  (* decode (incl_self = true; a hidden element shows only its contents) / decode_contents *)
  Definition render_spec (lvl : option Z) (incl_self : bool) (root : node) : str :=
    match root with
    | NText _ _ => render_node lvl None root
    | NElem _ nm _ _ _ hid _ ks =>
        if incl_self && negb hid then render_node lvl None root
        else flat_map (render_node lvl (Some nm)) ks
    end.

  (* ---------------------------------------------------------------- substitution sites *)

  Definition verbatim_class (c : N) : bool := fst (class_row c).

  (* the attribute values (as text) that reach formatter.attribute_value *)
  Definition attr_sites (ats : list attr) : list str :=
    flat_map (fun kv => match attr_value_text (snd kv) with Some v => [v] | None => [] end)
             (attributes fmt ats).

  (* strings the function is *called* with (document order): attribute values of every visible tag,
     every string whose parent is not a cdata-containing tag *)
  Fixpoint call_sites (pn : option str) (n : node) : list str :=
    match n with
    | NText c s => if in_cdata_parent fmt pn then [] else [s]
    | NElem i nm pf ats cbe hid pw ks =>
        (if hid then [] else attr_sites ats) ++ flat_map (call_sites (Some nm)) ks
    end.
  (* strings whose *rendered form* is the function's result: the same, minus comments, CDATA sections,
     processing instructions, declarations and doctypes *)
  Fixpoint subst_sites (pn : option str) (n : node) : list str :=
    match n with
    | NText c s => if verbatim_class c || in_cdata_parent fmt pn then [] else [s]
    | NElem i nm pf ats cbe hid pw ks =>
        (if hid then [] else attr_sites ats) ++ flat_map (subst_sites (Some nm)) ks
    end.
  Definition root_sites (sites : option str -> node -> list str) (incl_self : bool) (root : node) : list str :=
    match root with
    | NText _ _ => sites None root
    | NElem _ nm _ _ _ hid _ ks =>
        if incl_self && negb hid then sites None root else flat_map (sites (Some nm)) ks
    end.
End Spec.

(* ------------------------------------------------------------------ same tree, other insertion order *)

Fixpoint attr_perm (t t' : node) {struct t} : Prop :=
  match t, t' with
  | NText c s, NText c' s' => c = c' /\ s = s'
  | NElem i nm pf ats cbe hid pw ks, NElem i' nm' pf' ats' cbe' hid' pw' ks' =>
      (i = i' /\ nm = nm' /\ pf = pf' /\ cbe = cbe' /\ hid = hid' /\ pw = pw') /\
      Permutation ats ats' /\ NoDup (map fst ats) /\
      (fix all2 (l l' : list node) {struct l} : Prop :=
         match l, l' with
         | [], [] => True
         | x :: l1, y :: l1' => attr_perm x y /\ all2 l1 l1'
         | _, _ => False
         end) ks ks'
  | _, _ => False
  end.
