(* C14 — the pretty-printed rendering as a token sequence, the tree whose plain rendering reads the same way,
   and the whitespace-blind comparison of re-parsed trees.  Definitions only.

   [ptokens]   tokens of the pretty rendering, parallel to [Spec.RenderSpec.pretty]: the tags of the plain
               rendering; every tag (and special string) outside whitespace-preserving elements preceded by an
               indentation text token and followed by a newline text token; every text stripped and wrapped in
               indentation / newline; everything inside a whitespace-preserving element as in the plain rendering.
   [ptn]       the same decoration expressed on the tree: whitespace strings inserted as children, texts replaced
               by what the decorated text reads back as ([rt]), blank strings dropped.
   [ws_canon]  a re-parsed tree with whitespace inside text disregarded: outside whitespace-preserving elements
               every text loses all its whitespace characters (the code points str.strip() removes,
               Gen/Stdlib.v py_whitespace — the set decode() itself strips by, so that nothing prettify removes
               counts as content) and blank texts disappear; inside whitespace-preserving elements nothing changes. *)
From Coq Require Import List NArith ZArith Bool Arith.
From BS Require Import Base.Sexp Base.Types Gen.Tables Gen.Stdlib Gen.T_C05 Model.Attrs Model.Render Model.Reparse
     Model.Build Spec.BuildSpec Spec.RenderSpec Spec.RoundTrip.
Import ListNotations.
Open Scope N_scope.

(* indentation before a piece at level lv (decode's _indent_string: nothing at level 0) *)
Definition ind (f : fmt) (lv : Z) : str :=
  if (lv =? 0)%Z then [] else repeat_str (f_indent f) (Z.to_nat lv).
Definition wrap (f : fmt) (lv : Z) (before after : bool) (toks : list token) : list token :=
  (if before then [TText (ind f lv)] else []) ++ toks ++ (if after then [TText [nl_]] else []).
Definition in_cdata (f : fmt) (pname : option str) : bool :=
  match pname with Some n => memS n (f_cdata f) | None => false end.

(* ---- tokens of the pretty rendering ---- *)
Fixpoint ptokens (enc : bool) (f : fmt) (lv : Z) (pname : option str) (t : node) : list token :=
  match t with
  | NStr c s =>
      if preformatted c then wrap f lv true true [TSpecial c s]
      else match deco f true (output_ready f c s pname) lv true true with
           | [] => []                                   (* a blank string writes nothing *)
           | o => [TText o]
           end
  | NTag p ks =>
      let opening := if g_hidden p then TNone else TOpen (qname p) (token_attrs enc f p) in
      let closing := if g_hidden p then TNone else TClose (qname p) in
      let deco_tag b a tok := if g_hidden p then [tok] else wrap f lv b a [tok] in
      if is_empty_element p (length ks)
      then deco_tag true true (if g_hidden p then TNone else TEmptyTag (qname p) (token_attrs enc f p) (f_void f))
      else if should_pretty_print p then
        deco_tag true true opening ++
        (fix go (l : list node) : list token :=
           match l with
           | [] => []
           | k :: l' => ptokens enc f (lv + 1) (Some (g_name p)) k ++ go l'
           end) ks
        ++ deco_tag true true closing
      else
        deco_tag true false opening ++ tokens_kids enc f (g_name p) ks ++ deco_tag false true closing
  end.
Fixpoint ptokens_kids (enc : bool) (f : fmt) (lv : Z) (pname : str) (l : list node) : list token :=
  match l with
  | [] => []
  | k :: l' => ptokens enc f lv (Some pname) k ++ ptokens_kids enc f lv pname l'
  end.
(* prettify() = decode(indent_level=0); a hidden starting element is skipped by the traversal *)
Definition pretty_tokens (enc : bool) (f : fmt) (t : node) : list token :=
  match t with
  | NTag p ks => if g_hidden p then ptokens_kids enc f 0 (g_name p) ks else ptokens enc f 0 None t
  | NStr _ _ => []
  end.

(* ---- the decoration on the tree ---- *)
Definition wsnode (w : str) : node := NStr 0 w.
Section Ptn.
  Variable rt : str -> str.
  Fixpoint ptn (enc : bool) (f : fmt) (lv : Z) (pname : option str) (t : node) : list node :=
    match t with
    | NStr c s =>
        if preformatted c then
          wsnode (ind f lv) :: NStr c s :: match trailing c with [] => [wsnode [nl_]] | _ => [] end
        else
          match deco f true (output_ready f c s pname) lv true true with
          | [] => []
          | o => [NStr c (if in_cdata f pname then o else rt o)]
          end
    | NTag p ks =>
        if is_empty_element p (length ks) then [wsnode (ind f lv); t; wsnode [nl_]]
        else if should_pretty_print p then
          [wsnode (ind f lv);
           NTag p (wsnode [nl_] ::
                   (fix go (l : list node) : list node :=
                      match l with
                      | [] => []
                      | k :: l' => ptn enc f (lv + 1) (Some (g_name p)) k ++ go l'
                      end) ks
                   ++ [wsnode (ind f lv)]);
           wsnode [nl_]]
        else [wsnode (ind f lv); t; wsnode [nl_]]
    end.
  Fixpoint ptn_kids (enc : bool) (f : fmt) (lv : Z) (pname : str) (l : list node) : list node :=
    match l with
    | [] => []
    | k :: l' => ptn enc f lv (Some pname) k ++ ptn_kids enc f lv pname l'
    end.
  (* under a document root (the starting element itself when it is a hidden BeautifulSoup object) *)
  Definition pretty_tree (enc : bool) (f : fmt) (cfg : bconfig) (t : node) : node :=
    match t with
    | NTag p ks =>
        if g_hidden p then NTag p (ptn_kids enc f 0 (g_name p) ks)
        else NTag (mktag (c_root cfg) None [] true false []) (ptn enc f 0 None t)
    | NStr _ _ => t
    end.
End Ptn.

(* ---- whitespace inside text disregarded ---- *)
Fixpoint ws_canon_node (cfg : bconfig) (pres : bool) (n : nnode) : list nnode :=
  match n with
  | NS c s =>
      if (output_kind c =? 0) && negb pres
      then match nows s with [] => [] | s' => [NS c s'] end
      else [NS c s]
  | NT q a kids => [NT q a (flat_map (ws_canon_node cfg (pres || memS q (c_pw cfg))) kids)]
  end.
Definition ws_canon (cfg : bconfig) (l : list nnode) : list nnode := flat_map (ws_canon_node cfg false) l.
Definition ws_equiv (cfg : bconfig) (a b : list nnode) : Prop := ws_canon cfg a = ws_canon cfg b.

(* the sub-trees under the outermost whitespace-preserving elements, in document order *)
Fixpoint pw_subtrees (cfg : bconfig) (n : nnode) : list nnode :=
  match n with
  | NS _ _ => []
  | NT q a kids => if memS q (c_pw cfg) then [n] else flat_map (pw_subtrees cfg) kids
  end.

(* ---- trees for which the statement is made, beyond [representable] ---- *)
(* every element is whitespace-preserving for the tree exactly when it is for the parser that reads the
   rendering back; a void element is an empty-element tag (not <br></br>); the parser's raw-text elements are
   cdata-containing for the formatter; text classes have no PREFIX / SUFFIX *)
Fixpoint pretty_ok (f : fmt) (rc : rcfg) (cfg : bconfig) (t : node) : bool :=
  match t with
  | NStr c s => string_ok c s
  | NTag p ks =>
      Bool.eqb (should_pretty_print p) (negb (memS (qname p) (c_pw cfg))) &&
      (if memS (qname p) (r_void rc) then g_can_empty p else true) &&
      (if memS (qname p) (r_cdata rc) then memS (g_name p) (f_cdata f) else true) &&
      forallb (pretty_ok f rc cfg) ks
  end.
Definition pretty_ok_top (f : fmt) (rc : rcfg) (cfg : bconfig) (t : node) : bool :=
  negb (memS (c_root cfg) (f_cdata f)) &&
  match t with
  | NTag p ks => if g_hidden p then forallb (pretty_ok f rc cfg) ks else pretty_ok f rc cfg t
  | NStr _ _ => true
  end.
