(* C09 — what "escaped text" is, independently of how the substitutions compute it.

   [enc o s]: the output o is the string s written with character references: it is a sequence of pieces,
   each either one character other than '&' standing for itself, or a reference "&name;" standing for
   the character sequence both readers resolve that name to. Reversibility, "no ampersand a parser would
   read differently" and the absence of raw angle brackets are all stated over this relation. *)
From Coq Require Import List NArith Bool Arith.
From BS Require Import Base.Sexp Base.Types Base.Reader Gen.Entities Gen.T_C09 Model.SmartQuotes Model.EntitySubst.
Import ListNotations.
Open Scope N_scope.

(* an entity name as both tokenizers accept it: a letter, then letters and digits; at most 31 characters
   (html.unescape looks at no more than 32 characters of a name) *)
Definition good_name (name : str) : bool :=
  match name with
  | a :: t => is_alpha a && forallb is_alnum t && Nat.leb (length name) 31
  | [] => false
  end.

(* both readers resolve "&name;" to seq: bs4's handle_entityref through HTML_ENTITY_TO_CHARACTER (element text),
   html.unescape through html.entities.html5 (attribute values) *)
Definition known_ref (name seq : str) : Prop :=
  good_name name = true /\ ent_text name = Some seq /\ html5_lookup (name ++ [c_semi]) = Some seq.

Inductive enc : str -> str -> Prop :=
| enc_nil : enc [] []
| enc_plain c o s : c <> c_amp -> enc o s -> enc (c :: o) (c :: s)
| enc_ref name seq o s : known_ref name seq -> enc o s -> enc (c_amp :: name ++ c_semi :: o) (seq ++ s).

(* a well-formed quoted attribute value: a quote character, a body free of that character, the same quote *)
Definition wf_quoted (q : str) : Prop :=
  exists qc body, q = qc :: body ++ [qc] /\ (qc = c_dq \/ qc = c_sq) /\ ~ In qc body.

(* ---- the hypothesis of the html5 theorem ------------------------------------------------------------
   substitute_html5 escapes an ampersand only when ANY_ENTITY_RE matches there ("&...;" forms). Every other
   ampersand is written as it is, so the text reads back unchanged only if the parser takes that ampersand
   and what follows it literally. [dead_amp r]: the reader, having seen '&' and then reading r, emits all
   of it literally (no named or numeric reference is completed). It follows Base.Reader state by state. *)
Definition name_unknown (acc : str) : bool :=
  match ent_text (rev acc) with None => true | Some _ => false end.

Fixpoint dead_name (acc : str) (r : str) : bool :=      (* acc: name so far, reversed *)
  match r with
  | [] => name_unknown acc
  | c :: r' =>
      if is_namechar c then dead_name (c :: acc) r'
      else if c =? c_semi then false                    (* "&name;" is always consumed as a reference *)
      else name_unknown acc
  end.

Fixpoint dead_dec (r : str) : bool :=
  match r with
  | [] => false
  | c :: r' => if is_digit c then dead_dec r' else if c =? c_semi then false else is_hexd c
  end.

Definition dead_amp (r : str) : bool :=
  match r with
  | [] => true
  | c :: r' =>
      if c =? c_hash then
        match r' with
        | [] => true
        | d :: r'' =>
            if is_digit d then dead_dec r''
            else if (d =? c_x) || (d =? c_X) then
              match r'' with
              | [] => true
              | h :: _ => negb (is_hexd h)          (* "&#x" + a hex digit is always completed *)
              end
            else true
        end
      else if is_alpha c then dead_name [c] r'
      else true
  end.

(* every ampersand of s is either escaped by substitute_html5 or dead *)
Fixpoint no_bare_ref (s : str) : bool :=
  match s with
  | [] => true
  | c :: r =>
      (if c =? c_amp then
         match any_entity_match r with Some _ => true | None => dead_amp r end
       else true) && no_bare_ref r
  end.

(* ---- the same for the attribute position (html.unescape) ----
   [dead_amp_attr r]: html.unescape reads the ampersand, together with the text that follows it up to the next
   ampersand, as itself. *)
Fixpoint upto_amp (r : str) : str :=
  match r with
  | [] => []
  | c :: r' => if c =? c_amp then [] else c :: upto_amp r'
  end.

Definition dead_amp_attr (r : str) : bool :=
  str_eqb (unescape (c_amp :: upto_amp r)) (c_amp :: upto_amp r).

Fixpoint no_bare_ref_attr (s : str) : bool :=
  match s with
  | [] => true
  | c :: r =>
      (if c =? c_amp then
         match any_entity_match r with Some _ => true | None => dead_amp_attr r end
       else true) && no_bare_ref_attr r
  end.
