(* C05 / C14 — what rendering a tree means, stated by recursion over the tree (no stack, no
   identities, no string-literal state):
     [brackets]  the bracket sequence of a tree (START ... END, EMPTY, STRING);
     [plain]     the pieces of the plain rendering (indent_level None);
     [pretty]    the pieces of the pretty-printed rendering at a nesting level;
     [items]     the line structure of the pretty-printed rendering.
   Definitions only. *)
From Coq Require Import List NArith ZArith Bool Arith.
From BS Require Import Base.Sexp Base.Types Gen.Tables Gen.Stdlib Gen.T_C05 Model.Attrs Model.Render.
Import ListNotations.
Open Scope N_scope.

(* induction principle for the nested inductive *)
Section NodeInd.
  Variable P : node -> Prop.
  Hypothesis Hs : forall c s, P (NStr c s).
  Hypothesis Ht : forall p ks, Forall P ks -> P (NTag p ks).
  Fixpoint node_ind' (t : node) : P t :=
    match t with
    | NStr c s => Hs c s
    | NTag p ks => Ht p ks ((fix go (l : list node) : Forall P l :=
                               match l with
                               | [] => Forall_nil _
                               | k :: l' => Forall_cons _ (node_ind' k) (go l')
                               end) ks)
    end.
End NodeInd.

Definition elem_of (q : eid) (par : option eid) (pname : option str) (t : node) : elem :=
  match t with
  | NStr c s => mkel q par (BStr c s pname)
  | NTag p ks => mkel q par (BTag p (length ks))
  end.

(* ---- the bracket sequence ---- *)
Fixpoint brackets (q : eid) (par : option eid) (pname : option str) (t : node) : list event :=
  match t with
  | NStr c s => [mkev KString (mkel q par (BStr c s pname))]
  | NTag p ks =>
      let el := mkel q par (BTag p (length ks)) in
      if is_empty_element p (length ks) then [mkev KEmpty el]
      else mkev KStart el ::
           (fix go (i : nat) (l : list node) : list event :=
              match l with
              | [] => []
              | k :: l' => brackets (q ++ [i]) (Some q) (Some (g_name p)) k ++ go (S i) l'
              end) 0%nat ks
           ++ [mkev KEnd el]
  end.
Fixpoint brackets_kids (q : eid) (pname : str) (i : nat) (l : list node) : list event :=
  match l with
  | [] => []
  | k :: l' => brackets (q ++ [i]) (Some q) (Some pname) k ++ brackets_kids q pname (S i) l'
  end.

(* ---- plain rendering ---- *)
Fixpoint plain (enc : bool) (f : fmt) (pname : option str) (t : node) : list str :=
  match t with
  | NStr c s => [output_ready f c s pname]
  | NTag p ks =>
      let n := length ks in
      if is_empty_element p n then [format_tag enc f p n true]
      else format_tag enc f p n true ::
           (fix go (l : list node) : list str :=
              match l with
              | [] => []
              | k :: l' => plain enc f (Some (g_name p)) k ++ go l'
              end) ks
           ++ [format_tag enc f p n false]
  end.
Fixpoint plain_kids (enc : bool) (f : fmt) (pname : str) (l : list node) : list str :=
  match l with
  | [] => []
  | k :: l' => plain enc f (Some pname) k ++ plain_kids enc f pname l'
  end.

(* ---- pretty-printed rendering ---- *)
(* what decode() does to a piece outside string-literal mode: a string is stripped; an empty
   piece stays empty; otherwise indentation in front and / or a newline behind *)
Definition deco (f : fmt) (is_str : bool) (piece : str) (lv : Z) (before after : bool) : str :=
  let pc := if is_str then strip piece else piece in
  match pc with
  | [] => []
  | _ => indent_string f pc lv before after
  end.

Fixpoint pretty (enc : bool) (f : fmt) (lv : Z) (pname : option str) (t : node) : list str :=
  match t with
  | NStr c s => [deco f true (output_ready f c s pname) lv true true]
  | NTag p ks =>
      let n := length ks in
      if is_empty_element p n then [deco f false (format_tag enc f p n true) lv true true]
      else if should_pretty_print p then
        deco f false (format_tag enc f p n true) lv true true ::
        (fix go (l : list node) : list str :=
           match l with
           | [] => []
           | k :: l' => pretty enc f (lv + 1) (Some (g_name p)) k ++ go l'
           end) ks
        ++ [deco f false (format_tag enc f p n false) lv true true]
      else
        (* a whitespace-preserving element: indentation before its start tag, a newline after its
           end tag, everything in between as in the plain rendering *)
        deco f false (format_tag enc f p n true) lv true false ::
        plain_kids enc f (g_name p) ks
        ++ [deco f false (format_tag enc f p n false) lv false true]
  end.
Fixpoint pretty_kids (enc : bool) (f : fmt) (lv : Z) (pname : str) (l : list node) : list str :=
  match l with
  | [] => []
  | k :: l' => pretty enc f lv (Some pname) k ++ pretty_kids enc f lv pname l'
  end.

(* what decode(indent_level) returns, piece by piece *)
Definition render_node (enc : bool) (f : fmt) (level : option Z) (pname : option str) (t : node)
  : list str :=
  match level with
  | None => plain enc f pname t
  | Some lv => pretty enc f lv pname t
  end.
Definition render_kids (enc : bool) (f : fmt) (level : option Z) (pname : str) (l : list node) : list str :=
  match level with
  | None => plain_kids enc f pname l
  | Some lv => pretty_kids enc f lv pname l
  end.
Definition render_spec (enc : bool) (f : fmt) (level : option Z) (t : node) : list str :=
  match t with
  | NTag p ks => if g_hidden p then render_kids enc f level (g_name p) ks
                 else render_node enc f level None t
  | NStr _ _ => []
  end.
Definition render_contents_spec (enc : bool) (f : fmt) (level : option Z) (t : node) : list str :=
  match t with
  | NTag p ks => render_kids enc f level (g_name p) ks
  | NStr _ _ => []
  end.

(* ---- line structure of the pretty-printed rendering ---- *)
(* one item per tag and per non-blank string outside whitespace-preserving elements; an outermost
   whitespace-preserving element with everything inside it is a single item (a block) *)
Record item := mkitem { it_depth : Z; it_block : bool; it_text : str }.
Definition nonblank (s : str) : list str := match s with [] => [] | _ => [s] end.
Definition simple_items (lv : Z) (s : str) : list item := map (mkitem lv false) (nonblank s).
Fixpoint items (enc : bool) (f : fmt) (lv : Z) (pname : option str) (t : node) : list item :=
  match t with
  | NStr c s => simple_items lv (strip (output_ready f c s pname))
  | NTag p ks =>
      let n := length ks in
      if is_empty_element p n then simple_items lv (format_tag enc f p n true)
      else if should_pretty_print p then
        simple_items lv (format_tag enc f p n true) ++
        (fix go (l : list node) : list item :=
           match l with
           | [] => []
           | k :: l' => items enc f (lv + 1) (Some (g_name p)) k ++ go l'
           end) ks
        ++ simple_items lv (format_tag enc f p n false)
      else
        [mkitem lv true (concat (plain enc f pname t))]
  end.
Fixpoint items_kids (enc : bool) (f : fmt) (lv : Z) (pname : str) (l : list node) : list item :=
  match l with
  | [] => []
  | k :: l' => items enc f lv (Some pname) k ++ items_kids enc f lv pname l'
  end.
Definition items_spec (enc : bool) (f : fmt) (t : node) : list item :=
  match t with
  | NTag p ks => if g_hidden p then items_kids enc f 0 (g_name p) ks else items enc f 0 None t
  | NStr _ _ => []
  end.
(* an item on its line: indent * depth, the text, a newline *)
Definition line (f : fmt) (it : item) : str :=
  repeat_str (f_indent f) (Z.to_nat (it_depth it)) ++ it_text it ++ [nl_].

(* the plain renderings of the outermost whitespace-preserving elements, in document order *)
Fixpoint pw_blocks (enc : bool) (f : fmt) (pname : option str) (t : node) : list str :=
  match t with
  | NStr _ _ => []
  | NTag p ks =>
      if is_empty_element p (length ks) then []
      else if should_pretty_print p then
        (fix go (l : list node) : list str :=
           match l with
           | [] => []
           | k :: l' => pw_blocks enc f (Some (g_name p)) k ++ go l'
           end) ks
      else [concat (plain enc f pname t)]
  end.
Fixpoint pw_blocks_kids (enc : bool) (f : fmt) (pname : str) (l : list node) : list str :=
  match l with
  | [] => []
  | k :: l' => pw_blocks enc f (Some pname) k ++ pw_blocks_kids enc f pname l'
  end.

Definition pw_blocks_spec (enc : bool) (f : fmt) (t : node) : list str :=
  match t with
  | NTag p ks => if g_hidden p then pw_blocks_kids enc f (g_name p) ks else pw_blocks enc f None t
  | NStr _ _ => []
  end.

(* ---- whitespace: the code points str.strip() removes ---- *)
Definition nows (s : str) : str := filter (fun c => negb (is_ws c)) s.
Definition all_ws (s : str) : bool := forallb is_ws s.

(* no tag below the starting element is hidden (only the BeautifulSoup object is, and it is
   skipped by the traversal) *)
Fixpoint no_hidden (t : node) : bool :=
  match t with
  | NStr _ _ => true
  | NTag p ks => negb (g_hidden p) && forallb no_hidden ks
  end.
Definition no_hidden_below (t : node) : bool :=
  match t with
  | NStr _ _ => true
  | NTag p ks => forallb no_hidden ks
  end.
