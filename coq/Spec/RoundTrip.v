(* C05 — the tree the property promises back after rendering and re-parsing ([norm]), the trees for
   which the promise is made ([representable]), and the flat form in which Spec/BuildSpec.v presents
   a built tree.  Definitions only. *)
From Coq Require Import List NArith ZArith Bool Arith.
From BS Require Import Base.Sexp Base.Types Gen.Tables Gen.Stdlib Gen.T_C05 Model.Attrs Model.Render Model.Reparse
     Model.Heap Model.Edit Model.Build Spec.BuildSpec Spec.RenderSpec.
Import ListNotations.
Open Scope N_scope.

(* a re-parsed tree: elements with their attribute values as text, strings with their class *)
Inductive nnode :=
| NT (name : str) (attrs : list (str * str)) (kids : list nnode)
| NS (cls : N) (text : str).

(* whitespace-only runs of TEXT normalise (outside whitespace-preserving elements): endData's rule; the content of a
   comment, CDATA section, processing instruction, declaration or doctype is kept as it is *)
Definition collapse (cfg : bconfig) (pres : bool) (s : str) : str :=
  if negb pres && all_in (c_spaces cfg) s then (if memN 10 s then [10] else [32]) else s.

(* a pending text run becomes one string of the enclosing container's class *)
Definition flush_text (cfg : bconfig) (pres : bool) (cont : N) (pend : str) : list nnode :=
  match pend with
  | [] => []
  | _ => [NS cont (collapse cfg pres pend)]
  end.

(* how a markup declaration written for a string of class c reads back: class and text *)
Definition read_special (c : N) (s : str) : option (N * str) :=
  match c with
  | 4 => Some (4, s)
  | 1 => Some (1, s)
  | 2 => Some (2, s)
  | 3 | 5 => Some (2, s ++ [63])          (* <?s?> comes back as the processing instruction "s?" *)
  | 6 => Some (6, s)
  | _ => None
  end.

Definition norm_attrs (enc : bool) (f : fmt) (p : tagp) : list (str * str) :=
  map (fun kv => (fst kv, match value_text enc (snd kv) with Some v => v | None => [] end)) (attributes f p).

(* adjacent text runs merge, a newline follows a doctype (the end of its SUFFIX, read back as text),
   whitespace-only runs normalise, text takes the class of the nearest enclosing container *)
Fixpoint norm_node (enc : bool) (f : fmt) (cfg : bconfig) (pres : bool) (cont : N) (t : node) : list nnode :=
  match t with
  | NStr _ _ => []
  | NTag p ks =>
      let q := qname p in
      let pres' := pres || memS q (c_pw cfg) in
      let cont' := match assocS q (c_containers cfg) with Some c => c | None => cont end in
      [NT q (norm_attrs enc f p)
         ((fix go (pend : str) (l : list node) : list nnode :=
             match l with
             | [] => flush_text cfg pres' cont' pend
             | NStr c s :: r =>
                 if output_kind c =? 0 then go (pend ++ s) r
                 else match read_special c s with
                      | Some (c', s') =>
                          flush_text cfg pres' cont' pend ++ NS c' s' ::
                          go (trailing c) r
                      | None => go (pend ++ trailing c) r
                      end
             | (NTag _ _ as k) :: r => flush_text cfg pres' cont' pend ++ norm_node enc f cfg pres' cont' k ++ go [] r
             end) [] ks)]
  end.
Fixpoint norm_kids (enc : bool) (f : fmt) (cfg : bconfig) (pres : bool) (cont : N) (pend : str) (l : list node)
  : list nnode :=
  match l with
  | [] => flush_text cfg pres cont pend
  | NStr c s :: r =>
      if output_kind c =? 0 then norm_kids enc f cfg pres cont (pend ++ s) r
      else match read_special c s with
           | Some (c', s') =>
               flush_text cfg pres cont pend ++ NS c' s' ::
               norm_kids enc f cfg pres cont (trailing c) r
           | None => norm_kids enc f cfg pres cont (pend ++ trailing c) r
           end
  | (NTag _ _ as k) :: r => flush_text cfg pres cont pend ++ norm_node enc f cfg pres cont k ++ norm_kids enc f cfg pres cont [] r
  end.
(* the whole rendering, re-parsed: below the new document root *)
Definition norm (enc : bool) (f : fmt) (cfg : bconfig) (t : node) : list nnode :=
  match t with
  | NTag p ks => if g_hidden p then norm_kids enc f cfg false 0 [] ks else norm_node enc f cfg false 0 t
  | NStr _ _ => []
  end.

(* ---- the flat form of Spec/BuildSpec.v: nodes in creation order, each with parent and payload ---- *)
Definition tag_payload (cfg : bconfig) (q : str) (attrs : list (str * str)) : payload :=
  mkpl q None attrs 0 (can_be_empty cfg q).
Definition str_payload (c : N) (s : str) : payload := mkpl s None [] c false.
Fixpoint sn_node (cfg : bconfig) (acc : list snode) (parent : nat) (n : nnode) : list snode :=
  match n with
  | NS c s => acc ++ [mksn (Some parent) (str_payload c s)]
  | NT q attrs kids =>
      let me := length acc in
      (fix go (acc : list snode) (l : list nnode) : list snode :=
         match l with
         | [] => acc
         | k :: l' => go (sn_node cfg acc me k) l'
         end) (acc ++ [mksn (Some parent) (tag_payload cfg q attrs)]) kids
  end.
Fixpoint sn_kids (cfg : bconfig) (acc : list snode) (parent : nat) (l : list nnode) : list snode :=
  match l with
  | [] => acc
  | k :: l' => sn_kids cfg (sn_node cfg acc parent k) parent l'
  end.
Definition root_snode (cfg : bconfig) : snode := mksn None (mkpl (c_root cfg) None [] 0 false).
Definition flat_tree (cfg : bconfig) (l : list nnode) : list snode := sn_kids cfg [root_snode cfg] 0%nat l.

(* ---- representable content ---- *)
(* the text written for a string inside a raw-text element (script / style for html.parser) is read
   back as it is, so it must have been written as it is *)
Definition raw_text_ok (f : fmt) (pname : str) (k : node) : bool :=
  match k with
  | NStr c s =>
      (output_kind c =? 0) &&
      str_eqb (fst (affixes c) ++ substitute f true (Some pname) s ++ snd (affixes c)) s
  | NTag _ _ => false
  end.
Definition string_ok (c : N) (s : str) : bool :=
  if output_kind c =? 0 then
    match affixes c with ([], []) => true | _ => false end
  else true.
Fixpoint representable (f : fmt) (rc : rcfg) (cfg : bconfig) (t : node) : bool :=
  match t with
  | NStr c s => string_ok c s
  | NTag p ks =>
      let q := qname p in
      negb (g_hidden p) &&
      str_eqb (ascii_lower q) q &&
      forallb (fun kv => str_eqb (ascii_lower (fst kv)) (fst kv)) (g_attrs p) &&
      (if memS q (r_void rc) then match ks with [] => true | _ => false end else true) &&
      (* raw-text elements of the parser hold text only, written as it is; elsewhere text goes through the
         formatter's function (the tag must not be cdata-containing for the formatter either) *)
      (if memS q (r_cdata rc) then forallb (raw_text_ok f (g_name p)) ks
       else negb (memS (g_name p) (f_cdata f)) && forallb (representable f rc cfg) ks)
  end.
Definition representable_top (f : fmt) (rc : rcfg) (cfg : bconfig) (t : node) : bool :=
  negb (match f_void f with [] => true | _ => false end) &&
  match t with
  | NTag p ks =>
      (* a hidden starting element writes only its contents: they are read back outside it *)
      if g_hidden p then negb (memS (g_name p) (f_cdata f)) && forallb (representable f rc cfg) ks
      else representable f rc cfg t
  | NStr _ _ => true
  end.

(* the HTML parser's side of the round trip, from the generated tables *)
Definition html_rcfg (check : bool) : rcfg :=
  mkrcfg default_empty_element_tags htmlparser_cdata_content_elements check.
Definition html_bcfg : bconfig :=
  mkcfg (Some default_empty_element_tags) default_preserve_whitespace_tags default_string_containers
        ascii_spaces root_tag_name.

(* ---- where a second round trip changes nothing ---- *)
(* A doctype's newline is written again on every rendering.  The text it merges into is stable only when it is
   the bare newline outside whitespace-preserving elements (whitespace-only runs collapse back to it); any other
   text after a doctype grows by one newline per round trip (known finding C05-doctype-newline-accumulates).
   [stable_doctypes] says of a re-parsed list that every string written with a trailing newline is, outside
   whitespace-preserving elements, followed by exactly the text "\n" of the context's class. *)
Definition doctype_ok (pres : bool) (cont : N) (k : nnode) (r : list nnode) : bool :=
  match k with
  | NS c _ =>
      match trailing c with
      | [] => true
      | _ => negb pres && match r with NS c2 [10] :: _ => c2 =? cont | _ => false end
      end
  | NT _ _ _ => true
  end.
Fixpoint stable_node (cfg : bconfig) (pres : bool) (cont : N) (n : nnode) : bool :=
  match n with
  | NS _ _ => true
  | NT q _ kids =>
      let pres' := pres || memS q (c_pw cfg) in
      let cont' := match assocS q (c_containers cfg) with Some c => c | None => cont end in
      (fix go (l : list nnode) : bool :=
         match l with
         | [] => true
         | k :: r => doctype_ok pres' cont' k r && stable_node cfg pres' cont' k && go r
         end) kids
  end.
Fixpoint stable_list (cfg : bconfig) (pres : bool) (cont : N) (l : list nnode) : bool :=
  match l with
  | [] => true
  | k :: r => doctype_ok pres cont k r && stable_node cfg pres cont k && stable_list cfg pres cont r
  end.
Definition stable_doctypes (cfg : bconfig) (l : list nnode) : bool := stable_list cfg false 0 l.

(* ---- the re-parsed tree as a tree to render again (for the second round trip) ---- *)
Fixpoint inj (cfg : bconfig) (n : nnode) : node :=
  match n with
  | NS c s => NStr c s
  | NT q attrs kids =>
      NTag (mktag q None (map (fun kv => (fst kv, RStr (snd kv))) attrs) false (can_be_empty cfg q) (c_pw cfg))
           (map (inj cfg) kids)
  end.
(* under the new BeautifulSoup object (hidden, named by ROOT_TAG_NAME) *)
Definition doc (cfg : bconfig) (l : list nnode) : node :=
  NTag (mktag (c_root cfg) None [] true false (c_pw cfg)) (map (inj cfg) l).
