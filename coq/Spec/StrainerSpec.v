(* C16 — what "parse_only keeps exactly the outermost matching elements" means.

   A well-formed document is a forest of [dnode]s; [brackets] is the event stream a tree builder
   sends for it (start / end around the children, text in chunks, comments and the like through
   endData(class)).  The full parse and the selective parse are both runs of the construction
   machine (Model/Strainer.v, zfeed) on that stream — without and with a filter.  The documented
   result of the selective parse is [outermost]: the matched elements of the full parse that have
   no matched ancestor, each with its complete subtree, in document order. *)
From Coq Require Import List NArith ZArith Bool Arith.
From BS Require Import Base.Sexp Base.Types Model.Heap Model.Edit Model.Build Model.Attrs Model.Search Model.Strainer.
Import ListNotations.
Local Open Scope nat_scope.

Inductive dnode :=
| DTag (name : str) (prefix : option str) (attrs : list (str * str)) (kids : list dnode)
| DText (chunks : list str)              (* character data, as the chunks handle_data receives *)
| DSpecial (cls : N) (text : str).       (* comment, declaration, doctype, CDATA, PI: endData(); data; endData(cls) *)

Fixpoint brackets (d : dnode) : list event :=
  match d with
  | DTag n p a ks => EStart n p a :: flat_map brackets ks ++ [EEnd n p]
  | DText cs => map EData cs
  | DSpecial c t => [EEndData None; EData t; EEndData (Some c)]
  end.
Definition brackets_f (ds : list dnode) : list event := flat_map brackets ds.

(* no element is called like the document object (its end tag would be ignored) *)
Fixpoint names_ok (root : str) (d : dnode) : bool :=
  match d with
  | DTag n _ _ ks => negb (str_eqb n root) && forallb (names_ok root) ks
  | _ => true
  end.

(* the matched elements without matched ancestor, in document order, each with its whole subtree *)
Fixpoint outermost (m : str -> option str -> list (str * str) -> bool) (n : pnode) : list pnode :=
  match n with
  | PTag name p a ks => if m name p a then [n] else flat_map (outermost m) ks
  | PStr _ _ => []
  end.
Definition outermost_f m (ns : list pnode) : list pnode := flat_map (outermost m) ns.

(* all strings of a tree, in document order *)
Fixpoint strings_of (n : pnode) : list (N * str) :=
  match n with
  | PTag _ _ _ ks => flat_map strings_of ks
  | PStr c t => [(c, t)]
  end.
Definition strings_f (ns : list pnode) : list (N * str) := flat_map strings_of ns.

Section Filter.
  Variable pat_sem : N -> str -> bool.
  Variable fun_sem : N -> callarg -> bool.
  Variable sr : strainer.
  Variable table : option cdata_table.       (* the builder's multi-valued attribute table *)
  Variable cfg : bconfig.

  (* the attribute dictionary of the Tag in the full parse *)
  Definition processed (name : str) (attrs : list (str * str)) : list (str * attrv) :=
    match table with
    | None | Some [] => raw_attrs attrs
    | Some tb => map (fun kv => (fst kv, if is_multi tb name (fst kv) then AvList (split_ws (snd kv)) else AvStr (snd kv))) attrs
    end.

  (* filter.match(tag) on the element of the full parse: SoupStrainer.matches_tag on a Tag with this
     name, prefix and (processed) attributes *)
  Definition one_heap (name : str) : heap := fun _ => mkcell KTag None [] None None None None name false.
  Definition tag_matches (name : str) (prefix : option str) (attrs : list (str * str)) : bool :=
    fst (matches_tag pat_sem fun_sem (one_heap name) (fun _ => mkx prefix (processed name attrs)) 1 sr 0).

  (* the decision taken before the Tag exists *)
  Definition allowed (name : str) (prefix : option str) (attrs : list (str * str)) : bool :=
    fst (allow_tag_creation pat_sem fun_sem sr prefix name (raw_attrs attrs)).

  (* the string rules applied to a piece of text *)
  Definition string_allowed (s : str) : bool := fst (allow_string_creation pat_sem fun_sem sr s).

  (* ---- the domain ---- *)
  (* a filter that constrains tag names and/or attributes, and nothing else; the name criterion is function-free *)
  Definition rule_fun_free (r : rule) : bool := match r with RFun _ => false | _ => true end.
  Definition tag_filter : bool :=
    null (s_string sr) && negb (null (s_name sr) && null (s_attrs sr)) && forallb rule_fun_free (s_name sr).
  (* a filter with only string criteria *)
  Definition string_filter : bool :=
    negb (null (s_string sr)) && null (s_name sr) && null (s_attrs sr).
  (* both kinds *)
  Definition mixed_filter : bool :=
    negb (null (s_string sr)) && negb (null (s_name sr) && null (s_attrs sr)).

  (* the constrained attributes are single-valued on every tag of the document *)
  Definition single_valued_on (name : str) : bool :=
    match table with
    | None | Some [] => true
    | Some tb => forallb (fun kr => negb (is_multi tb name (fst kr))) (s_attrs sr)
    end.
  Fixpoint single_valued (d : dnode) : bool :=
    match d with
    | DTag n _ _ ks => single_valued_on n && forallb single_valued ks
    | _ => true
    end.

  (* elements that change how the text inside them is stored *)
  Definition is_ctx (name : str) : bool :=
    memS name (c_pw cfg) || match assocS name (c_containers cfg) with Some _ => true | None => false end.

  Fixpoint has_allowed (d : dnode) : bool :=
    match d with
    | DTag n p a ks => allowed n p a || existsb has_allowed ks
    | _ => false
    end.
  (* OPEN FINDING C16-rejected-context-ancestor: no kept element lies under a rejected
     whitespace-preserving / string-container element *)
  Fixpoint ctx_ok (d : dnode) : bool :=
    match d with
    | DTag n p a ks =>
        if allowed n p a then true
        else (negb (is_ctx n) || negb (existsb has_allowed ks)) && forallb ctx_ok ks
    | _ => true
    end.
  (* no whitespace-preserving / string-container element anywhere (for string-only filters, which drop every tag) *)
  Fixpoint ctx_free (d : dnode) : bool :=
    match d with
    | DTag n _ _ ks => negb (is_ctx n) && forallb ctx_free ks
    | _ => true
    end.
End Filter.

(* ---- the text runs of a document ----
   A text run is a maximal sequence of character-data chunks not interrupted by ANY tag (start or end, kept
   or dropped) or by a comment-like item: the builder calls endData at every one of these, so adjacent text
   separated only by dropped tags is NOT merged.  Comment-like items are runs of their own.  [text_runs]
   lists them in document order as (string class, stored text), stored the way the document level stores text:
   whitespace-only text collapses unless the document object itself preserves whitespace, comment-like content
   is kept as sent, the class is the one asked for (or the document object's own container class). *)
Section Runs.
  Variable cfg : bconfig.

  Definition doc_pw : bool := memS (c_root cfg) (c_pw cfg).
  Definition doc_class (base : option N) : N :=
    let container := match base with Some c => c | None => 0%N end in
    match assocS (c_root cfg) (c_containers cfg) with
    | Some c => if N.eqb container 0 then c else container
    | None => container
    end.
  Definition run_of (pending : list str) (base : option N) : list (N * str) :=
    match pending with
    | [] => []
    | chunks => [(doc_class base, gathered cfg doc_pw (is_special base) chunks)]
    end.

  Fixpoint runs_node (d : dnode) {struct d} : list (N * str) :=
    match d with
    | DTag _ _ _ ks =>
        (fix go (pending : list str) (l : list dnode) {struct l} : list (N * str) :=
           match l with
           | [] => run_of pending None
           | DText cs :: l' => go (rev cs ++ pending) l'
           | DSpecial c t :: l' => run_of pending None ++ run_of [t] (Some c) ++ go [] l'
           | (DTag _ _ _ _ as d') :: l' => run_of pending None ++ runs_node d' ++ go [] l'
           end) [] ks
    | _ => []
    end.
  Fixpoint text_runs (pending : list str) (l : list dnode) : list (N * str) :=
    match l with
    | [] => run_of pending None
    | DText cs :: l' => text_runs (rev cs ++ pending) l'
    | DSpecial c t :: l' => run_of pending None ++ run_of [t] (Some c) ++ text_runs [] l'
    | (DTag _ _ _ _ as d') :: l' => run_of pending None ++ runs_node d' ++ text_runs [] l'
    end.
End Runs.
