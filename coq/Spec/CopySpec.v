(* C12 — the abstract side: what it means for the two stores of Model/Copy.v to describe an
   ordered tree, the address-free content of such a tree (names, attributes with list values
   resolved, settings, string classes and texts), structural equality on contents, the bracket
   sequence of a tree, and the recursive statement of "a copy": new elements allocated in
   pre-order, each appended to the copy of its parent.  Definitions only. *)
From Coq Require Import List NArith ZArith Bool Arith.
From BS Require Import Base.Sexp Base.Types Spec.Tree Model.Copy.
Import ListNotations.
Open Scope nat_scope.

(* ---- representation: .contents and .parent of st describe t; strings are leaves ---- *)
Fixpoint reps (st : cstate) (t : tree) : Prop :=
  match t with
  | Node x ks =>
      c_kids (nh st x) = map rid ks /\
      (is_tagb st x = true \/ ks = []) /\
      (fix all (l : list tree) : Prop :=
         match l with
         | [] => True
         | k :: l' => (c_par (nh st (rid k)) = Some x /\ reps st k) /\ all l'
         end) ks
  end.

Definition attrs_of (st : cstate) (x : nat) : cattrs :=
  match c_pay (nh st x) with PTag d => t_attrs d | PStr _ _ => [] end.

(* the list objects an attribute dictionary / a tree refers to *)
Fixpoint refs_of (a : cattrs) : list nat :=
  match a with
  | [] => []
  | (_, CRef l) :: r => l :: refs_of r
  | _ :: r => refs_of r
  end.
Definition lrefs (st : cstate) (t : tree) : list nat := flat_map (fun x => refs_of (attrs_of st x)) (pre t).

(* a tree of the current state: represented, no element twice, every element and list allocated *)
Definition wf (st : cstate) (t : tree) : Prop :=
  reps st t /\ NoDup (pre t) /\
  (forall x, In x (pre t) -> x < nn st) /\
  (forall l, In l (lrefs st t) -> l < ln st).

(* a BeautifulSoup object carries no attributes and knows whether it is XML (reset() sets both) *)
Definition soup_ok (st : cstate) (x : nat) : Prop :=
  match c_pay (nh st x) with
  | PTag d => t_soup d = true -> t_attrs d = [] /\ t_kxml d <> None
  | PStr _ _ => True
  end.

Fixpoint height (t : tree) : nat :=
  match t with Node _ ks => S (fold_right (fun k m => Nat.max (height k) m) 0 ks) end.

(* ---- content: everything but addresses ---- *)
Inductive vval :=
| VS (s : str) | VL (cls : N) (items : list str) | VB (b : bool) | VI (z : Z) | VN.

Definition vval_of (st : cstate) (v : cval) : vval :=
  match v with
  | CStr s => VS s
  | CRef l => VL (fst (lh st l)) (snd (lh st l))
  | CBool b => VB b
  | CInt z => VI z
  | CNone => VN
  end.
Definition vattrs := list (str * vval).
Definition vattrs_of (st : cstate) (a : cattrs) : vattrs := map (fun kv => (fst kv, vval_of st (snd kv))) a.

Inductive ctree :=
| CT (soup : bool) (name : str) (attrs : vattrs) (set : tset) (kids : list ctree)
| CS (cls : N) (text : str).

Fixpoint content (st : cstate) (t : tree) : ctree :=
  match t with
  | Node x ks =>
      match c_pay (nh st x) with
      | PTag d => CT (t_soup d) (t_name d) (vattrs_of st (t_attrs d)) (t_set d) (map (content st) ks)
      | PStr c s => CS c s
      end
  end.

(* ---- structural equality on contents: Tag.__eq__ read off the code ---- *)
Definition vnum (v : vval) : option Z :=
  match v with VB b => Some (if b then 1 else 0)%Z | VI z => Some z | _ => None end.
Definition vval_eqb (a b : vval) : bool :=
  match a, b with
  | VS s, VS t => str_eqb s t
  | VL _ x, VL _ y => strs_eqb x y
  | VN, VN => true
  | _, _ => match vnum a, vnum b with Some x, Some y => Z.eqb x y | _, _ => false end
  end.
Fixpoint vget (k : str) (d : vattrs) : option vval :=
  match d with
  | [] => None
  | (k', v) :: d' => if str_eqb k k' then Some v else vget k d'
  end.
Definition amap_eqb (a b : vattrs) : bool :=
  Nat.eqb (length a) (length b) &&
  forallb (fun kv => match vget (fst kv) b with Some v' => vval_eqb (snd kv) v' | None => false end) a.

Fixpoint teq (a b : ctree) : bool :=
  match a, b with
  | CT _ n aa _ ks, CT _ m bb _ js =>
      str_eqb n m && amap_eqb aa bb && Nat.eqb (length ks) (length js) &&
      (fix go (l1 l2 : list ctree) : bool :=
         match l1, l2 with
         | [], [] => true
         | x :: r1, y :: r2 => teq x y && go r1 r2
         | _, _ => false
         end) ks js
  | CS _ s, CS _ t => str_eqb s t
  | _, _ => false
  end.

Fixpoint teq_list (l1 l2 : list ctree) : bool :=
  match l1, l2 with
  | [], [] => true
  | x :: r1, y :: r2 => teq x y && teq_list r1 r2
  | _, _ => false
  end.

Fixpoint csize (a : ctree) : nat :=
  match a with
  | CT _ _ _ _ ks => S (fold_right (fun k m => csize k + m) 0 ks)
  | CS _ _ => 1
  end.

(* dictionaries have unique keys *)
Definition keys (a : vattrs) : list str := map fst a.
Fixpoint cwf (a : ctree) : Prop :=
  match a with
  | CT _ _ aa _ ks => NoDup (keys aa) /\ (fix all (l : list ctree) : Prop := match l with [] => True | k :: l' => cwf k /\ all l' end) ks
  | CS _ _ => True
  end.

(* the order-free reading of an attribute dictionary *)
Definition vopt_eq (a b : option vval) : Prop :=
  match a, b with
  | None, None => True
  | Some x, Some y => vval_eqb x y = true
  | _, _ => False
  end.
Definition same_map (a b : vattrs) : Prop := forall k, vopt_eq (vget k a) (vget k b).

(* ---- induction principle for contents ---- *)
Section CtreeInd.
  Variable P : ctree -> Prop.
  Hypothesis HT : forall sp n aa se ks, Forall P ks -> P (CT sp n aa se ks).
  Hypothesis HS : forall c s, P (CS c s).
  Fixpoint ctree_ind' (a : ctree) : P a :=
    match a with
    | CT sp n aa se ks => HT sp n aa se ks ((fix go (l : list ctree) : Forall P l :=
                                             match l with
                                             | [] => Forall_nil _
                                             | k :: l' => Forall_cons _ (ctree_ind' k) (go l')
                                             end) ks)
    | CS c s => HS c s
    end.
End CtreeInd.

(* ---- the bracket sequence of a tree (what _event_stream must produce) ---- *)
Fixpoint brackets (st : cstate) (t : tree) : list (ekind * nat) :=
  match t with
  | Node x ks =>
      if is_tagb st x then
        if is_empty_element st x then [(EvEmpty, x)]
        else (EvStart, x) :: flat_map (brackets st) ks ++ [(EvEnd, x)]
      else [(EvString, x)]
  end.

(* ---- a copy, recursively: clone the root, hang it under p, copy the children under the clone ---- *)
Fixpoint copy_into (fuel : nat) (st : cstate) (p : nat) (t : tree) : cstate * tree :=
  match t with
  | Node x ks =>
      let '(s1, d) := clone1 fuel st x in
      let s2 := append_child s1 p d in
      let '(s3, ks') :=
        (fix go (s : cstate) (l : list tree) : cstate * list tree :=
           match l with
           | [] => (s, [])
           | k :: l' =>
               let '(sa, k') := copy_into fuel s d k in
               let '(sb, r) := go sa l' in (sb, k' :: r)
           end) s2 ks in
      (s3, Node d ks')
  end.

Fixpoint copy_forest (fuel : nat) (st : cstate) (p : nat) (l : list tree) : cstate * list tree :=
  match l with
  | [] => (st, [])
  | k :: l' =>
      let '(sa, k') := copy_into fuel st p k in
      let '(sb, r) := copy_forest fuel sa p l' in (sb, k' :: r)
  end.

(* the copy of a whole element: copy_self, then the children under the clone *)
Definition copy_spec (fuel : nat) (st : cstate) (t : tree) : cstate * tree :=
  match c_pay (nh st (rid t)) with
  | PStr c s => let '(s1, d) := alloc_node st (PStr c s) in (s1, Node d [])
  | PTag _ =>
      let '(s1, d) := copy_self fuel st (rid t) in
      let '(s2, ks') := copy_forest fuel s1 d (tkids t) in (s2, Node d ks')
  end.

(* payload of a clone, node by node: same class / text / name / settings; the attribute values
   as stored with every list a NEW list object holding the same items; known_xml resolved *)
Inductive val_copy (st st' : cstate) : cval -> cval -> Prop :=
| vc_ref l l' : ln st <= l' -> lh st' l' = lh st l -> val_copy st st' (CRef l) (CRef l')
| vc_str s : val_copy st st' (CStr s) (CStr s)
| vc_bool b : val_copy st st' (CBool b) (CBool b)
| vc_int z : val_copy st st' (CInt z) (CInt z)
| vc_none : val_copy st st' CNone CNone.

Definition node_copy (fuel : nat) (st st' : cstate) (x x' : nat) : Prop :=
  match c_pay (nh st x), c_pay (nh st' x') with
  | PStr c s, PStr c' s' => c = c' /\ s = s'
  | PTag d, PTag d' =>
      t_soup d' = t_soup d /\ t_name d' = t_name d /\ t_set d' = t_set d /\
      (if t_soup d then t_attrs d' = [] /\ t_kxml d' = t_kxml d
       else Forall2 (fun kv kv' => fst kv' = fst kv /\ val_copy st st' (snd kv) (snd kv')) (t_attrs d) (t_attrs d') /\
            t_kxml d' = is_xml fuel st x)
  | _, _ => False
  end.

(* two states agree outside a footprint: on the elements in Nd and the list objects in Ls *)
Definition same_on (Nd Ls : nat -> Prop) (s s' : cstate) : Prop :=
  (forall i, Nd i -> nh s' i = nh s i) /\ (forall l, Ls l -> lh s' l = lh s l).

(* ---- notions used by the statements in Props/C12.v ---- *)
Definition kxml_of (st : cstate) (x : nat) : option bool :=
  match c_pay (nh st x) with PTag d => t_kxml d | PStr _ _ => None end.

(* known_xml of the clone of x *)
Definition kxml_clone (fuel : nat) (st : cstate) (x : nat) : option bool :=
  match c_pay (nh st x) with
  | PTag d => if t_soup d then t_kxml d else is_xml fuel st x
  | PStr _ _ => None
  end.

(* parent pointers of allocated elements point to allocated elements *)
Definition closed_par (st : cstate) : Prop :=
  forall i p, i < nn st -> c_par (nh st i) = Some p -> p < nn st.

Definition copy_post (fuel : nat) (st : cstate) (t : tree) (st' : cstate) (t' : tree) : Prop :=
  reps st' t' /\ content st' t' = content st t /\
  c_par (nh st' (rid t')) = None /\
  pre t' = seq (nn st) (length (pre t)) /\ nn st' = nn st + length (pre t) /\
  lrefs st' t' = seq (ln st) (length (lrefs st t)) /\ ln st' = ln st + length (lrefs st t) /\
  (forall i, i < nn st -> nh st' i = nh st i) /\ (forall l, l < ln st -> lh st' l = lh st l) /\
  map (kxml_of st') (pre t') = map (kxml_clone fuel st) (pre t).

(* the single edits of the model, as data *)
Inductive edit :=
| ESetAttr (x : nat) (k : str) (v : cval)
| EDelAttr (x : nat) (k : str)
| ESetName (x : nat) (n : str)
| ESetAttrList (x : nat) (k : str) (cls : N) (items : list str)
| EListUpdate (l : nat) (f : list str -> list str)
| EExtract (x : nat)
| EAppend (p c : nat)
| EAppendNew (p : nat) (pay : payload).

Definition apply_edit (s : cstate) (e : edit) : cstate :=
  match e with
  | ESetAttr x k v => set_attr s x k v
  | EDelAttr x k => del_attr s x k
  | ESetName x n => set_name s x n
  | ESetAttrList x k cls items => set_attr_list s x k cls items
  | EListUpdate l f => list_update s l f
  | EExtract x => cp_extract s x
  | EAppend p c => cp_append s p c
  | EAppendNew p pay => cp_append_new s p pay
  end.

(* every object the call is applied to lies in (Nd, Ls) *)
Definition targets_in (Nd Ls : nat -> Prop) (e : edit) : Prop :=
  match e with
  | ESetAttr x _ _ | EDelAttr x _ | ESetName x _ | ESetAttrList x _ _ _ | EExtract x | EAppendNew x _ => Nd x
  | EListUpdate l _ => Ls l
  | EAppend p c => Nd p /\ Nd c
  end.

(* the structural relation: same name, same attribute map, pairwise related children; strings
   by their text; a string is never related to a tag *)
Fixpoint ceq (a b : ctree) : Prop :=
  match a, b with
  | CT _ n aa _ ks, CT _ m bb _ js =>
      n = m /\ same_map aa bb /\
      (fix go (l1 l2 : list ctree) : Prop :=
         match l1, l2 with
         | [], [] => True
         | x :: r1, y :: r2 => ceq x y /\ go r1 r2
         | _, _ => False
         end) ks js
  | CS _ s, CS _ t => s = t
  | _, _ => False
  end.


(* ---- document pickling: __getstate__ keeps the attributes of the object except its contents,
   which it replaces by the rendered markup; __setstate__ re-parses that markup with the stored
   builder.  Rendering, parsing and the builder are parameters; the tree that is pickled and the
   form in which the parser leaves the rebuilt one may be of different types (Proofs/CopyCompose.v
   instantiates them with C05's renderer and C03's construction rules). ---- *)
Record document (Builder Other Tree : Type) := mkdoc { d_builder : Builder; d_other : Other; d_tree : Tree }.
Record pickled (Builder Other Markup : Type) := mkpk { k_builder : Builder; k_other : Other; k_markup : Markup }.
Arguments mkdoc {Builder Other Tree}.  Arguments d_builder {Builder Other Tree}.
Arguments d_other {Builder Other Tree}.  Arguments d_tree {Builder Other Tree}.
Arguments mkpk {Builder Other Markup}.  Arguments k_builder {Builder Other Markup}.
Arguments k_other {Builder Other Markup}.  Arguments k_markup {Builder Other Markup}.
Section Pickle.
  Variables (Builder Other Markup Tree Tree' : Type).
  Variable render : Tree -> Markup.                     (* self.decode() *)
  Variable feed : Builder -> Other -> Markup -> Tree'.  (* reset(); _feed() *)
  Definition getstate (d : document Builder Other Tree) : pickled Builder Other Markup :=
    mkpk (d_builder d) (d_other d) (render (d_tree d)).
  Definition setstate (k : pickled Builder Other Markup) : document Builder Other Tree' :=
    mkdoc (k_builder k) (k_other k) (feed (k_builder k) (k_other k) (k_markup k)).
End Pickle.
Arguments getstate {Builder Other Markup Tree}.
Arguments setstate {Builder Other Markup Tree'}.
