(* C04 — a writer for a sub-grammar of Spec/DocSpec.v documents, token by token.
   [toks_node d]: the written tokens of a node, each with its source text and the callbacks an ideal tokenizer
   fires for it; [write doc] is the concatenation of the sources.  [simple_doc]: the sub-grammar for which
   Proofs/TokenizerBridge.v proves that the tokenizer model fires exactly those callbacks:
   elements and void elements with lower-case names, script / style elements with raw text free of '<', attributes written  name=Q value Q  (Q the double quote, or the single quote when
   the value contains a double quote; value without '&') or as a bare name, lower-case attribute names, text without '<' and '&',
   references written with their ';', comments without '--', processing instructions and doctypes (spelled DOCTYPE or
   doctype) without '>', CDATA sections (spelled CDATA[ or cdata[) without ']'; no marked sections other than CDATA.  No proofs in this file. *)
From Coq Require Import List NArith Bool Arith.
From BS Require Import Base.Sexp Base.Types Base.Reader Model.Adapter Model.Tokenizer Spec.DocSpec.
Import ListNotations.
Open Scope N_scope.

(* WRaw n a s: a script / style element with its raw text, <n ...>s</n> (two iterations of the tokenizer's loop, the
   second one in cdata mode) *)
Inductive wtok := WText (s : str) | WCons (src : str) (evs : list tev)
  | WRaw (n : str) (a a' : list (str * option str)) (s : str).     (* a: the attributes as written, a': as reported *)

(* attributes: each preceded by one blank, written name=DQ value DQ or as the bare name (DQ: the double quote):
   <n k=DQ v DQ d>   <n k=DQ v DQ d/> *)
(* the quote: the double quote unless the value contains one (quoted_attribute_value) *)
Definition quote_of (x : str) : N := if memN 34 x then 39 else 34.
Definition val_src (v : option str) : str :=
  match v with Some x => 61 :: quote_of x :: x ++ [quote_of x] | None => [] end.
Definition attr_src (kv : str * option str) : str := fst kv ++ val_src (snd kv) ++ [32].     (* one that is not the last *)
Fixpoint asrc (a : list (str * option str)) : str :=
  match a with
  | [] => []
  | [kv] => fst kv ++ val_src (snd kv)
  | kv :: r => attr_src kv ++ asrc r
  end.
Definition attrs_src (a : list (str * option str)) : str :=
  match a with [] => [] | _ => 32 :: asrc a end.
Definition w_start (n : str) (a : list (str * option str)) : str := 60 :: n ++ attrs_src a ++ [62].       (* <n ...> *)
Definition w_self (n : str) (a : list (str * option str)) : str := 60 :: n ++ attrs_src a ++ [47; 62].    (* <n .../> *)
Definition w_end (n : str) : str := 60 :: 47 :: n ++ [62].         (* </n> *)

Definition tok_src (t : wtok) : str :=
  match t with WText s => s | WCons s _ => s | WRaw n a _ s => w_start n a ++ s ++ w_end n end.
Definition tok_evs (t : wtok) : list tev :=
  match t with
  | WText s => [TData s]
  | WCons _ e => e
  | WRaw n _ a' s => TStart n a' :: match s with [] => [] | _ => [TData s] end ++ [TEnd n]
  end.

Fixpoint toks_node (d : dnode) : list wtok :=
  match d with
  | DText s => [WText s]
  | DCharref n => [WCons (38 :: 35 :: n ++ [59]) [TCharref n]]
  | DEntity n => [WCons (38 :: n ++ [59]) [TEntityref n]]
  | DComment s => [WCons (60 :: 33 :: 45 :: 45 :: s ++ [45; 45; 62]) [TComment s]]
  | DDoctype kw s => [WCons (60 :: 33 :: kw ++ s ++ [62]) [TDecl (kw ++ s)]]
  | DCdata kw s => [WCons (60 :: 33 :: 91 :: kw ++ s ++ [93; 93; 62]) [TUnknownDecl (kw ++ s)]]
  | DDecl s => [WCons (60 :: 33 :: 91 :: s ++ [93; 62]) [TUnknownDecl s]]
  | DPi s => [WCons (60 :: 63 :: s ++ [62]) [TPi s]]
  | DVoid n a _ SpOpen => [WCons (w_start n a) [TStart n a]]
  | DVoid n a _ SpSelf => [WCons (w_self n a) [TStartEnd n a]]
  | DVoid n a _ SpPair => [WCons (w_start n a) [TStart n a]; WCons (w_end n) [TEnd n]]
  | DSelf n a _ => [WCons (w_self n a) [TStartEnd n a]]
  | DElem n a _ kids =>
      let generic := WCons (w_start n a) [TStart n a] :: flat_map toks_node kids ++ [WCons (w_end n) [TEnd n]] in
      if memS n cdata_content_elements then
        match kids with
        | [] => [WRaw n a a []]
        | [DText (c :: s)] => [WRaw n a a (c :: s)]
        | _ => generic
        end
      else generic
  end.
Definition toks_of (doc : list dnode) : list wtok := flat_map toks_node doc.
Definition write (doc : list dnode) : str := concat (map tok_src (toks_of doc)).

(* two pieces of text never stand next to each other (the tokenizer would report them as one) *)
Fixpoint no_adj_text (l : list wtok) : bool :=
  match l with
  | [] => true
  | WText _ :: r => match r with WText _ :: _ => false | _ => no_adj_text r end
  | WCons _ _ :: r => no_adj_text r
  | WRaw _ _ _ _ :: r => no_adj_text r
  end.

(* the characters of a name after the first: lower-case letters, digits,  - . : _ *)
Definition lower_or_digit (c : N) : bool := is_lower c || is_digit c || memN c [45; 46; 58; 95].
Definition simple_name (n : str) : bool :=
  match n with
  | c :: r => is_lower c && forallb lower_or_digit r && negb (memS n cdata_content_elements)
  | [] => false
  end.
Definition raw_name (n : str) : bool :=
  match n with c :: r => is_lower c && forallb lower_or_digit r | [] => false end.
Definition simple_charref (n : str) : bool :=
  nonempty_all is_digit n ||
  match n with x :: hs => ((x =? 120) || (x =? 88)) && nonempty_all is_hexd hs | [] => false end.
Definition lit_doctype_sp : str := [100; 111; 99; 116; 121; 112; 101; 32].      (* "doctype " *)
Definition lit_DOCTYPE_sp : str := [68; 79; 67; 84; 89; 80; 69; 32].            (* "DOCTYPE " *)
Definition lit_cdata_open : str := [99; 100; 97; 116; 97; 91].                  (* "cdata[" *)
Definition no_char (c : N) (s : str) : bool := forallb (fun x => negb (x =? c)) s.
(* no two consecutive '-' *)
Fixpoint no_dd (s : str) : bool :=
  match s with
  | [] => true
  | c :: r => negb ((c =? 45) && match r with d :: _ => d =? 45 | [] => false end) && no_dd r
  end.
(* an attribute name: a lower-case letter, '_' or ':' first, then lower-case letters, digits,  - . : _ *)
Definition attr_start (c : N) : bool := is_lower c || (c =? 95) || (c =? 58).
Definition simple_attr_name (k : str) : bool :=
  match k with c :: r => attr_start c && forallb lower_or_digit r | [] => false end.
(* an attribute the writer can lay out as  name=DQ value DQ  or as a bare name *)
Definition quoted_attr (kv : str * option str) : bool :=
  simple_attr_name (fst kv) && match snd kv with Some x => negb (memN 34 x && memN 39 x) | None => true end.
Definition quoted_attrs (a : list (str * option str)) : bool := forallb quoted_attr a.
(* ... whose value moreover contains no reference *)
Definition simple_attr (kv : str * option str) : bool :=
  quoted_attr kv && match snd kv with Some x => no_char 38 x | None => true end.
Definition simple_attrs (a : list (str * option str)) : bool := forallb simple_attr a.

Fixpoint simple_node (d : dnode) : bool :=
  match d with
  | DText s => match s with [] => false | _ => forallb not_interesting s end
  | DCharref n => simple_charref n
  | DEntity n => match n with c :: r => is_alpha c && forallb is_namechar r | [] => false end
  | DComment s => no_dd s
  | DDoctype kw s => (str_eqb kw lit_DOCTYPE_sp || str_eqb kw lit_doctype_sp) && no_char 62 s
  | DCdata kw s => (str_eqb kw s_cdata_open || str_eqb kw lit_cdata_open) && no_char 93 s
  | DDecl _ => false
  | DPi s => no_char 62 s
  | DVoid n a _ _ => simple_name n && simple_attrs a
  | DSelf n a _ => simple_name n && simple_attrs a
  | DElem n a _ kids =>
      if memS n cdata_content_elements then
        raw_name n && simple_attrs a &&
        match kids with
        | [] => true
        | [DText (c :: s)] => no_char 60 (c :: s)           (* raw text: anything but '<' *)
        | _ => false
        end
      else simple_name n && simple_attrs a && forallb simple_node kids
  end.
Definition simple_doc (doc : list dnode) : bool :=
  forallb simple_node doc && no_adj_text (toks_of doc).

(* the ideal callbacks of Spec/DocSpec.v without positions *)
Definition tevs_of (doc : list dnode) : list tev := flat_map tok_evs (toks_of doc).

(* ---- the wider sub-grammar: attribute values may contain references ----
   What is written between the quotes is the value as WRITTEN; the document the text stands for has html.unescape of it
   ([udoc u]).  *)
Definition uv (u : str -> str) (a : list (str * option str)) : list (str * option str) :=
  map (fun kv => (fst kv, option_map (unesc_value u) (snd kv))) a.
Fixpoint udoc_node (u : str -> str) (d : dnode) : dnode :=
  match d with
  | DVoid n a p sp => DVoid n (uv u a) p sp
  | DSelf n a p => DSelf n (uv u a) p
  | DElem n a p kids => DElem n (uv u a) p (map (udoc_node u) kids)
  | _ => d
  end.
Definition udoc (u : str -> str) (doc : list dnode) : list dnode := map (udoc_node u) doc.

Fixpoint wider_node (d : dnode) : bool :=
  match d with
  | DVoid n a _ _ => simple_name n && quoted_attrs a
  | DSelf n a _ => simple_name n && quoted_attrs a
  | DElem n a _ kids =>
      if memS n cdata_content_elements then
        raw_name n && quoted_attrs a &&
        match kids with
        | [] => true
        | [DText (c :: s)] => no_char 60 (c :: s)
        | _ => false
        end
      else simple_name n && quoted_attrs a && forallb wider_node kids
  | _ => simple_node d
  end.
Definition wider_doc (doc : list dnode) : bool :=
  forallb wider_node doc && no_adj_text (toks_of doc).

