(* C13 — the documented behaviour of text extraction, stated over ordered rose trees
   (Spec/Tree.v) without any links: a recursive evaluator that walks the children lists.
   Independent of Model/Text.v (no heap, no next_element chain, no sentinel). *)
From Coq Require Import List NArith Bool Arith.
From BS Require Import Base.Sexp Base.Types Gen.Stdlib Spec.Tree.
Import ListNotations.

Section Evaluator.
  (* what a node carries *)
  Variable isstr : nat -> bool.          (* the node is a string (leaf) *)
  Variable cls : nat -> N.               (* class of a string *)
  Variable text : nat -> str.            (* text of a string *)

  (* which classes the caller / the element counts as text *)
  Variable want : N -> bool.

  (* strip: a piece is shown trimmed and disappears when nothing is left *)
  Variable trim : str -> str.
  Definition shown (strip : bool) (s : str) : list str :=
    if strip then (match trim s with [] => [] | t => [t] end) else [s].

  (* every counted string of the tree, in document order *)
  Fixpoint texts (strip : bool) (t : tree) : list (nat * str) :=
    match t with
    | Node i ks =>
        (if isstr i && want (cls i) then map (fun s => (i, s)) (shown strip (text i)) else [])
        ++ flat_map (texts strip) ks
    end.

  (* ... beneath an element *)
  Definition texts_below (strip : bool) (t : tree) : list (nat * str) :=
    flat_map (texts strip) (tkids t).

  (* the same thing said with a filter over the pre-order: the counted strings beneath t are the
     string nodes of tl (pre t) whose class counts, in that order *)
  Definition counted (t : tree) : list nat :=
    filter (fun d => isstr d && want (cls d)) (tl (pre t)).

  (* .string: the string at the end of a chain of only children *)
  Fixpoint sole (t : tree) : option nat :=
    match t with
    | Node _ [c] => if isstr (rid c) then Some (rid c) else sole c
    | Node _ _ => None
    end.

  Inductive sole_chain : tree -> nat -> Prop :=
  | sole_here : forall t c, tkids t = [c] -> isstr (rid c) = true -> sole_chain t (rid c)
  | sole_down : forall t c s, tkids t = [c] -> isstr (rid c) = false -> sole_chain c s -> sole_chain t s.
End Evaluator.

(* what "the classes that count" means for each form of the types argument:
   explicit classes count exactly; with no argument an element counts its own set, which is
   {ordinary text, CDATA} unless the element has a set of its own *)
Definition ordinary_text_classes : list N := [0%N; 1%N].     (* NavigableString, CData *)

Definition own_set (ist : option (list N)) : list N :=
  match ist with Some s => s | None => ordinary_text_classes end.

(* str.strip() said relationally: t is s without a whitespace-only prefix and suffix, and t itself
   neither starts nor ends with whitespace *)
Definition ws (c : N) : bool := memN c py_whitespace.
Definition no_ws_ends (t : str) : Prop :=
  match t with
  | [] => True
  | a :: _ => ws a = false /\ ws (last t a) = false
  end.
Definition trimmed (s t : str) : Prop :=
  exists l r, s = l ++ t ++ r /\ forallb ws l = true /\ forallb ws r = true /\ no_ws_ends t.

(* separator.join said without recursion on the result: put the separator between every two
   neighbouring pieces, then concatenate *)
Definition intersperse (sep : str) (l : list str) : list str :=
  match l with
  | [] => []
  | a :: l' => a :: flat_map (fun b => [sep; b]) l'
  end.
Definition join_spec (sep : str) (l : list str) : str := concat (intersperse sep l).
