(* C10, CSS clause — a specification of the selector subset that CSS and find_all can both express:
   type, .class, #id, [attr], [attr=v], compounds of these (a.x#i[k]), the descendant (" ") and child (">")
   combinators, and selector lists ("s1, s2").  [css_matches] is the meaning of a selector on the tree
   (standard CSS: a compound holds of an element when each simple selector does; "A B" = B with some ancestor
   A; "A > B" = B whose parent is A; matching is against the whole document, the scope only restricts which
   elements are returned); [select_spec] is what select() returns from a scope element: its descendants, in
   document order, that match some selector of the list.

   This file is a SPECIFICATION.  soupsieve, the third-party engine behind Tag.select, is not modelled and
   stays trusted; the harness compares [select_spec] with soupsieve's answers case by case (correspondence),
   and Proofs/CssProofs.v proves that on this subset [select_spec] is a composition of find_all calls of
   Model/Search.v. *)
From Coq Require Import List NArith ZArith Bool Arith.
From BS Require Import Base.Sexp Base.Types Model.Heap Model.Iter Model.Attrs Model.Search.
From BS Require Spec.SearchSpec.
Import ListNotations.
Local Open Scope nat_scope.

Inductive asimple :=
| CClass (c : str)            (* .c *)
| CId (i : str)               (* #i *)
| CAttr (k : str)             (* [k] *)
| CAttrEq (k v : str).        (* [k=v] / [k="v"] *)
Record compound := mkcomp { c_type : option str; c_simples : list asimple }.   (* a.x#i[k]; "*" = no type *)
Inductive comb := Desc | Child.
(* s_n comb_n ... comb_2 s_2 comb_1 s_1 (written left to right): the rightmost compound and, nearest first,
   the compounds to its left with the combinator that links each to its right neighbour *)
Record complex := mkcx { cx_last : compound; cx_left : list (comb * compound) }.
Definition selector := list complex.          (* s1, s2, ... *)

Definition lit_id : str := [105; 100]%N.

Section Css.
  Variable h : heap.
  Variable xm : xmap.

  (* the value of an attribute as one string: the tokens of a multi-valued attribute joined by single spaces *)
  Definition attr_text (v : attrv) : str := match v with AvStr s => s | AvList l => join_sp l end.
  (* the class tokens *)
  Definition class_tokens (v : attrv) : list str := match v with AvStr s => split_ws s | AvList l => l end.

  Definition css_simple (x : nat) (s : asimple) : bool :=
    let attrs := x_attrs (xm x) in
    match s with
    | CClass c => match aget lit_class attrs with Some v => memS c (class_tokens v) | None => false end
    | CId i => match aget lit_id attrs with Some v => str_eqb i (attr_text v) | None => false end
    | CAttr k => match aget k attrs with Some _ => true | None => false end
    | CAttrEq k v => match aget k attrs with Some w => str_eqb v (attr_text w) | None => false end
    end.
  Definition css_compound (c : compound) (x : nat) : bool :=
    is_tag h x &&
    match c_type c with Some n => str_eqb n (txt (h x)) | None => true end &&
    forallb (css_simple x) (c_simples c).

  (* the parent element: the nearest tag on the ancestor chain (in a tree every ancestor is a tag — C01 —, so this
     is simply the parent) *)
  Definition parent_el (fuel : nat) (x : nat) : option nat := hd_error (filter (is_tag h) (parents fuel h x)).

  (* the compounds to the left, walking up from x; [fuel] bounds the length of the ancestor chain *)
  Fixpoint css_left (fuel : nat) (l : list (comb * compound)) (x : nat) : bool :=
    match l with
    | [] => true
    | (Child, c) :: l' =>
        match parent_el fuel x with
        | Some p => css_compound c p && css_left fuel l' p
        | None => false
        end
    | (Desc, c) :: l' => existsb (fun p => css_compound c p && css_left fuel l' p) (parents fuel h x)
    end.
  Definition css_matches (fuel : nat) (cx : complex) (x : nat) : bool :=
    css_compound (cx_last cx) x && css_left fuel (cx_left cx) x.

  (* Tag.select(selector) from the scope element e *)
  Definition select_spec (fuel : nat) (sel : selector) (e : nat) : list nat :=
    filter (fun x => existsb (fun cx => css_matches fuel cx x) sel) (descendants fuel h e).
  (* Tag.select_one *)
  Definition select_one_spec (fuel : nat) (sel : selector) (e : nat) : option nat :=
    hd_error (select_spec fuel sel e).
End Css.

(* ---- the find_all reading of the same selectors ---- *)
Definition crit_of_simple (s : asimple) : str * crit :=
  match s with
  | CClass c => (lit_class, COne (AtStr c))
  | CId i => (lit_id, COne (AtStr i))
  | CAttr k => (k, COne (AtBool true))
  | CAttrEq k v => (k, COne (AtStr v))
  end.
(* find_all(name, attrs={...}) for a compound *)
Definition query_of (c : compound) : query :=
  mkq (match c_type c with Some n => COne (AtStr n) | None => c_none end)
      (AttrsDict (map crit_of_simple (c_simples c))) c_none [] None.
Definition q_all : query := mkq c_none (AttrsDict []) c_none [] None.       (* find_all() *)

Section Fa.
  Variable pat_sem : N -> str -> bool.
  Variable fun_sem : N -> callarg -> bool.
  Variable h : heap.
  Variable xm : xmap.
  Notation find_all_method := (find_all_method pat_sem fun_sem h xm).
  Notation find_method := (find_method pat_sem fun_sem h xm).

  Fixpoint memb (x : nat) (l : list nat) : bool := match l with [] => false | y :: l' => Nat.eqb x y || memb x l' end.
  Definition oeq (a b : option nat) : bool :=
    match a, b with Some x, Some y => Nat.eqb x y | _, _ => false end.

  (* "A > B": x.find_parent(A) is x.find_parent();   "A B": some p in x.find_parents(A) *)
  Fixpoint left_fa (fuel : nat) (l : list (comb * compound)) (x : nat) : bool :=
    match l with
    | [] => true
    | (Child, c) :: l' =>
        let p := fst (find_method fuel AxParents x (query_of c)) in
        oeq p (fst (find_method fuel AxParents x q_all)) &&
        match p with Some y => left_fa fuel l' y | None => false end
    | (Desc, c) :: l' =>
        existsb (fun p => left_fa fuel l' p) (fst (find_all_method fuel AxParents x (query_of c)))
    end.
  (* [x for x in e.find_all(B) if <left part>] *)
  Definition complex_fa (fuel : nat) (cx : complex) (e : nat) : list nat :=
    filter (left_fa fuel (cx_left cx)) (fst (find_all_method fuel AxDescendants e (query_of (cx_last cx)))).
  (* a selector list: the tags under e, in document order, that one of the lists contains *)
  Definition select_fa (fuel : nat) (sel : selector) (e : nat) : list nat :=
    filter (fun x => existsb (fun cx => memb x (complex_fa fuel cx e)) sel)
           (fst (find_all_method fuel AxDescendants e q_all)).
End Fa.

(* ---- the subset: what makes the two readings the same thing ---- *)
Definition no_space (s : str) : bool := forallb (fun ch => negb (N.eqb ch 32%N)) s.
Definition simple_ok (s : asimple) : bool :=
  match s with CClass c => negb (null c) && no_space c | _ => true end.
(* class names are identifiers (non-empty, no space); no attribute is constrained twice in one compound (that is
   what query_ok of the find_all reading says) *)
Definition compound_ok (c : compound) : bool :=
  forallb simple_ok (c_simples c) && Spec.SearchSpec.query_ok (query_of c).
Definition complex_ok (cx : complex) : bool :=
  compound_ok (cx_last cx) && forallb (fun cc => compound_ok (snd cc)) (cx_left cx).
Definition selector_ok (sel : selector) : bool := forallb complex_ok sel.

(* the attributes compared with "=" (and id) *)
Definition eq_key (s : asimple) : list str :=
  match s with CId _ => [lit_id] | CAttrEq k _ => [k] | _ => [] end.
Definition compound_eq_keys (c : compound) : list str := flat_map eq_key (c_simples c).
Definition eq_keys (sel : selector) : list str :=
  flat_map (fun cx => compound_eq_keys (cx_last cx) ++ flat_map (fun cc => compound_eq_keys (snd cc)) (cx_left cx)) sel.

(* the trees: no namespace prefixes; class is stored as a token list (as the HTML builders store it); the
   attributes the selector compares with "=" are stored as one string *)
Definition css_domain (sel : selector) (xm : xmap) : Prop :=
  forall x, x_prefix (xm x) = None /\
            (forall v, aget lit_class (x_attrs (xm x)) = Some v -> exists l, v = AvList l) /\
            (forall k v, In k (eq_keys sel) -> aget k (x_attrs (xm x)) = Some v -> exists s, v = AvStr s).
