(* C04 — "the tree the markup describes", stated independently of the adapter.
   A document is a forest of [dnode]s as a writer would lay it out; every void element carries
   the spelling the writer chose (<br>, <br/> or <br></br>).  [hevents_of] is the callback stream
   an ideal tokenizer fires for the written document, [expect] is the tree the markup describes
   (elements nest as their tags do, void elements are childless, references are replaced by the
   characters they denote, a run of character data is one string, special strings keep their
   class), and [flat] lays that tree out in the flat form of Spec/BuildSpec.v. *)
From Coq Require Import List NArith ZArith Bool Arith.
From BS Require Import Base.Sexp Base.Types Base.Reader Model.Attrs Model.Heap Model.Edit
                       Model.Build Model.Adapter Spec.BuildSpec.
Import ListNotations.
Open Scope nat_scope.

Inductive spelling := SpOpen | SpSelf | SpPair.        (* <br>   <br/>   <br></br> *)

Inductive dnode :=
| DText (s : str)
| DCharref (name : str)                               (* &#name; *)
| DEntity (name : str)                                (* &name; *)
| DComment (s : str)                                  (* <!--s--> *)
| DDoctype (kw : str) (s : str)                       (* <!kw s> with kw ++ " " eight characters, e.g. DOCTYPE *)
| DCdata (kw : str) (s : str)                         (* <![kw s]]> with kw = CDATA[ in any case *)
| DDecl (s : str)                                     (* any other marked section <![s]> *)
| DPi (s : str)                                       (* <?s> *)
| DVoid (name : str) (attrs : list (str * option str)) (p : pos) (sp : spelling)
| DSelf (name : str) (attrs : list (str * option str)) (p : pos)      (* <name/>, name not void *)
| DElem (name : str) (attrs : list (str * option str)) (p : pos) (kids : list dnode).

(* the callbacks of an ideal tokenizer *)
Fixpoint hev_node (d : dnode) : list hev :=
  match d with
  | DText s => [HData s]
  | DCharref n => [HCharref n]
  | DEntity n => [HEntityref n]
  | DComment s => [HComment s]
  | DDoctype kw s => [HDecl (kw ++ s)]
  | DCdata kw s => [HUnknownDecl (kw ++ s)]
  | DDecl s => [HUnknownDecl s]
  | DPi s => [HPi s]
  | DVoid n a p SpOpen => [HStart n a p]
  | DVoid n a p SpSelf => [HStartEnd n a p]
  | DVoid n a p SpPair => [HStart n a p; HEnd n]
  | DSelf n a p => [HStartEnd n a p]
  | DElem n a p kids => HStart n a p :: flat_map hev_node kids ++ [HEnd n]
  end.
Definition hevents_of (doc : list dnode) : list hev := flat_map hev_node doc.

(* the same document with every void element spelled the same way *)
Fixpoint respell_node (sp : spelling) (d : dnode) : dnode :=
  match d with
  | DVoid n a p _ => DVoid n a p sp
  | DElem n a p kids => DElem n a p (map (respell_node sp) kids)
  | _ => d
  end.
Definition respell (sp : spelling) (doc : list dnode) : list dnode := map (respell_node sp) doc.

(* what a reference denotes (undefined references: see [wf_doc]) *)
Definition charref_text (cfg : acfg) (name : str) : str :=
  match charref_value name with Some v => charref_data (a_orig cfg) v | None => [] end.

Definition tag_pos (cfg : acfg) (p : pos) : option pos := if a_store cfg then Some p else None.

(* the construction events the document stands for: one start/end pair per element, whatever
   the spelling *)
Fixpoint canon_node (cfg : acfg) (d : dnode) : list out :=
  match d with
  | DText s => [(EData s, None)]
  | DCharref n => [(EData (charref_text cfg n), None)]
  | DEntity n => [(EData (entity_data n), None)]
  | DComment s => special s cls_comment
  | DDoctype _ s => special s cls_doctype
  | DCdata _ s => special s cls_cdata
  | DDecl s => special s cls_declaration
  | DPi s => special s cls_pi
  | DVoid n a p _ => [(EStart n None (mk_attrs cfg a), tag_pos cfg p); (EEnd n None, None)]
  | DSelf n a p => [(EStart n None (mk_attrs cfg a), tag_pos cfg p); (EEnd n None, None)]
  | DElem n a p kids =>
      (EStart n None (mk_attrs cfg a), tag_pos cfg p) :: flat_map (canon_node cfg) kids ++ [(EEnd n None, None)]
  end.
Definition canon (cfg : acfg) (doc : list dnode) : list out := flat_map (canon_node cfg) doc.

(* ---- the tree ---- *)
Inductive xtree :=
| XStr (cls : N) (s : str)
| XTag (name : str) (attrs : list (str * str)) (void : bool) (kids : list xtree).

(* what a string inherits from the elements around it *)
Record xctx := mkx { x_pres : bool;      (* inside a whitespace-preserving element *)
                     x_cont : N }.       (* string class of the nearest enclosing container, 0 if none *)
Definition ctx0 : xctx := mkx false 0%N.
Definition enter (b : bconfig) (c : xctx) (name : str) : xctx :=
  mkx (memS name (c_pw b) || x_pres c)
      (match assocS name (c_containers b) with Some k => k | None => x_cont c end).

(* a completed run of character data (most recent chunk first) becomes one string; whitespace-only TEXT
   outside whitespace-preserving elements collapses, a special string (comment, CDATA, doctype, declaration,
   processing instruction) keeps exactly its content *)
Definition xflush (b : bconfig) (c : xctx) (pend : list str) (cls : option N) : list xtree :=
  match pend with
  | [] => []
  | _ =>
      let text := concat (rev pend) in
      let special := match cls with Some k => preformatted_cls k | None => false end in
      let text := if negb special && negb (x_pres c) && all_in (c_spaces b) text
                  then (if memN 10%N text then [10%N] else [32%N]) else text in
      let k := match cls with Some k => if N.eqb k 0 then x_cont c else k | None => x_cont c end in
      [XStr k text]
  end.

(* the special strings of a document: class and content as written *)
Definition special_of (d : dnode) : option (N * str) :=
  match d with
  | DComment s => Some (cls_comment, s)
  | DDoctype _ s => Some (cls_doctype, s)
  | DCdata _ s => Some (cls_cdata, s)
  | DDecl s => Some (cls_declaration, s)
  | DPi s => Some (cls_pi, s)
  | _ => None
  end.

(* one node: the trees it completes and the character data still being gathered afterwards *)
Fixpoint expect_node (cfg : acfg) (c : xctx) (pend : list str) (d : dnode) : list xtree * list str :=
  let b := a_b cfg in
  let sp s k := (xflush b c pend None ++ xflush b c [s] (Some k), []) in
  match d with
  | DText s => ([], s :: pend)
  | DCharref n => ([], charref_text cfg n :: pend)
  | DEntity n => ([], entity_data n :: pend)
  | DComment s => sp s cls_comment
  | DDoctype _ s => sp s cls_doctype
  | DCdata _ s => sp s cls_cdata
  | DDecl s => sp s cls_declaration
  | DPi s => sp s cls_pi
  | DVoid n a _ _ | DSelf n a _ =>
      (xflush b c pend None ++ [XTag n (mk_attrs cfg a) (can_be_empty b n) []], [])
  | DElem n a _ kids =>
      let c' := enter b c n in
      let '(ks, kp) :=
        (fix go (pend : list str) (l : list dnode) : list xtree * list str :=
           match l with
           | [] => ([], pend)
           | k :: l' => let '(t1, p1) := expect_node cfg c' pend k in
                        let '(t2, p2) := go p1 l' in (t1 ++ t2, p2)
           end) [] kids in
      (xflush b c pend None ++ [XTag n (mk_attrs cfg a) (can_be_empty b n) (ks ++ xflush b c' kp None)], [])
  end.
Fixpoint expect_list (cfg : acfg) (c : xctx) (pend : list str) (l : list dnode) : list xtree * list str :=
  match l with
  | [] => ([], pend)
  | k :: l' => let '(t1, p1) := expect_node cfg c pend k in
               let '(t2, p2) := expect_list cfg c p1 l' in (t1 ++ t2, p2)
  end.

(* the root object is an element too (its name could be listed in the builder's sets) *)
Definition root_ctx (b : bconfig) : xctx := enter b ctx0 (c_root b).
Definition expect (cfg : acfg) (doc : list dnode) : list xtree :=
  let '(ts, p) := expect_list cfg (root_ctx (a_b cfg)) [] doc in
  ts ++ xflush (a_b cfg) (root_ctx (a_b cfg)) p None.

(* ---- flat form: nodes in document order, each with its parent's index ---- *)
Fixpoint xsize (t : xtree) : nat :=
  match t with
  | XStr _ _ => 1
  | XTag _ _ _ ks => S ((fix go (l : list xtree) : nat :=
                           match l with [] => 0 | k :: l' => xsize k + go l' end) ks)
  end.
Fixpoint xsizes (l : list xtree) : nat :=
  match l with [] => 0 | k :: l' => xsize k + xsizes l' end.

(* [flat_tree p i t]: the nodes of t when its root has index i and parent p *)
Fixpoint flat_tree (p i : nat) (t : xtree) : list snode :=
  match t with
  | XStr k s => [mksn (Some p) (mkpl s None [] k false)]
  | XTag n a v ks =>
      mksn (Some p) (mkpl n None a 0%N v) ::
      (fix go (j : nat) (l : list xtree) : list snode :=
         match l with
         | [] => []
         | k :: l' => flat_tree i j k ++ go (j + xsize k) l'
         end) (S i) ks
  end.
Fixpoint flat_forest (p j : nat) (l : list xtree) : list snode :=
  match l with
  | [] => []
  | k :: l' => flat_tree p j k ++ flat_forest p (j + xsize k) l'
  end.

Definition root_node (b : bconfig) : snode := mksn None (mkpl (c_root b) None [] 0%N false).
Definition flat (b : bconfig) (ts : list xtree) : list snode := root_node b :: flat_forest 0 1 ts.

(* ---- which documents the statement is about ---- *)
Definition attr_keys_nodup (a : list (str * option str)) : bool :=
  (fix go (l : list (str * option str)) : bool :=
     match l with [] => true | kv :: l' => negb (existsb (fun kv' => str_eqb (fst kv) (fst kv')) l') && go l' end) a.

Fixpoint wf_node (cfg : acfg) (d : dnode) : bool :=
  let b := a_b cfg in
  match d with
  | DCharref n => match charref_value n with Some _ => true | None => false end
  | DDoctype kw _ => Nat.eqb (length kw) len_doctype
  | DCdata kw _ => str_eqb (ascii_upper kw) s_cdata_open
  | DDecl s => negb (starts_with s_cdata_open (ascii_upper s))
  | DVoid n _ _ _ => can_be_empty b n && negb (str_eqb n (c_root b))
  | DSelf n _ _ => negb (can_be_empty b n) && negb (str_eqb n (c_root b))
  | DElem n _ _ kids => negb (can_be_empty b n) && negb (str_eqb n (c_root b)) && forallb (wf_node cfg) kids
  | _ => true
  end.
Definition wf_doc (cfg : acfg) (doc : list dnode) : bool := forallb (wf_node cfg) doc.
