(* C20 — the documented meaning of TreeBuilderRegistry.lookup, stated over the
   registration history (oldest first), with no per-feature index. *)
From Coq Require Import List NArith Bool.
From BS Require Import Base.Types Model.Registry.
Import ListNotations.
Open Scope N_scope.

(* some registered builder advertises f *)
Definition offered (hist : list registration) (f : N) : bool :=
  existsb (fun r => memN f (snd r)) hist.

(* builder b was registered advertising f *)
Definition advertises (hist : list registration) (b f : N) : bool :=
  existsb (fun r => N.eqb (fst r) b && memN f (snd r)) hist.

(* General form (a class may have been registered more than once). *)
Definition lookup_spec (hist : list registration) (features : list N) : option N :=
  match rev hist with
  | [] => None
  | newest :: _ =>
      match features with
      | [] => Some (fst newest)
      | _ :: _ =>
          match filter (offered hist) features with
          | [] => None
          | f0 :: rest =>
              option_map fst
                (find (fun r => memN f0 (snd r) && forallb (advertises hist (fst r)) rest)
                      (rev hist))
          end
      end
  end.

(* The property's wording, valid when every class is registered once:
   the newest registration whose own feature list contains every requested
   feature that anybody offers. *)
Definition lookup_spec_simple (hist : list registration) (features : list N) : option N :=
  match rev hist with
  | [] => None
  | newest :: _ =>
      match features with
      | [] => Some (fst newest)
      | _ :: _ =>
          match filter (offered hist) features with
          | [] => None
          | req =>
              option_map fst
                (find (fun r => forallb (fun f => memN f (snd r)) req) (rev hist))
          end
      end
  end.
