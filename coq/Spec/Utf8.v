(* UTF-8 (RFC 3629): well-formed byte strings are exactly the concatenations of the
   encodings of Unicode scalar values. *)
From Coq Require Import List NArith Bool.
Import ListNotations.
Open Scope N_scope.

Definition scalar (c : N) : bool := (c <? 55296) || ((57344 <=? c) && (c <=? 1114111)).

Definition utf8_enc (c : N) : list N :=
  if c <? 128 then [c]
  else if c <? 2048 then [192 + c / 64; 128 + c mod 64]
  else if c <? 65536 then [224 + c / 4096; 128 + (c / 64) mod 64; 128 + c mod 64]
  else [240 + c / 262144; 128 + (c / 4096) mod 64; 128 + (c / 64) mod 64; 128 + c mod 64].

Definition utf8_of (cs : list N) : list N := flat_map utf8_enc cs.

Definition valid_utf8 (bs : list N) : Prop :=
  exists cs, forallb scalar cs = true /\ bs = utf8_of cs.

(* length a lead byte announces *)
Definition lead_len (b : N) : nat :=
  if (194 <=? b) && (b <=? 223) then 2
  else if (224 <=? b) && (b <=? 239) then 3
  else if (240 <=? b) && (b <=? 244) then 4
  else 1.
