(* C07 — the documented behaviour of encoding detection, stated independently of the code:
   the five byte-order marks, the documented order of the sources, "minus excluded, each tried
   once", "the first under which the bytes decode", and the replacement fallback.
   Nothing here refers to Gen/T_C07.v or Model/Dammit.v (except the shared type dmode/markup). *)
From Coq Require Import List NArith Bool Arith.
From BS Require Import Base.Sexp Base.Types Model.Dammit.
Import ListNotations.
Open Scope N_scope.

(* ---- names fixed by the documentation ---- *)
Definition n_utf8 : str := [117;116;102;45;56].                               (* utf-8 *)
Definition n_windows1252 : str := [119;105;110;100;111;119;115;45;49;50;53;50]. (* windows-1252 *)
Definition n_ascii : str := [97;115;99;105;105].                              (* ascii *)
Definition n_utf16be : str := [117;116;102;45;49;54;98;101].                  (* utf-16be *)
Definition n_utf16le : str := [117;116;102;45;49;54;108;101].                 (* utf-16le *)
Definition n_utf32be : str := [117;116;102;45;51;50;98;101].                  (* utf-32be *)
Definition n_utf32le : str := [117;116;102;45;51;50;108;101].                 (* utf-32le *)

(* ---- byte-order marks ----
   [marked d rest name]: d begins with the mark of [name] and [rest] is what follows it.
   A UTF-16 mark counts only when at least two more bytes follow and they are not 00 00
   (FF FE 00 00 is the UTF-32LE mark; FE FF 00 00 is nothing). *)
Inductive marked : str -> str -> str -> Prop :=
| M_utf16be rest : (2 <= length rest)%nat -> firstn 2 rest <> [0; 0] ->
                   marked (254 :: 255 :: rest) rest n_utf16be
| M_utf16le rest : (2 <= length rest)%nat -> firstn 2 rest <> [0; 0] ->
                   marked (255 :: 254 :: rest) rest n_utf16le
| M_utf8 rest : marked (239 :: 187 :: 191 :: rest) rest n_utf8
| M_utf32be rest : marked (0 :: 0 :: 254 :: 255 :: rest) rest n_utf32be
| M_utf32le rest : marked (255 :: 254 :: 0 :: 0 :: rest) rest n_utf32le.

Definition bom_spec (d d' : str) (e : option str) : Prop :=
  match e with
  | Some n => marked d d' n
  | None => d' = d /\ forall r n, ~ marked d r n
  end.

(* ---- the documented order of the sources ---- *)
Definition documented_order (known_definite : list str) (bom : option str) (user : list str)
           (declared guessed : option str) : list str :=
  known_definite ++ olist bom ++ user ++ olist declared ++ olist guessed ++ [n_utf8; n_windows1252].

(* ---- minus excluded encodings (case-insensitively), each tried once (case-insensitively) ---- *)
Section Candidates.
  Variable key : str -> str.          (* str.lower *)

  Definition excluded (excl : list str) (e : str) : bool := memS (key e) (map key excl).

  (* keep the first occurrence of every key not already in [seen] *)
  Fixpoint dedup_by (seen : list str) (l : list str) : list str :=
    match l with
    | [] => []
    | x :: xs => if memS (key x) seen then dedup_by seen xs
                 else x :: dedup_by (key x :: seen) xs
    end.

  Definition spec_candidates (excl : list str) (order : list str) : list str :=
    dedup_by [] (filter (fun e => negb (excluded excl e)) order).
End Candidates.

(* order-preserving sub-list *)
Inductive subseq {X} : list X -> list X -> Prop :=
| SS_nil : subseq [] []
| SS_skip x l1 l2 : subseq l1 l2 -> subseq l1 (x :: l2)
| SS_keep x l1 l2 : subseq l1 l2 -> subseq (x :: l1) (x :: l2).

(* ---- the first candidate under which the bytes decode ---- *)
Fixpoint first_some {X Y} (f : X -> option Y) (l : list X) : option Y :=
  match l with
  | [] => None
  | x :: xs => match f x with Some y => Some y | None => first_some f xs end
  end.

Section Outcome.
  Variable resolve : str -> option str.                     (* name -> codec name *)
  Variable decode : str -> str -> dmode -> option str.      (* bytes, codec, error mode *)

  (* one attempt: (text, codec) *)
  Definition attempt (bytes : str) (m : dmode) (c : str) : option (str * str) :=
    match resolve c with
    | Some k => match decode bytes k m with Some u => Some (u, k) | None => None end
    | None => None
    end.

  (* (unicode_markup, original_encoding, contains_replacement_characters) *)
  Definition spec_outcome (bytes : str) (cands : list str) : option str * option str * bool :=
    match first_some (attempt bytes Strict) cands with
    | Some (u, k) => (Some u, Some k, false)
    | None =>
        match first_some (attempt bytes Replace) (filter (fun c => negb (str_eqb c n_ascii)) cands) with
        | Some (u, k) => (Some u, Some k, true)
        | None => (None, None, false)
        end
    end.
End Outcome.
