(* C03 — the documented construction rules as a fold over a plain stack of open elements: no
   open-tag counter, no auxiliary stacks, no links.  The result is the tree in flat form: the
   list of nodes in creation (= document) order, each with its parent and payload; the children
   of a node are the nodes naming it as parent, in that order. *)
From Coq Require Import List NArith ZArith Bool Arith.
From BS Require Import Base.Sexp Base.Types Model.Heap Model.Edit Model.Build.
Import ListNotations.

Record snode := mksn { sn_parent : option nat; sn_pay : payload }.

Record sstate := mkss {
  s_nodes : list snode;            (* node i is the i-th created *)
  s_open : list nat;               (* open elements, innermost first; the root is last *)
  s_pending : list str             (* text gathered so far, most recent chunk first *)
}.

Definition s_name (s : sstate) (x : nat) : str := p_name (sn_pay (nth x (s_nodes s) (mksn None no_payload))).
Definition s_prefix (s : sstate) (x : nat) : option str := p_prefix (sn_pay (nth x (s_nodes s) (mksn None no_payload))).

Definition s_start (cfg : bconfig) : sstate :=
  mkss [mksn None (mkpl (c_root cfg) None [] 0%N false)] [0%nat] [].

(* the class of a piece of text: the one asked for, else that of the nearest enclosing container *)
Fixpoint nearest_container (cfg : bconfig) (s : sstate) (open : list nat) : N :=
  match open with
  | [] => 0%N
  | x :: rest => match assocS (s_name s x) (c_containers cfg) with
                 | Some c => c
                 | None => nearest_container cfg s rest
                 end
  end.

(* text is gathered until the next non-text event, then becomes one string node; whitespace-only TEXT outside
   whitespace-preserving elements collapses, the content of special strings (comment, CDATA, doctype, declaration,
   processing instruction) never does *)
Definition s_flush (cfg : bconfig) (s : sstate) (cls : option N) : sstate :=
  match s_pending s with
  | [] => s
  | chunks =>
      let text := concat (rev chunks) in
      let preserved := existsb (fun x => memS (s_name s x) (c_pw cfg)) (s_open s) in
      let special := match cls with Some c => preformatted_cls c | None => false end in
      let text := if negb special && negb preserved && all_in (c_spaces cfg) text
                  then (if memN 10%N text then [10%N] else [32%N]) else text in
      let c := match cls with Some c => if N.eqb c 0 then nearest_container cfg s (s_open s) else c
                            | None => nearest_container cfg s (s_open s) end in
      mkss (s_nodes s ++ [mksn (hd_error (s_open s)) (mkpl text None [] c false)]) (s_open s) []
  end.

(* close up to and including the most recent open element with that name and prefix *)
Fixpoint close_through (s : sstate) (name : str) (prefix : option str) (open : list nat) : option (list nat) :=
  match open with
  | [] => None
  | [_] => None                        (* the root is never closed *)
  | x :: rest =>
      if str_eqb name (s_name s x) && opt_str_eqb prefix (s_prefix s x) then Some rest
      else close_through s name prefix rest
  end.

Definition s_step (cfg : bconfig) (s : sstate) (e : event) : sstate :=
  match e with
  | EStart name prefix attrs =>
      let s := s_flush cfg s None in
      let x := length (s_nodes s) in
      mkss (s_nodes s ++ [mksn (hd_error (s_open s)) (mkpl name prefix attrs 0%N (can_be_empty cfg name))])
           (x :: s_open s) []
  | EEnd name prefix =>
      let s := s_flush cfg s None in
      match close_through s name prefix (s_open s) with
      | Some rest => mkss (s_nodes s) rest (s_pending s)
      | None => s                        (* no such element is open: ignored *)
      end
  | EData t => mkss (s_nodes s) (s_open s) (t :: s_pending s)
  | EEndData c => s_flush cfg s c
  end.

(* everything left open is closed at end of input *)
Definition spec_run (cfg : bconfig) (evs : list event) : list snode :=
  s_nodes (s_flush cfg (fold_left (s_step cfg) evs (s_start cfg)) None).

Definition children_of (nodes : list snode) (x : nat) : list nat :=
  filter (fun y => match sn_parent (nth y nodes (mksn None no_payload)) with
                   | Some p => Nat.eqb p x | None => false end) (seq 0 (length nodes)).
