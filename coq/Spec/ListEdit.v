(* C02 — the effect of Tag.insert(position, children...) on the child list of the receiving tag,
   at list level: [kmove] is what one _insert does to the list (an element that is already a child
   is first taken out, with the code's index adjustment), [kmove_all] is the multi-argument loop
   (the next child goes right after the one just placed, wherever it ended up), and [splice_spec]
   is the documented effect: the arguments end up contiguous, in order, immediately before the
   anchor (the first old child at or after the requested position that is not itself an argument),
   and nothing else moves. *)
From Coq Require Import List Arith Bool.
From BS Require Import Base.Sexp Model.Heap.
Import ListNotations.

Definition kmove (pos c : nat) (K : list nat) : list nat :=
  let pos := Nat.min pos (length K) in
  match index_of c K with
  | Some cur =>
      if Nat.ltb cur pos then insert_at (pred pos) c (remove_at cur K)
      else if Nat.eqb cur pos then K
      else insert_at pos c (remove_at cur K)
  | None => insert_at pos c K
  end.

Fixpoint kmove_all (pos : nat) (cs : list nat) (K : list nat) : list nat :=
  match cs with
  | [] => K
  | c :: cs' =>
      let K' := kmove pos c K in
      kmove_all (match index_of c K' with Some i => S i | None => pos end) cs' K'
  end.

Definition mem (x : nat) (l : list nat) : bool := existsb (Nat.eqb x) l.

Definition splice_spec (pos : nat) (cs K : list nat) : list nat :=
  let rest := filter (fun y => negb (mem y cs)) K in
  let a := length (filter (fun y => negb (mem y cs)) (firstn pos K)) in
  firstn a rest ++ cs ++ skipn a rest.

(* ---- insert_before / insert_after / replace_with at list level ---- *)
Definition kremove (c : nat) (K : list nat) : list nat :=
  match index_of c K with Some i => remove_at i K | None => K end.

(* insert_before(cs...) on self: each predecessor is extracted, then inserted at self's current index *)
Fixpoint kbefore (self : nat) (cs K : list nat) : list nat :=
  match cs with
  | [] => K
  | c :: cs' =>
      let K1 := kremove c K in
      match index_of self K1 with
      | Some i => kbefore self cs' (kmove i c K1)
      | None => K1
      end
  end.

(* insert_after(cs...) on self: each successor goes after everything inserted so far *)
Fixpoint kafter (anchor : nat) (cs K : list nat) : list nat :=
  match cs with
  | [] => K
  | c :: cs' =>
      let K1 := kremove c K in
      match index_of anchor K1 with
      | Some i => kafter c cs' (kmove (S i) c K1)
      | None => K1
      end
  end.

(* replace_with(cs...) on self: self is taken out, the replacements are inserted at its old index *)
Definition kreplace (self : nat) (cs K : list nat) : list nat :=
  match index_of self K with
  | Some i => kmove_all i cs (remove_at i K)
  | None => K
  end.

(* documented effects: the arguments, contiguous and in order, immediately before self /
   immediately after self / in the place of self; every other child keeps its relative order *)
Definition others (cs K : list nat) : list nat := filter (fun y => negb (mem y cs)) K.
Definition before_spec (self : nat) (cs K : list nat) : list nat :=
  let rest := others cs K in
  match index_of self rest with
  | Some a => firstn a rest ++ cs ++ skipn a rest
  | None => rest
  end.
Definition after_spec (self : nat) (cs K : list nat) : list nat :=
  let rest := others cs K in
  match index_of self rest with
  | Some a => firstn (S a) rest ++ cs ++ skipn (S a) rest
  | None => rest
  end.
Definition replace_spec (self : nat) (cs K : list nat) : list nat :=
  let rest := others cs K in
  match index_of self rest with
  | Some a => firstn a rest ++ cs ++ skipn (S a) rest
  | None => rest
  end.
