(* C05 at the level of the rendered STRING — definitions.
   The rendering of a tree is the concatenation of the spellings of its tokens (Model/Reparse.v).  [wtoks_of_token]
   lays one rendered token out as the written tokens of Spec/DocWrite.v (text is split at its references by
   [split_text]); [tok_covered] is the sub-domain for which Proofs/RenderTokProofs.v shows that the tokenizer model
   (Model/Tokenizer.v), followed by the adapter model, reads the rendered string exactly as Model.Reparse.read_tokens reads
   the token list; [text_value] is what the parser makes of a piece of character data.  No proofs in this file. *)
From Coq Require Import List NArith Bool Arith.
From BS Require Import Base.Sexp Base.Types Base.Reader Model.Build Model.Adapter Model.Render Model.Reparse
                       Model.Tokenizer Spec.DocSpec Spec.DocWrite.
Import ListNotations.
Open Scope N_scope.

(* character data: runs of plain characters and complete references  &name;  &#digits;  &#xhex; *)
Definition ent_name_ok (nm : str) : bool :=
  match nm with c :: r => is_alpha c && forallb is_namechar r | [] => false end.
Fixpoint split_text (fuel : nat) (s : str) : option (list wtok) :=
  match s with
  | [] => Some []
  | c :: r =>
      match fuel with
      | O => None
      | S f =>
          if c =? 60 then None
          else if c =? 38 then
            let '(nm, t) := span (fun x => negb (x =? 59)) r in
            match t with
            | _ :: rest' =>
                match nm with
                | x :: num =>
                    if x =? 35 then
                      if simple_charref num
                      then option_map (cons (WCons (38 :: 35 :: num ++ [59]) [TCharref num])) (split_text f rest')
                      else None
                    else if ent_name_ok nm
                    then option_map (cons (WCons (38 :: nm ++ [59]) [TEntityref nm])) (split_text f rest')
                    else None
                | [] => None
                end
            | [] => None
            end
          else
            let '(a, b) := span not_interesting s in
            option_map (cons (WText a)) (split_text f b)
      end
  end.
Definition text_pieces (s : str) : option (list wtok) := split_text (length s) s.

(* what BeautifulSoupHTMLParser hands on for one piece: handle_data / handle_entityref / handle_charref *)
Definition piece_value (orig : option (N -> option str)) (t : wtok) : str :=
  match t with
  | WText a => a
  | WCons _ [TEntityref n] => entity_data n
  | WCons _ [TCharref n] => match charref_value n with Some v => charref_data orig v | None => [] end
  | _ => []
  end.
Definition text_value (orig : option (N -> option str)) (s : str) : str :=
  match text_pieces s with Some l => concat (map (piece_value orig) l) | None => [] end.

Section WithUnesc.
Variable unesc : str -> str.
Definition uattrs (a : list (str * option str)) : list (str * option str) :=
  map (fun kv => (fst kv, option_map (unesc_value unesc) (snd kv))) a.
Definition attr_read : str -> str := unesc_value unesc.      (* ra of Model.Reparse: html.unescape, "" for "" *)

Definition wtoks_of_token (tok : token) : list wtok :=
  match tok with
  | TOpen n a => [WCons (spell tok) [TStart n (uattrs a)]]
  | TEmptyTag n a _ => [WCons (spell tok) [TStartEnd n (uattrs a)]]
  | TClose n => [WCons (spell tok) [TEnd n]]
  | TText s => match text_pieces s with Some l => l | None => [] end
  | TSpecial c s =>
      match c with
      | 4 => [WCons (spell tok) [TComment s]]
      | 1 => [WCons (spell tok) [TUnknownDecl (s_cdata_open ++ s)]]
      | 2 => [WCons (spell tok) [TPi s]]
      | 3 | 5 => [WCons (spell tok) [TPi (s ++ [63])]]
      | 6 => [WCons (spell tok) [TDecl (lit_DOCTYPE_sp ++ s)]]
      | _ => []
      end
  | TNone => []
  end.
End WithUnesc.

Fixpoint nodup_keys (a : list (str * option str)) : bool :=
  match a with
  | [] => true
  | kv :: r => negb (existsb (fun kv' => str_eqb (fst kv) (fst kv')) r) && nodup_keys r
  end.

(* the sub-domain: lower-case names other than script / style; a start tag is not a void element's (those are written
   as empty-element tags with "/"); attribute names lower-case and distinct, values laid out between double quotes;
   character data whose every '&' begins a complete reference; comments without '--', CDATA sections without ']',
   processing instructions, declarations and doctypes without '>' *)
Definition tok_covered (rc : rcfg) (tok : token) : bool :=
  match tok with
  | TOpen n a => simple_name n && negb (memS n (r_void rc)) && negb (memS n (r_cdata rc)) && quoted_attrs a && nodup_keys a
  | TEmptyTag n a slash => str_eqb slash [47] && simple_name n && quoted_attrs a && nodup_keys a
  | TClose n => simple_name n
  | TText s => match text_pieces s with Some _ => true | None => false end
  | TSpecial c s =>
      match c with
      | 4 => no_dd s
      | 1 => no_char 93 s
      | 2 | 3 | 5 | 6 => no_char 62 s
      | _ => false
      end
  | TNone => true
  end.
(* a script / style element: its start tag, at most one piece of raw text without '<', its end tag *)
Definition is_raw (rc : rcfg) (n : str) : bool :=
  raw_name n && memS n (r_cdata rc) && memS n cdata_content_elements && negb (memS n (r_void rc)).
Fixpoint toks_covered (rc : rcfg) (toks : list token) : bool :=
  match toks with
  | [] => true
  | TOpen n a :: r =>
      if is_raw rc n then
        quoted_attrs a && nodup_keys a &&
        match r with
        | TText s :: TClose n' :: r' => str_eqb n n' && no_char 60 s && toks_covered rc r'
        | TClose n' :: r' => str_eqb n n' && toks_covered rc r'
        | _ => false
        end
      else tok_covered rc (TOpen n a) && toks_covered rc r
  | tok :: r => tok_covered rc tok && toks_covered rc r
  end.

Fixpoint wtoks_of (unesc : str -> str) (rc : rcfg) (toks : list token) : list wtok :=
  match toks with
  | [] => []
  | TOpen n a :: r =>
      if is_raw rc n then
        match r with
        | TText s :: TClose _ :: r' => WRaw n a (uattrs unesc a) s :: wtoks_of unesc rc r'
        | TClose _ :: r' => WRaw n a (uattrs unesc a) [] :: wtoks_of unesc rc r'
        | _ => []
        end
      else wtoks_of_token unesc (TOpen n a) ++ wtoks_of unesc rc r
  | tok :: r => wtoks_of_token unesc tok ++ wtoks_of unesc rc r
  end.

(* adjacent pieces of character data reach the tokenizer as one run *)
Fixpoint merge_texts (l : list wtok) : list wtok :=
  match l with
  | [] => []
  | WText a :: r =>
      match merge_texts r with
      | WText b :: r' => WText (a ++ b) :: r'
      | r' => WText a :: r'
      end
  | t :: r => t :: merge_texts r
  end.
