(* C07 — what it means that a document declares an encoding, stated as shapes of the text
   (independently of the scanners of Model/Sniff.v; only the mode record, the keyword constants and the
   two character classes are shared):

     xml_shape s g   : s is  ws* <? pre KEY q g q' mid ?> tail   all on one line after <?,
                       KEY = encoding= in any case, q q' quote characters, g free of quotes
     meta_here t g   : t is  < ws* META gap KEY ws* = ws* [q] g T after
                       META / KEY = meta / charset in any case, gap non-empty and free of >,
                       g free of the terminators T = space / ; quote dquote >
     meta_shape s g  : some suffix of s is such a tag *)
From Coq Require Import List NArith Bool Arith.
From BS Require Import Base.Sexp Base.Types Model.Dammit Model.Sniff.
Import ListNotations.
Open Scope N_scope.

Section Shapes.
  Variable md : smode.

  Definition ws_all (l : str) : Prop := Forall (fun c => is_ws md c = true) l.
  (* key is the word w up to case (as re.I understands case) *)
  Definition ci_word (key w : str) : Prop := Forall2 (fun c p => ci_eq md c p = true) key w.

  Inductive xml_shape : str -> str -> Prop :=
  | XmlShape lead pre key q1 g q2 mid tail :
      ws_all lead -> ci_word key w_encoding_eq -> is_quote q1 = true -> is_quote q2 = true ->
      Forall (fun c => is_quote c = false) g ->
      Forall (fun c => c <> 10) (pre ++ key ++ q1 :: g ++ q2 :: mid) ->
      xml_shape (lead ++ 60 :: 63 :: pre ++ key ++ q1 :: g ++ q2 :: mid ++ 63 :: 62 :: tail) g.

  Definition opt_quote (oq : str) : Prop := oq = [] \/ exists q, is_quote q = true /\ oq = [q].

  Inductive meta_here : str -> str -> Prop :=
  | MetaHere w0 meta gap key w1 w2 oq g tm after :
      ws_all w0 -> ci_word meta w_meta -> gap <> [] -> Forall (fun c => c <> 62) gap ->
      ci_word key w_charset -> ws_all w1 -> ws_all w2 -> opt_quote oq ->
      Forall (fun c => is_term c = false) g -> is_term tm = true ->
      meta_here (60 :: w0 ++ meta ++ gap ++ key ++ w1 ++ 61 :: w2 ++ oq ++ g ++ tm :: after) g.

  Definition meta_shape (s g : str) : Prop := exists before t, s = before ++ t /\ meta_here t g.

  (* the beginning of a meta tag: < ws* meta *)
  Definition meta_start (t : str) : Prop :=
    exists w0 meta r, t = 60 :: w0 ++ meta ++ r /\ ws_all w0 /\ ci_word meta w_meta.
End Shapes.

(* ASCII case: key is w written in any mixture of upper and lower case *)
Definition lower_ascii_char (c : N) : N := if (65 <=? c) && (c <=? 90) then c + 32 else c.
Definition is_lower_letter (p : N) : bool := (97 <=? p) && (p <=? 122).

(* what the declared name becomes: a bytes capture is decoded (non-ASCII -> U+FFFD), then lower() *)
Definition declared_name (lower : str -> str) (m : markup) (g : str) : option str :=
  if is_empty g then None
  else Some (lower (match m with MBytes _ => ascii_replace g | MStr _ => g end)).

(* the part of the document that is searched (documented constants, stated here independently):
   the first 1024 characters for the XML declaration, the first max(2048, 5% of the length) for <meta>;
   everything when search_entire_document *)
Definition searched_xml (entire : bool) (s : str) : str := if entire then s else firstn 1024 s.
Definition searched_html (entire : bool) (s : str) : str :=
  if entire then s else firstn (Nat.max 2048 (length s / 20)) s.
