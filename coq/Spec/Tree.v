(* C01 / C02 — the abstract side: ordered rose trees over element ids, their pre-order, removal and
   insertion of subtrees, and the representation relation [rep F h] saying that a heap of six-link
   cells (Model/Heap.v) describes exactly the forest F.  Definitions only (plus executable
   checkers used by the correspondence run); the proofs live in Proofs/. *)
From Coq Require Import List Arith Bool.
From BS Require Import Base.Sexp Model.Heap.
Import ListNotations.

Inductive tree := Node (i : nat) (ks : list tree).
Definition rid (t : tree) : nat := match t with Node i _ => i end.
Definition tkids (t : tree) : list tree := match t with Node _ ks => ks end.

Fixpoint pre (t : tree) : list nat := match t with Node i ks => i :: flat_map pre ks end.
Definition pres (ks : list tree) : list nat := flat_map pre ks.

(* every node of a tree, as the subtree rooted there, in pre-order *)
Fixpoint subterms (t : tree) : list tree := match t with Node i ks => Node i ks :: flat_map subterms ks end.

(* induction principle for the nested inductive *)
Section TreeInd.
  Variable P : tree -> Prop.
  Hypothesis H : forall i ks, Forall P ks -> P (Node i ks).
  Fixpoint tree_ind' (t : tree) : P t :=
    match t with
    | Node i ks => H i ks ((fix go (l : list tree) : Forall P l :=
                              match l with
                              | [] => Forall_nil _
                              | k :: l' => Forall_cons _ (tree_ind' k) (go l')
                              end) ks)
    end.
End TreeInd.

(* remove the subtree rooted at x (x is not the root): the new tree and the removed subtree *)
Fixpoint remove (x : nat) (t : tree) : tree * option tree :=
  match t with
  | Node i ks =>
      let fix go (l : list tree) : list tree * option tree :=
        match l with
        | [] => ([], None)
        | k :: l' =>
            if Nat.eqb (rid k) x then (l', Some k)
            else match remove x k with
                 | (k', Some s) => (k' :: l', Some s)
                 | (k', None) => let '(l'', r) := go l' in (k' :: l'', r)
                 end
        end in
      let '(ks', r) := go ks in (Node i ks', r)
  end.

Fixpoint remove_l (x : nat) (l : list tree) : list tree * option tree :=
  match l with
  | [] => ([], None)
  | k :: l' =>
      if Nat.eqb (rid k) x then (l', Some k)
      else match remove x k with
           | (k', Some s) => (k' :: l', Some s)
           | (k', None) => let '(l'', r) := remove_l x l' in (k' :: l'', r)
           end
  end.

(* make s the i-th child of the node p (i is clipped to the number of children, as list.insert does) *)
Fixpoint insert_sub (p i : nat) (s : tree) (t : tree) : tree :=
  match t with
  | Node j ks => if Nat.eqb j p then Node j (insert_at i s ks) else Node j (map (insert_sub p i s) ks)
  end.

(* the subtree rooted at x, if x occurs *)
Fixpoint find_sub (x : nat) (t : tree) : option tree :=
  match t with
  | Node i ks =>
      if Nat.eqb i x then Some (Node i ks)
      else (fix go (l : list tree) : option tree :=
              match l with
              | [] => None
              | k :: l' => match find_sub x k with Some s => Some s | None => go l' end
              end) ks
  end.

(* ---- doubly linked chains, index form ---- *)
Definition pred_at (L : list nat) (i : nat) : option nat :=
  match i with 0 => None | S j => nth_error L j end.

(* next_element / previous_element along L *)
Definition echain (L : list nat) (h : heap) : Prop :=
  forall i x, nth_error L i = Some x -> ne (h x) = nth_error L (S i) /\ pe (h x) = pred_at L i.
(* next_sibling / previous_sibling along L *)
Definition schain (L : list nat) (h : heap) : Prop :=
  forall i x, nth_error L i = Some x -> ns (h x) = nth_error L (S i) /\ ps (h x) = pred_at L i.

(* one node: its child list, its children's parent pointers and sibling chain; strings are leaves *)
Definition node_ok (h : heap) (t : tree) : Prop :=
  kids (h (rid t)) = map rid (tkids t) /\
  schain (map rid (tkids t)) h /\
  (forall c, In c (tkids t) -> par (h (rid c)) = Some (rid t)) /\
  (is_tag h (rid t) = false -> tkids t = []).

(* one tree of the forest. [linked = false]: the root stands outside the element chain (a freshly
   parsed BeautifulSoup object); the chain then runs over the rest of the pre-order. *)
Definition rep1 (h : heap) (T : tree) (linked : bool) : Prop :=
  (forall t, In t (subterms T) -> node_ok h t) /\
  par (h (rid T)) = None /\ ps (h (rid T)) = None /\ ns (h (rid T)) = None /\
  (if linked then echain (pre T) h
   else echain (tl (pre T)) h /\ ne (h (rid T)) = None /\ pe (h (rid T)) = None).

Definition forest := list (tree * bool).
Definition fids (F : forest) : list nat := flat_map (fun tb => pre (fst tb)) F.

Definition rep (F : forest) (h : heap) : Prop :=
  NoDup (fids F) /\ Forall (fun tb => rep1 h (fst tb) (snd tb)) F.

(* ---- executable versions, used to test [rep] on the states the model and the code reach ---- *)
Fixpoint nodupb (l : list nat) : bool :=
  match l with [] => true | x :: l' => negb (existsb (Nat.eqb x) l') && nodupb l' end.

Fixpoint chain_b (nx pv : nat -> option nat) (prev : option nat) (L : list nat) : bool :=
  match L with
  | [] => true
  | x :: L' => oeqb (pv x) prev && oeqb (nx x) (hd_error L') && chain_b nx pv (Some x) L'
  end.

Fixpoint list_eqb (a b : list nat) : bool :=
  match a, b with
  | [], [] => true
  | x :: a', y :: b' => Nat.eqb x y && list_eqb a' b'
  | _, _ => false
  end.

Definition node_ok_b (h : heap) (t : tree) : bool :=
  list_eqb (kids (h (rid t))) (map rid (tkids t)) &&
  chain_b (fun x => ns (h x)) (fun x => ps (h x)) None (map rid (tkids t)) &&
  forallb (fun c => oeqb (par (h (rid c))) (Some (rid t))) (tkids t) &&
  (is_tag h (rid t) || match tkids t with [] => true | _ => false end).

Definition onone (o : option nat) : bool := match o with None => true | Some _ => false end.

Definition rep1_b (h : heap) (T : tree) (linked : bool) : bool :=
  forallb (node_ok_b h) (subterms T) &&
  onone (par (h (rid T))) && onone (ps (h (rid T))) && onone (ns (h (rid T))) &&
  (if linked then chain_b (fun x => ne (h x)) (fun x => pe (h x)) None (pre T)
   else chain_b (fun x => ne (h x)) (fun x => pe (h x)) None (tl (pre T)) &&
        onone (ne (h (rid T))) && onone (pe (h (rid T)))).

Definition rep_b (F : forest) (h : heap) : bool :=
  nodupb (fids F) && forallb (fun tb => rep1_b h (fst tb) (snd tb)) F.

(* reading a tree off the child lists of a heap (fuel bounds the depth) *)
Fixpoint abs_tree (fuel : nat) (h : heap) (x : nat) : tree :=
  match fuel with
  | O => Node x []
  | S f => Node x (map (abs_tree f h) (kids (h x)))
  end.

(* the forest a heap describes: one tree per live parentless id below n; a root is taken to be
   unlinked when it has children but no next_element *)
Definition abs_forest (n : nat) (h : heap) : forest :=
  flat_map (fun x =>
    if dead (h x) then [] else
    match par (h x) with
    | Some _ => []
    | None =>
        let T := abs_tree n h x in
        [(T, negb (match kids (h x) with [] => false | _ => true end && onone (ne (h x))))]
    end) (seq 0 n).

(* every live id below n occurs in the forest read off the heap, and the heap represents it *)
Definition consistent_b (n : nat) (h : heap) : bool :=
  let F := abs_forest n h in
  rep_b F h &&
  forallb (fun x => dead (h x) || existsb (Nat.eqb x) (fids F)) (seq 0 n).
