(* C10 — the documented meaning of the search criteria, stated directly over the criteria
   as the caller wrote them (no MatchRule objects, no SoupStrainer, no fast paths, no
   short-circuit order), and the documented result of a search: the matching elements of the
   axis, in axis order; limit = a prefix; the singular method = the first one.

   An element of the tree is a Tag (name = txt of its cell, prefix and attributes in the
   side table) or a NavigableString (text = txt of its cell). *)
From Coq Require Import List NArith ZArith Bool Arith.
From BS Require Import Base.Sexp Base.Types Model.Heap Model.Attrs Model.Search.
Import ListNotations.
Local Open Scope nat_scope.

Section Spec.
  Variable pat_sem : N -> str -> bool.
  Variable fun_sem : N -> callarg -> bool.
  Variable h : heap.
  Variable xm : xmap.

  Definition items (c : crit) : list atom := match c with COne a => [a] | CList l => l end.

  (* one item of a criterion against a string value ([text] = None: there is no value);
     a function receives [arg] *)
  Definition item_val (a : atom) (text : option str) (arg : callarg) : bool :=
    match a with
    | AtStr s | AtObj s => match text with Some t => str_eqb s t | None => false end
    | AtPat p => match text with Some t => pat_sem p t | None => false end
    | AtBool true => match text with Some _ => true | None => false end
    | AtBool false => match text with Some _ => false | None => true end
    | AtFun f => fun_sem f arg
    | AtNone | AtNested => false
    end.
  (* a list matches when one of its items does *)
  Definition crit_val (c : crit) (text : option str) (arg : callarg) : bool :=
    existsb (fun a => item_val a text arg) (items c).
  (* for an attribute, None means "the tag does not have it" *)
  Definition attr_crit_val (c : crit) (text : option str) (arg : callarg) : bool :=
    match c with
    | COne AtNone => match text with Some _ => false | None => true end
    | _ => crit_val c text arg
    end.

  (* the name of a tag with a namespace prefix can be given with or without the prefix *)
  Definition qualified_name (x : nat) : option str :=
    match x_prefix (xm x) with
    | Some (c :: p) => Some ((c :: p) ++ colon :: txt (h x))
    | _ => None
    end.
  Definition item_name (a : atom) (x : nat) : bool :=
    let n := txt (h x) in
    match a with
    | AtStr s | AtObj s =>
        str_eqb s n || match qualified_name x with Some q => str_eqb s q | None => false end
    | AtPat p =>
        pat_sem p n || match qualified_name x with Some q => pat_sem p q | None => false end
    | AtBool b => b
    | AtFun f => fun_sem f (ArgEl x)               (* called with the Tag itself *)
    | AtNone | AtNested => false
    end.
  Definition name_ok (c : crit) (x : nat) : bool :=
    is_none_crit c || existsb (fun a => item_name a x) (items c).

  (* attribute criterion: the value; for a multi-valued attribute any one of its tokens, or
     the whole value (tokens joined by single spaces) *)
  Definition attr_ok (kc : str * crit) (x : nat) : bool :=
    let c := snd kc in
    match aget (fst kc) (x_attrs (xm x)) with
    | None => attr_crit_val c None ArgNone
    | Some (AvStr s) => attr_crit_val c (Some s) (ArgStr s)
    | Some (AvList l) =>
        existsb (fun t => attr_crit_val c (Some t) (ArgStr t)) l ||
        attr_crit_val c (Some (join_sp l)) (ArgStr (join_sp l))
    end.

  (* string criterion on a tag: its .string (Model.Search.tag_string = Tag.string) must exist
     and satisfy it *)
  Definition string_ok_tag (fuel : nat) (c : crit) (x : nat) : bool :=
    match tag_string h fuel x with
    | Some sid => crit_val c (Some (txt (h sid))) (ArgEl sid)
    | None => false
    end.

  (* how the arguments are read: the deprecated text= is string=; class_= is the class attribute;
     a non-dict attrs is a class criterion *)
  Fixpoint kw_find (k : str) (kw : list (str * crit)) : option crit :=
    match kw with [] => None | (k', c) :: kw' => if str_eqb k k' then Some c else kw_find k kw' end.
  Definition kw_without (k : str) (kw : list (str * crit)) : list (str * crit) :=
    filter (fun kc => negb (str_eqb k (fst kc))) kw.
  Definition text_is_string (q : query) : bool :=
    is_none_crit (q_string q) && match kw_find lit_text (q_kwargs q) with Some _ => true | None => false end.
  Definition eff_string (q : query) : crit :=
    if text_is_string q then match kw_find lit_text (q_kwargs q) with Some c => c | None => c_none end
    else q_string q.
  Definition eff_attr_crits (q : query) : list (str * crit) :=
    (match q_attrs q with AttrsDict l => l | AttrsOther c _ => [(lit_class, c)] end) ++
    map (fun kc => (if str_eqb (fst kc) lit_class_ then lit_class else fst kc, snd kc))
        (if text_is_string q then kw_without lit_text (q_kwargs q) else q_kwargs q).

  (* does element x satisfy query q? *)
  Definition matches_spec (fuel : nat) (q : query) (x : nat) : bool :=
    let name := q_name q in
    let acs := eff_attr_crits q in
    let string := eff_string q in
    if is_tag h x then
      (* string criteria alone select strings, never tags; no criteria at all: every tag *)
      (negb (is_none_crit name) || negb (null acs) || is_none_crit string) &&
      name_ok name x &&
      forallb (fun kc => attr_ok kc x) acs &&
      (is_none_crit string || string_ok_tag fuel string x)
    else
      is_none_crit name && null acs && negb (is_none_crit string) &&
      crit_val string (Some (txt (h x))) (ArgEl x).

  (* limit: None and 0 mean no limit, k >= 1 means the first k *)
  Definition take_limit {X} (lim : option nat) (l : list X) : list X :=
    match lim with
    | Some (S k) => firstn (S k) l
    | _ => l
    end.

  (* the documented result of a plural search over an axis *)
  Definition find_all_spec (fuel : nat) (q : query) (axis : list nat) : list nat :=
    take_limit (q_limit q) (filter (matches_spec fuel q) axis).

  (* ---- the domain of the refinement theorem ---- *)

  (* a criterion that was given says something: it has at least one item that is not None / a nested list *)
  Definition atom_usable (a : atom) : bool := match a with AtNone | AtNested => false | _ => true end.
  Definition crit_usable (c : crit) : bool := existsb atom_usable (items c).
  Definition name_crit_ok (c : crit) : bool := is_none_crit c || crit_usable c.
  Fixpoint distinct (l : list str) : bool :=
    match l with [] => true | k :: l' => negb (memS k l') && distinct l' end.
  Definition query_ok (q : query) : bool :=
    name_crit_ok (q_name q) &&
    name_crit_ok (eff_string q) &&
    forallb (fun kc => name_crit_ok (snd kc)) (eff_attr_crits q) &&          (* None is fine: "absent" *)
    distinct (map fst (q_kwargs q)) &&                (* **kwargs is a dict *)
    distinct (map fst (eff_attr_crits q)) &&          (* no attribute is constrained twice *)
    match q_attrs q with AttrsOther _ truthy => truthy | AttrsDict _ => true end.

  (* namespace prefixes, where present, are non-empty and neither they nor the local names they
     qualify contain a colon (as in XML) *)
  Definition no_colon (s : str) : bool := forallb (fun c => negb (N.eqb c colon)) s.
  Definition name_wf (x : nat) : bool :=
    match x_prefix (xm x) with
    | None => true
    | Some p => negb (null p) && no_colon p && no_colon (txt (h x))
    end.
End Spec.
