(* How a parser reads character data back: the reference reader.
   A one-pass state machine over code points, structurally recursive.
   Parameters: [ent] (name -> characters) and [num] (code -> characters), so the same machine
   serves element text (html.parser callbacks + bs4's handle_entityref/handle_charref) and quoted
   attribute values (html.unescape) with their respective tables.

   Faithful to the standard-library tokenizer on: '&' name ';', '&' name <non-name char>,
   '&#' digits ';', '&#x' hex ';', and stray '&'. It is *idealised* (literal text, keep going)
   where html.parser gives up on the rest of the buffer ('&#' not followed by a digit or by
   digits followed directly by a hex letter); those inputs never occur in the image of the
   'minimal' / 'html' substitutions, which is where the theorems use it. *)
From Coq Require Import List NArith Bool.
From BS Require Import Base.Sexp.
Import ListNotations.
Open Scope N_scope.

Definition c_amp : N := 38.   Definition c_lt : N := 60.    Definition c_gt : N := 62.
Definition c_semi : N := 59.  Definition c_hash : N := 35.  Definition c_dq : N := 34.
Definition c_sq : N := 39.    Definition c_x : N := 120.    Definition c_X : N := 88.

Definition is_digit (c : N) : bool := (48 <=? c) && (c <=? 57).
Definition is_upper (c : N) : bool := (65 <=? c) && (c <=? 90).
Definition is_lower (c : N) : bool := (97 <=? c) && (c <=? 122).
Definition is_alpha (c : N) : bool := is_upper c || is_lower c.
Definition is_alnum (c : N) : bool := is_alpha c || is_digit c.
Definition is_hexd (c : N) : bool :=
  is_digit c || ((65 <=? c) && (c <=? 70)) || ((97 <=? c) && (c <=? 102)).
(* html.parser entityref: [a-zA-Z][-.a-zA-Z0-9]* *)
Definition is_namechar (c : N) : bool := is_alnum c || (c =? 45) || (c =? 46).

Definition digit_val (c : N) : N :=
  if is_digit c then c - 48 else if is_upper c then c - 55 else c - 87.
Definition num_of (base : N) (digits : str) : N :=          (* most significant first *)
  fold_left (fun a d => a * base + digit_val d) digits 0.

Inductive rstate :=
| Idle
| Amp                      (* seen '&' *)
| Named (acc : str)        (* '&' + name so far, reversed *)
| Hash                     (* '&#' *)
| HashX (x : N)            (* '&#x' or '&#X' (x is the letter) *)
| Dec (acc : str)          (* '&#' + digits so far, reversed *)
| Hex (x : N) (acc : str). (* '&#x' + hex digits so far, reversed *)

Section Reader.
  Variable ent : str -> option str.
  Variable num : N -> str.

  (* what a pending state stands for when the reference turns out not to be one *)
  Definition literal (st : rstate) : str :=
    match st with
    | Idle => []
    | Amp => [c_amp]
    | Named acc => c_amp :: rev acc
    | Hash => [c_amp; c_hash]
    | HashX x => [c_amp; c_hash; x]
    | Dec acc => c_amp :: c_hash :: rev acc
    | Hex x acc => c_amp :: c_hash :: x :: rev acc
    end.

  (* a completed reference, terminated by some character *)
  Definition resolve_named (acc : str) : str :=
    match ent (rev acc) with
    | Some chars => chars
    | None => c_amp :: rev acc          (* bs4: data = "&%s" % name *)
    end.

  (* step from Idle on character c *)
  Definition idle_step (c : N) : rstate * str :=
    if c =? c_amp then (Amp, []) else (Idle, [c]).

  Definition step (st : rstate) (c : N) : rstate * str :=
    match st with
    | Idle => idle_step c
    | Amp =>
        if c =? c_hash then (Hash, [])
        else if is_alpha c then (Named [c], [])
        else let '(st', o) := idle_step c in (st', c_amp :: o)
    | Named acc =>
        if is_namechar c then (Named (c :: acc), [])
        else if c =? c_semi then (Idle, resolve_named acc)
        else let '(st', o) := idle_step c in (st', resolve_named acc ++ o)
    | Hash =>
        if is_digit c then (Dec [c], [])
        else if (c =? c_x) || (c =? c_X) then (HashX c, [])
        else let '(st', o) := idle_step c in (st', literal Hash ++ o)
    | HashX x =>
        if is_hexd c then (Hex x [c], [])
        else let '(st', o) := idle_step c in (st', literal (HashX x) ++ o)
    | Dec acc =>
        if is_digit c then (Dec (c :: acc), [])
        else if c =? c_semi then (Idle, num (num_of 10 (rev acc)))
        else if is_hexd c then let '(st', o) := idle_step c in (st', literal (Dec acc) ++ o)
        else let '(st', o) := idle_step c in (st', num (num_of 10 (rev acc)) ++ o)
    | Hex x acc =>
        if is_hexd c then (Hex x (c :: acc), [])
        else if c =? c_semi then (Idle, num (num_of 16 (rev acc)))
        else let '(st', o) := idle_step c in (st', num (num_of 16 (rev acc)) ++ o)
    end.

  (* end of the character data (the next thing is a tag, a closing quote or the end):
     a pending complete reference is resolved, an incomplete one is literal text *)
  Definition finish (st : rstate) : str :=
    match st with
    | Named acc => resolve_named acc
    | Dec acc => num (num_of 10 (rev acc))
    | Hex x acc => num (num_of 16 (rev acc))
    | _ => literal st
    end.

  Fixpoint read_from (st : rstate) (s : str) : str :=
    match s with
    | [] => finish st
    | c :: s' => let '(st', o) := step st c in o ++ read_from st' s'
    end.

  Definition read (s : str) : str := read_from Idle s.
End Reader.
