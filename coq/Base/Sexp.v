(* S-expressions: the only data format crossing the Coq / OCaml / Python boundary.
   Everything that decodes a command or encodes a result is Gallina, so the OCaml
   glue stays a generic reader / printer. *)
From Coq Require Import List ZArith NArith Bool.
Import ListNotations.
Open Scope Z_scope.

Inductive sexp := A (z : Z) | L (l : list sexp).

(* strings are lists of code points (N); bytes are code points < 256 *)
Definition str := list N.

Definition sZ (z : Z) : sexp := A z.
Definition sN (n : N) : sexp := A (Z.of_N n).
Definition snat (n : nat) : sexp := A (Z.of_nat n).
Definition sbool (b : bool) : sexp := A (if b then 1 else 0).
Definition sstr (s : str) : sexp := L (map sN s).
Definition slist {X} (f : X -> sexp) (l : list X) : sexp := L (map f l).
Definition sopt {X} (f : X -> sexp) (o : option X) : sexp :=
  match o with None => L [] | Some x => L [f x] end.
Definition spair {X Y} (f : X -> sexp) (g : Y -> sexp) (p : X * Y) : sexp :=
  L [f (fst p); g (snd p)].

(* decoders are total; ill-formed input decodes to a default, which the harness
   never sends (the driver echoes an error atom for unknown commands) *)
Definition gZ (s : sexp) : Z := match s with A z => z | L _ => 0 end.
Definition gN (s : sexp) : N := Z.to_N (gZ s).
Definition gnat (s : sexp) : nat := Z.to_nat (gZ s).
Definition gbool (s : sexp) : bool := negb (Z.eqb (gZ s) 0).
Definition gL (s : sexp) : list sexp := match s with A _ => [] | L l => l end.
Definition gstr (s : sexp) : str := map gN (gL s).
Definition glist {X} (f : sexp -> X) (s : sexp) : list X := map f (gL s).
Definition gopt {X} (f : sexp -> X) (s : sexp) : option X :=
  match gL s with x :: _ => Some (f x) | [] => None end.
Definition gpair {X Y} (f : sexp -> X) (g : sexp -> Y) (s : sexp) : X * Y :=
  match gL s with x :: y :: _ => (f x, g y) | _ => (f (L []), g (L [])) end.
Definition gnth (s : sexp) (i : nat) : sexp := nth i (gL s) (L []).
