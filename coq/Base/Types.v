(* Types shared by the generated tables and the models. *)
From Coq Require Import List NArith.
From BS Require Import Base.Sexp.
Import ListNotations.
Open Scope N_scope.

Definition memN (x : N) (l : list N) : bool := existsb (N.eqb x) l.

(* UnicodeDammit.MS_CHARS values: ("name", "HEX") tuples or plain strings *)
Inductive ms_entry := MsPair (name hex : str) | MsPlain (s : str).

Fixpoint assocN {X} (k : N) (l : list (N * X)) : option X :=
  match l with
  | [] => None
  | (k', v) :: l' => if N.eqb k k' then Some v else assocN k l'
  end.

Fixpoint str_eqb (a b : str) : bool :=
  match a, b with
  | [], [] => true
  | x :: a', y :: b' => N.eqb x y && str_eqb a' b'
  | _, _ => false
  end.

Fixpoint assocS {X} (k : str) (l : list (str * X)) : option X :=
  match l with
  | [] => None
  | (k', v) :: l' => if str_eqb k k' then Some v else assocS k l'
  end.

Definition memS (k : str) (l : list str) : bool := existsb (str_eqb k) l.

Lemma str_eqb_eq a b : str_eqb a b = true <-> a = b.
Proof.
  revert b. induction a as [|x a IH]; destruct b as [|y b]; cbn; split; try congruence; try discriminate.
  - intros H. apply andb_prop in H as [H1 H2]. apply N.eqb_eq in H1. apply IH in H2. congruence.
  - intros H. inversion H; subst. rewrite N.eqb_refl. cbn. now apply IH.
Qed.
