(* ASCII string literals as code-point lists, for readable statements: lit "pre" = [112; 114; 101]. *)
From Coq Require Import List NArith String Ascii.
From BS Require Import Base.Sexp.
Import ListNotations.

Fixpoint lit (s : string) : str :=
  match s with
  | EmptyString => []
  | String a s' => N_of_ascii a :: lit s'
  end.
