(* C05 commands (codes 5000 + sub): decoding of trees / formatters and encoding of results. *)
From Coq Require Import List ZArith NArith Bool.
From BS Require Import Base.Sexp Base.Types Model.Render Model.Reparse Model.SmartQuotes Model.Build Spec.BuildSpec Spec.RoundTrip.
From BS Require Import Gen.Tables Gen.T_C05.
From BS Require Model.EntitySubst.
From BS Require Import Model.Attrs Model.Adapter Model.Tokenizer Model.TokParse Spec.DocWrite Spec.RenderTok.
Import ListNotations.
Open Scope Z_scope.

Definition g_rval (s : sexp) : rval :=
  match gL s with
  | [A 1; x] => RStr (gstr x)
  | [A 2; x] => RList (glist gstr x)
  | [A 3; x] => ROther (gstr x)
  | [A 4; o; u] => RCharset (gstr o) (gstr u)
  | _ => RNone
  end.

(* (0 name prefix? attrs hidden can_empty pw kids) | (1 cls text) *)
Fixpoint g_node (fuel : nat) (s : sexp) : node :=
  match fuel with
  | O => NStr 0%N []
  | S fuel' =>
      match gL s with
      | [A 0; n; p; a; h; ce; pw; ks] =>
          NTag (mktag (gstr n) (gopt gstr p) (glist (gpair gstr g_rval) a) (gbool h) (gbool ce) (glist gstr pw))
               (map (g_node fuel') (gL ks))
      | [A 1; c; t] => NStr (gN c) (gstr t)
      | _ => NStr 0%N []
      end
  end.
Fixpoint sexp_depth (s : sexp) : nat :=
  match s with
  | A _ => 1%nat
  | L l => S (fold_right (fun x acc => Nat.max (sexp_depth x) acc) 0%nat l)
  end.
Definition g_tree (s : sexp) : node := g_node (sexp_depth s) s.

(* a recorded substitution function: the graph of entity_substitution on the strings of this case;
   a string outside the graph is marked so that the omission is visible *)
Definition recorded (m : list (str * str)) (s : str) : str :=
  match assocS s m with Some r => r | None => s ++ [1114111%N] end.

(* (mode map void cdata empty_bool indent): mode 0 = no substitution, 1 = substitute_xml, 2 = recorded *)
Definition g_fmt (s : sexp) : fmt :=
  let sub := match gZ (gnth s 0) with
             | 0 => None
             | 1 => Some subst_xml
             | _ => Some (recorded (glist (gpair gstr gstr) (gnth s 1)))
             end in
  mkfmt sub (gstr (gnth s 2)) (glist gstr (gnth s 3)) (gbool (gnth s 4)) (gstr (gnth s 5)).

Definition g_level (s : sexp) : option Z := gopt gZ s.

Definition s_eid (q : eid) : sexp := slist snat q.
Definition s_event (e : Render.event) : sexp :=
  L [A (match ev_kind e with KStart => 0 | KEnd => 1 | KEmpty => 2 | KString => 3 end); s_eid (e_id (ev_el e))].

Definition s_bevent (e : Build.event) : sexp :=
  match e with
  | EStart n p a => L [A 0; sstr n; sopt sstr p; slist (spair sstr sstr) a]
  | EEnd n p => L [A 1; sstr n; sopt sstr p]
  | EData d => L [A 2; sstr d]
  | EEndData c => L [A 3; sopt sN c]
  end.
Definition s_snode (n : snode) : sexp :=
  let p := sn_pay n in
  L [sopt snat (sn_parent n); sstr (p_name p); sopt sstr (p_prefix p); slist (spair sstr sstr) (p_attrs p);
     sN (p_cls p); sbool (p_void p)].
(* the token-level re-parse: character data through the text reader of Model/SmartQuotes.v (bs4's handle_entityref /
   handle_charref over html.parser's reference syntax), attribute values through C09's model of html.unescape —
   the readers of C05_roundtrip_html / C05_roundtrip_minimal_unescape *)
Definition reread (check : bool) (enc : bool) (f : fmt) (t : node) : list Build.event :=
  read_tokens read_text EntitySubst.unescape (html_rcfg check) (tokens_of enc f t).

Definition rcfg_v (void : list str) (check : bool) : rcfg := mkrcfg void htmlparser_cdata_content_elements check.
Definition bcfg_v (void : list str) : bconfig :=
  mkcfg (Some void) default_preserve_whitespace_tags default_string_containers ascii_spaces root_tag_name.

(* the html.parser route on the rendered STRING (Props.C05 C05_string_round_trip_partial): tokenizer model, adapter model,
   documented construction rules; html.unescape = C09's model *)
Definition html_acfg : acfg := mkacfg html_bcfg DupReplace (fun d _ _ => d) true None.
Definition string_reread (text : str) : list Build.event :=
  events_of (fst (fst (adapter_run html_acfg [] (callbacks EntitySubst.unescape text)))).
Definition fmt_g (f : fmt) (s : str) : str := match f_subst f with Some g => g s | None => s end.

Definition disp_c05 (sub : Z) (args : list sexp) : sexp :=
  match sub, args with
  | 0, f :: enc :: lv :: t :: _ => sstr (decode (gbool enc) (g_fmt f) (g_level lv) (g_tree t))
  | 1, f :: enc :: lv :: t :: _ => sstr (decode_contents (gbool enc) (g_fmt f) (g_level lv) (g_tree t))
  | 2, x :: d :: c :: f :: enc :: lv :: t :: _ =>
      sstr (soup_decode (gbool x) (gopt gstr d) (gbool c) (gbool enc) (g_fmt f) (g_level lv) (g_tree t))
  | 3, t :: _ => slist s_event (event_stream (elements_of (g_tree t)))
  | 4, f :: enc :: lv :: t :: _ => slist sstr (decode_pieces (gbool enc) (g_fmt f) (g_level lv) (g_tree t))
  | 5, f :: enc :: chk :: t :: _ => slist s_bevent (reread (gbool chk) (gbool enc) (g_fmt f) (g_tree t))
  | 6, f :: enc :: t :: _ => slist s_snode (flat_tree html_bcfg (norm (gbool enc) (g_fmt f) html_bcfg (g_tree t)))
  | 7, f :: chk :: t :: _ => sbool (representable_top (g_fmt f) (html_rcfg (gbool chk)) html_bcfg (g_tree t))
  | 8, f :: enc :: chk :: t :: _ =>
      slist s_snode (spec_run html_bcfg (reread (gbool chk) (gbool enc) (g_fmt f) (g_tree t)))
  | 9, f :: enc :: t :: _ => sstr (concat (map spell (tokens_of (gbool enc) (g_fmt f) (g_tree t))))
  (* the second round trip: render the re-parsed tree and re-parse again *)
  | 10, f :: enc :: t :: _ =>
      let n1 := norm (gbool enc) (g_fmt f) html_bcfg (g_tree t) in
      slist s_snode (flat_tree html_bcfg (norm (gbool enc) (g_fmt f) html_bcfg (doc html_bcfg n1)))
  (* is the re-parsed tree itself representable content? *)
  | 11, f :: enc :: chk :: t :: _ =>
      sbool (representable_top (g_fmt f) (html_rcfg (gbool chk)) html_bcfg
               (doc html_bcfg (norm (gbool enc) (g_fmt f) html_bcfg (g_tree t))))
  (* the same for a builder with its own empty-element tags (empty_element_tags=...): reader events, promised tree,
     tree built from the events *)
  | 12, v :: f :: enc :: chk :: t :: _ =>
      slist s_bevent (read_tokens read_text EntitySubst.unescape (rcfg_v (glist gstr v) (gbool chk))
                        (tokens_of (gbool enc) (g_fmt f) (g_tree t)))
  | 13, v :: f :: enc :: t :: _ =>
      let cfg := bcfg_v (glist gstr v) in slist s_snode (flat_tree cfg (norm (gbool enc) (g_fmt f) cfg (g_tree t)))
  | 14, v :: f :: enc :: chk :: t :: _ =>
      let cfg := bcfg_v (glist gstr v) in
      slist s_snode (spec_run cfg (read_tokens read_text EntitySubst.unescape (rcfg_v (glist gstr v) (gbool chk))
                                     (tokens_of (gbool enc) (g_fmt f) (g_tree t))))
  (* (5020 fmt enc chk tree) -> C05_string_round_trip_partial evaluated: covered?, representable?, not rejected, the tree
     built from the rendered string, the promised tree *)
  | 20, f :: enc :: chk :: t :: _ =>
      let fm := g_fmt f in let tr := g_tree t in let rc := html_rcfg (gbool chk) in
      let text := decode (gbool enc) fm None tr in
      let cov := toks_covered rc (tokens_of (gbool enc) fm tr) in
      L [sbool cov; sbool (representable_top fm rc html_bcfg tr);
         sbool (negb (rejected EntitySubst.unescape text));
         if cov then slist s_snode (spec_run html_bcfg (string_reread text)) else L [];
         if cov then slist s_snode (flat_tree html_bcfg (norm (gbool enc) fm html_bcfg tr)) else L []]
  (* (5021 fmt strings) -> the theorem's hypotheses on these strings: text_value (g s) = s; the model's
     html.unescape (attr_inner (g s)) = s; and attr_inner (g s) itself (for the real html.unescape) *)
  | 21, f :: ss :: _ =>
      let fm := g_fmt f in
      slist (fun s => L [sbool (str_eqb (text_value None (fmt_g fm s)) s);
                         sbool (str_eqb (attr_read EntitySubst.unescape (attr_inner (fmt_g fm s))) s);
                         sstr (attr_inner (fmt_g fm s))]) (glist gstr ss)
  (* (5022 fmt enc chk tree) -> why a tree is outside the covered sub-domain: per uncovered token its kind and the
     conjuncts of tok_covered *)
  | 22, f :: enc :: chk :: t :: _ =>
      let fm := g_fmt f in let rc := html_rcfg (gbool chk) in
      slist (fun tok =>
               match tok with
               | TOpen n a => L [A 0; sbool (simple_name n); sbool (negb (memS n (r_void rc))); sbool (negb (memS n (r_cdata rc)));
                                 sbool (quoted_attrs a); sbool (nodup_keys a)]
               | TEmptyTag n a sl => L [A 1; sbool (simple_name n); sbool (str_eqb sl [47%N]); sbool (quoted_attrs a); sbool (nodup_keys a)]
               | TClose n => L [A 2; sbool (simple_name n)]
               | TText s => L [A 3; sstr s]
               | TSpecial c s => L [A 4; sN c]
               | TNone => L [A 5]
               end)
            (filter (fun tok => negb (tok_covered rc tok)) (tokens_of (gbool enc) fm (g_tree t)))
  | _, _ => A (-1)
  end.
