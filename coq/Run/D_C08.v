(* C08 command table: codes 8000 + sub. Decoding / encoding in Gallina. *)
From Coq Require Import List ZArith NArith Bool.
From BS Require Import Base.Sexp Base.Types Base.Reader Model.Encode.
Import ListNotations.
Open Scope Z_scope.

Definition c08_g_aval (s : sexp) : aval :=
  match gL s with
  | [A 0; x] => AStr (gstr x)
  | [A 1; x] => AList (glist gstr x)
  | [A 2; x] => ACharset (gstr x)
  | [A 3; x] => AContent (gstr x)
  | _ => ANone
  end.
Definition c08_s_aval (v : aval) : sexp :=
  match v with
  | AStr x => L [A 0; sstr x]
  | AList l => L [A 1; slist sstr l]
  | ACharset x => L [A 2; sstr x]
  | AContent x => L [A 3; sstr x]
  | ANone => L [A 4]
  end.
Definition c08_g_attrs (s : sexp) : list (str * aval) := glist (gpair gstr c08_g_aval) s.
Definition c08_s_attrs (a : list (str * aval)) : sexp := slist (spair sstr c08_s_aval) a.

(* node: (0 cls text) | (1 name prefix? attrs can_be_empty hidden installed (kids...)) ; fuel = nesting bound *)
Fixpoint c08_g_node (fuel : nat) (s : sexp) : node :=
  match fuel with
  | O => Txt 0%N []
  | S f =>
      match gL s with
      | A 0 :: cls :: t :: _ => Txt (gN cls) (gstr t)
      | A 1 :: nm :: pf :: at_ :: cbe :: hid :: inst :: kids :: _ =>
          (* inst = the element was created through the builder: set_up_substitutions ran on it *)
          let attrs := if gbool inst then set_up_substitutions (gstr nm) (c08_g_attrs at_) else c08_g_attrs at_ in
          Elt (mkhead (gstr nm) (gopt gstr pf) attrs (gbool cbe) (gbool hid)) (map (c08_g_node f) (gL kids))
      | _ => Txt 0%N []
      end
  end.
Fixpoint c08_sexp_depth (s : sexp) : nat :=
  match s with
  | A _ => O
  | L l => S (fold_right (fun x m => Nat.max (c08_sexp_depth x) m) O l)
  end.
Definition c08_g_tree (s : sexp) : node := c08_g_node (S (c08_sexp_depth s)) s.

(* codec: ((cp bytes)...) bom ; a code point missing from the table is unencodable *)
Definition c08_g_codec (s : sexp) : (N -> option (list N)) :=
  let tbl := glist (gpair gN gstr) s in fun c => assocN c tbl.
Definition c08_g_policy (s : sexp) : policy :=
  match gZ s with 0 => Strict | 1 => XmlCharRef | _ => OtherPolicy end.
Definition c08_g_fmt (s : sexp) : fmt := match gZ s with 0 => FMinimal | _ => FNone end.
Definition c08_g_indent (s : sexp) : option nat := gopt gnat s.
Definition c08_s_obytes (o : option (list N)) : sexp :=
  match o with Some b => L [A 1; sstr b] | None => L [A 0] end.

Definition disp_c08 (sub : Z) (args : list sexp) : sexp :=
  match sub, args with
  (* (8001 name attrs) -> attrs after set_up_substitutions *)
  | 1, nm :: at_ :: _ => c08_s_attrs (set_up_substitutions (gstr nm) (c08_g_attrs at_))
  (* (8002 style eventual original) -> substituted value; style 0 = charset, 1 = content *)
  | 2, st :: e :: o :: _ =>
      sstr (match gZ st with 0 => charset_subst (gstr e) | _ => content_subst (gstr e) (gstr o) end)
  (* (8003 policy codec bom text) -> bytes of str.encode *)
  | 3, p :: cd :: bm :: t :: _ => c08_s_obytes (str_encode (c08_g_codec cd) (gstr bm) (c08_g_policy p) (gstr t))
  (* (8004 entry tree enc_name indent fmt policy codec bom):
       0 encode  1 prettify(encoding)  2 encode_contents *)
  | 4, en :: tr :: nm :: ind :: f :: p :: cd :: bm :: _ =>
      let t := c08_g_tree tr in
      match gZ en with
      | 0 => c08_s_obytes (tag_encode (c08_g_codec cd) (gstr bm) (gstr nm) (c08_g_indent ind) (c08_g_fmt f) (c08_g_policy p) t)
      | 1 => c08_s_obytes (tag_prettify_enc (c08_g_codec cd) (gstr bm) (gstr nm) (c08_g_fmt f) t)
      | _ => c08_s_obytes (tag_encode_contents (c08_g_codec cd) (gstr bm) (gstr nm) (c08_g_indent ind) (c08_g_fmt f) t)
      end
  (* (8005 entry tree eventual? indent fmt): 0 decode  1 decode_contents  2 prettify() *)
  | 5, en :: tr :: evn :: ind :: f :: _ =>
      let t := c08_g_tree tr in
      match gZ en with
      | 0 => sstr (tag_decode (c08_g_indent ind) (gopt gstr evn) (c08_g_fmt f) t)
      | 1 => sstr (tag_decode_contents (c08_g_indent ind) (gopt gstr evn) (c08_g_fmt f) t)
      | _ => sstr (tag_prettify_str (c08_g_fmt f) t)
      end
  (* (8006 text) / (8007 text): the two readers *)
  | 6, t :: _ => sstr (read_text (gstr t))
  | 7, t :: _ => sstr (read_attr (gstr t))
  (* (8008 encodable-code-points text) -> xcr_text (codec-independent form of xmlcharrefreplace) *)
  | 8, okl :: t :: _ =>
      let ok := glist gN okl in
      sstr (xcr_text (fun c => if memN c ok then Some [] else None) (gstr t))
  (* (8009 n) -> decimal digits *)
  | 9, n :: _ => sstr (decimal (gN n))
  (* (8010 value) -> what a re-reading of a content="" value finds *)
  | 10, v :: _ => slist (sopt sstr) (charset_params (gstr v))
  | _, _ => A (-1)
  end.
