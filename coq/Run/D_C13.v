(* C13 — commands of the extracted model (codes 13000 + sub). Decoding / encoding only. *)
From Coq Require Import List ZArith NArith Bool Arith.
From BS Require Import Base.Sexp Base.Types Model.Heap Model.Iter Model.Text Spec.Tree Spec.TextSpec.
Import ListNotations.
Open Scope Z_scope.

(* a heap dump: one entry per id, in the format of harness/treeimpl.py Forest.cell
   (kind dead parent contents previous_sibling next_sibling previous_element next_element label) *)
Definition g13_kind (s : sexp) : nkind :=
  match gZ s with 0 => KTag | 1 => KStr false | 2 => KStr true | _ => KSoup end.
Definition g13_cell (s : sexp) : cell :=
  match gL s with
  | [k; d; pa; ki; a; b; c; e; t] =>
      mkcell (g13_kind k) (gopt gnat pa) (glist gnat ki) (gopt gnat a) (gopt gnat b)
             (gopt gnat c) (gopt gnat e) (gstr t) (gbool d)
  | _ => blank KTag []
  end.
Definition heap_of13 (cells : list cell) : heap := fun x => nth x cells (blank KTag []).

(* payload: one (class interesting?) entry per id *)
Definition g13_pay (s : sexp) : tpay :=
  let l := gL s in
  mktp (fun x => gN (gnth (nth x l (L [])) 0))
       (fun x => gopt (glist gN) (gnth (nth x l (L [])) 1)).

Definition g13_types (s : sexp) : types_arg :=
  match gL s with
  | [A 1] => TyNone
  | [A 2; c] => TyOne (gN c)
  | [A 3; cs] => TyMany (glist gN cs)
  | _ => TyDefault
  end.

Definition s13_pieces (l : list (nat * str)) : sexp := slist (spair snat sstr) l.
Definition s13_sres (r : sres) : sexp :=
  match r with SFuel => L [A 2] | SNone => L [A 0] | SIs x => L [A 1; snat x] end.

(* the evaluator of Spec/TextSpec.v on the tree read off the children lists (Spec/Tree.v abs_tree):
   the right-hand side of Proofs.TextProofs.tag_strings_refine, evaluated *)
Definition spec_strings13 (n : nat) (h : heap) (p : tpay) (x : nat) (strip : bool) (types : types_arg)
  : list (nat * str) :=
  texts_below (fun y => negb (is_tag h y)) (t_cls p) (fun y => txt (h y))
              (type_selected (tag_types p x types)) py_strip strip (abs_tree n h x).
Definition spec_sole13 (n : nat) (h : heap) (x : nat) : sres :=
  if is_tag h x then
    match sole (fun y => negb (is_tag h y)) (abs_tree n h x) with Some s => SIs s | None => SNone end
  else SIs x.

Fixpoint pieces_eqb13 (a b : list (nat * str)) : bool :=
  match a, b with
  | [], [] => true
  | (x, s) :: a', (y, t) :: b' => Nat.eqb x y && str_eqb s t && pieces_eqb13 a' b'
  | _, _ => false
  end.
Definition sres_eqb13 (a b : sres) : bool :=
  match a, b with
  | SFuel, SFuel => true | SNone, SNone => true | SIs x, SIs y => Nat.eqb x y | _, _ => false
  end.

(* (13000 cells pay queries) with query = (x strip types sep)
   -> (consistent? ((pieces text spec-agrees?) ...) (string-of-each-element ...) sole-agrees?) *)
Definition cmd_extract13 (args : list sexp) : sexp :=
  match args with
  | cs :: py :: qs :: _ =>
      let cells := glist g13_cell cs in
      let n := length cells in
      let h := heap_of13 cells in
      let p := g13_pay py in
      let fuel := S n in
      let ok := consistent_b n h in
      L [ sbool ok;
          slist (fun q =>
                   let x := gnat (gnth q 0) in
                   let strip := gbool (gnth q 1) in
                   let types := g13_types (gnth q 2) in
                   let sep := gstr (gnth q 3) in
                   let r := all_strings fuel h p x strip types in
                   L [ s13_pieces r;
                       sstr (get_text fuel h p x sep strip types);
                       sbool (if ok && is_tag h x then pieces_eqb13 r (spec_strings13 n h p x strip types) else true) ])
                (gL qs);
          slist (fun x => s13_sres (string_prop fuel h x)) (seq 0 n);
          sbool (if ok then forallb (fun x => dead (h x) || sres_eqb13 (string_prop fuel h x) (spec_sole13 n h x)) (seq 0 n) else true) ]
  | _ => A (-1)
  end.

Definition disp_c13 (sub : Z) (args : list sexp) : sexp :=
  match sub, args with
  | 0, _ => cmd_extract13 args
  | 1, s :: _ => sstr (py_strip (gstr s))
  | 2, sep :: l :: _ => sstr (join (gstr sep) (glist gstr l))
  | 3, b :: name :: passed :: _ =>
      sopt (slist sN) (init_interesting (gopt (glist (gpair gstr gN)) b) (gstr name) (gopt (glist gN) passed))
  | 4, ec :: cont :: top :: base :: _ =>
      sN (string_container_of (glist (gpair gN gN) ec) (glist (gpair gstr gN) cont) (gopt gstr top) (gopt gN base))
  | _, _ => A (-1)
  end.
