(* Extraction: ExtrOcamlBasic only (its seven Extract Inductive and two Extract Inlined
   Constant directives); no directive of our own; N / Z / positive / nat stay inductives. *)
Require Extraction.
Require Import ExtrOcamlBasic.
From BS Require Import Base.Sexp Run.Dispatch.
Extraction "../build/model.ml" run_cmd.
