(* C16 — commands 16000+sub: run the construction machine with / without a parse_only filter on a
   document (or a raw event list), in both renderings (heap machine = what is compared with the
   implementation; frame machine = what the theorems are about), and evaluate the documented result
   (outermost matching elements of the full parse) and the theorem's side conditions. *)
From Coq Require Import List ZArith NArith Bool Arith.
From BS Require Import Base.Sexp Base.Types Model.Heap Model.Edit Model.Build Model.Attrs Model.Search Model.Strainer
                       Spec.StrainerSpec Run.D_C10.
Import ListNotations.
Open Scope Z_scope.

Definition g_cfg16 (s : sexp) : bconfig :=
  mkcfg (gopt (glist gstr) (gnth s 0)) (glist gstr (gnth s 1)) (glist (gpair gstr gN) (gnth s 2))
        (glist gN (gnth s 3)) (gstr (gnth s 4)).
Definition g_event16 (s : sexp) : event :=
  match gL s with
  | A 0 :: n :: p :: a :: _ => EStart (gstr n) (gopt gstr p) (glist (gpair gstr gstr) a)
  | A 1 :: n :: p :: _ => EEnd (gstr n) (gopt gstr p)
  | A 2 :: d :: _ => EData (gstr d)
  | A 3 :: c :: _ => EEndData (gopt gN c)
  | _ => EData []
  end.

(* documents: (0 name prefix? attrs kids) | (1 chunks) | (2 cls text); fuel bounds the nesting depth *)
Fixpoint g_dnode (fuel : nat) (s : sexp) : dnode :=
  match fuel with
  | O => DText []
  | S f =>
      match gL s with
      | A 0 :: n :: p :: a :: ks :: _ => DTag (gstr n) (gopt gstr p) (glist (gpair gstr gstr) a) (map (g_dnode f) (gL ks))
      | A 2 :: c :: t :: _ => DSpecial (gN c) (gstr t)
      | A 1 :: cs :: _ => DText (glist gstr cs)
      | _ => DText []
      end
  end.

Fixpoint s_pnode (n : pnode) : sexp :=
  match n with
  | PTag name p a ks => L [A 0; sstr name; sopt sstr p; slist (spair sstr sstr) a; L (map s_pnode ks)]
  | PStr c t => L [A 1; sN c; sstr t]
  end.

Fixpoint pnode_eqb (a b : pnode) : bool :=
  match a, b with
  | PTag n p at_ ks, PTag n' p' at' ks' =>
      str_eqb n n' && opt_str_eqb p p' &&
      Nat.eqb (length at_) (length at') &&
      forallb (fun kv => str_eqb (fst (fst kv)) (fst (snd kv)) && str_eqb (snd (fst kv)) (snd (snd kv))) (combine at_ at') &&
      Nat.eqb (length ks) (length ks') &&
      (fix go (l l' : list pnode) : bool :=
         match l, l' with
         | x :: r, y :: r' => pnode_eqb x y && go r r'
         | _, _ => true
         end) ks ks'
  | PStr c t, PStr c' t' => N.eqb c c' && str_eqb t t'
  | _, _ => false
  end.
Definition pnodes_eqb (a b : list pnode) : bool :=
  Nat.eqb (length a) (length b) && forallb (fun xy => pnode_eqb (fst xy) (snd xy)) (combine a b).

(* the heap state, in the format of Run/Dispatch.v's s_state *)
Definition s_onat16 (o : option nat) : sexp := sopt snat o.
Definition s_kind16 (k : nkind) : sexp :=
  match k with KTag => A 0 | KStr false => A 1 | KStr true => A 2 | KSoup => A 3 end.
Definition s_cell16 (h : heap) (x : nat) : sexp :=
  let c := h x in
  L [s_kind16 (kind c); sbool (dead c); s_onat16 (par c); slist snat (kids c);
     s_onat16 (ps c); s_onat16 (ns c); s_onat16 (pe c); s_onat16 (ne c); sstr (txt c)].
Definition s_state16 (s : st) : sexp := slist (s_cell16 (hp s)) (seq 0 (nxt s)).

Definition g_table16 (s : sexp) : option cdata_table := gopt (glist (gpair gstr (glist gstr))) s.

(* (filter?) : () for no filter, ((name attrs string kwargs)) for SoupStrainer(name, attrs, string, **kwargs) *)
Definition g_strainer (s : sexp) : option strainer :=
  match gL s with
  | q :: _ => Some (mk_strainer (g_crit (gnth q 0)) (g_attrs_arg (gnth q 1)) (g_crit (gnth q 2))
                                (glist (gpair gstr g_crit) (gnth q 3)))
  | [] => None
  end.

Definition run16 (pt : ptab) (ft : ftab) (cfg : bconfig) (table : option cdata_table) (po : option strainer)
           (evs : list event) (doc : option (list dnode)) : sexp :=
  let ps := plook pt in let fs := flook ft in
  let b := feed_po ps fs po cfg evs in
  let zs := zfeed ps fs po cfg evs in
  let full := zfeed ps fs None cfg evs in
  let spec :=
    match po with
    | Some sr =>
        if tag_filter sr then outermost_f (tag_matches ps fs sr table) full
        else if string_filter sr then
          (* with a document: the matching text runs of the document (C16_string_only_filter_runs, every document);
             with raw events: the matching strings of the full parse *)
          map (fun ct => PStr (fst ct) (snd ct))
              (filter (fun ct => string_allowed ps fs sr (snd ct))
                      (match doc with Some ds => text_runs cfg [] ds | None => strings_f full end))
        else if mixed_filter sr then []
        else full
    | None => full
    end in
  let flags :=
    match po, doc with
    | Some sr, Some ds =>
        [sbool (tag_filter sr); sbool (string_filter sr); sbool (mixed_filter sr);
         sbool (forallb (names_ok (c_root cfg)) ds);
         sbool (forallb (single_valued sr table) ds);
         sbool (forallb (ctx_ok ps fs sr cfg) ds);
         sbool (forallb (ctx_free cfg) ds)]
    | _, _ => []
    end in
  L [s_state16 (b_st b);
     slist s_pnode (heap_contents b);
     slist s_pnode zs;
     sbool (pnodes_eqb (heap_contents b) zs);
     slist s_pnode spec;
     L flags].

(* (16000 cfg table ftab ptab filter? doc)  /  (16001 cfg table ftab ptab filter? events) *)
Definition disp_c16 (sub : Z) (args : list sexp) : sexp :=
  match sub, args with
  | 0, c :: t :: ft :: pt :: f :: d :: _ =>
      let ds := map (g_dnode 64) (gL d) in
      run16 (g_ptab pt) (g_ftab ft) (g_cfg16 c) (g_table16 t) (g_strainer f) (brackets_f ds) (Some ds)
  | 1, c :: t :: ft :: pt :: f :: e :: _ =>
      run16 (g_ptab pt) (g_ftab ft) (g_cfg16 c) (g_table16 t) (g_strainer f) (glist g_event16 e) None
  | _, _ => A (-2)
  end.
