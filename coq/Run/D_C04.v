(* C04 commands (codes 4000 + sub): decoding / encoding in Gallina. *)
From Coq Require Import List ZArith NArith Bool Arith.
From BS Require Model.EntitySubst.
From BS Require Import Base.Sexp Base.Types Model.Attrs Model.Heap Model.Edit Model.Build Model.Adapter
                       Spec.Tree Spec.BuildSpec Spec.DocSpec Model.Tokenizer Model.TokParse Spec.DocWrite.
Import ListNotations.
Open Scope Z_scope.

(* ---- decoders ---- *)
Definition g_pos (s : sexp) : pos := (gN (gnth s 0), gN (gnth s 1)).
Definition g_hattrs (s : sexp) : list (str * option str) := glist (gpair gstr (gopt gstr)) s.
Definition g_hev (s : sexp) : hev :=
  match gL s with
  | A 0 :: n :: a :: p :: _ => HStart (gstr n) (g_hattrs a) (g_pos p)
  | A 1 :: n :: a :: p :: _ => HStartEnd (gstr n) (g_hattrs a) (g_pos p)
  | A 2 :: n :: _ => HEnd (gstr n)
  | A 3 :: d :: _ => HData (gstr d)
  | A 4 :: n :: _ => HCharref (gstr n)
  | A 5 :: n :: _ => HEntityref (gstr n)
  | A 6 :: d :: _ => HComment (gstr d)
  | A 7 :: d :: _ => HDecl (gstr d)
  | A 8 :: d :: _ => HUnknownDecl (gstr d)
  | A 9 :: d :: _ => HPi (gstr d)
  | _ => HData []
  end.
Definition g_bcfg (s : sexp) : bconfig :=
  mkcfg (gopt (glist gstr) (gnth s 0)) (glist gstr (gnth s 1)) (glist (gpair gstr gN) (gnth s 2))
        (glist gN (gnth s 3)) (gstr (gnth s 4)).
(* the fixed callable the harness uses on both sides: d[k] = d[k] + "," + v *)
Definition on_dupe_concat4 (d : adict) (k : akey) (v : aval) : adict :=
  match dget k d, v with
  | Some (VStr a), VStr b => dset k (VStr (a ++ 44%N :: b)) d
  | _, _ => d
  end.
Definition g_orig (s : sexp) : option (N -> option str) :=
  match gopt (glist (gopt gstr)) s with
  | Some tbl => Some (fun b => nth (N.to_nat b) tbl None)
  | None => None
  end.
(* (bcfg dup store orig) *)
Definition g_acfg (s : sexp) : acfg :=
  mkacfg (g_bcfg (gnth s 0))
         (match gZ (gnth s 1) with 0 => DupReplace | 1 => DupIgnore | _ => DupCall end)
         on_dupe_concat4 (gbool (gnth s 2)) (g_orig (gnth s 3)).
Definition g_spelling (s : sexp) : spelling :=
  match gZ s with 0 => SpOpen | 1 => SpSelf | _ => SpPair end.
Fixpoint g_dnode (s : sexp) : dnode :=
  match s with
  | L (A 0 :: t :: _) => DText (gstr t)
  | L (A 1 :: n :: _) => DCharref (gstr n)
  | L (A 2 :: n :: _) => DEntity (gstr n)
  | L (A 3 :: t :: _) => DComment (gstr t)
  | L (A 4 :: k :: t :: _) => DDoctype (gstr k) (gstr t)
  | L (A 5 :: k :: t :: _) => DCdata (gstr k) (gstr t)
  | L (A 6 :: t :: _) => DDecl (gstr t)
  | L (A 7 :: t :: _) => DPi (gstr t)
  | L (A 8 :: n :: a :: p :: sp :: _) => DVoid (gstr n) (g_hattrs a) (g_pos p) (g_spelling sp)
  | L (A 9 :: n :: a :: p :: _) => DSelf (gstr n) (g_hattrs a) (g_pos p)
  | L (A 10 :: n :: a :: p :: L kids :: _) => DElem (gstr n) (g_hattrs a) (g_pos p) (map g_dnode kids)
  | _ => DText []
  end.

(* ---- encoders ---- *)
Definition s_pos (p : pos) : sexp := L [sN (fst p); sN (snd p)].
Definition s_event (e : event) : sexp :=
  match e with
  | EStart n p a => L [A 0; sstr n; sopt sstr p; slist (spair sstr sstr) a]
  | EEnd n p => L [A 1; sstr n; sopt sstr p]
  | EData d => L [A 2; sstr d]
  | EEndData c => L [A 3; sopt sN c]
  end.
Definition s_out (o : out) : sexp := L [s_event (fst o); sopt s_pos (snd o)].
Definition s_hattrs (a : list (str * option str)) : sexp := slist (spair sstr (sopt sstr)) a.
Definition s_hev (h : hev) : sexp :=
  match h with
  | HStart n a p => L [A 0; sstr n; s_hattrs a; s_pos p]
  | HStartEnd n a p => L [A 1; sstr n; s_hattrs a; s_pos p]
  | HEnd n => L [A 2; sstr n]
  | HData d => L [A 3; sstr d]
  | HCharref n => L [A 4; sstr n]
  | HEntityref n => L [A 5; sstr n]
  | HComment d => L [A 6; sstr d]
  | HDecl d => L [A 7; sstr d]
  | HUnknownDecl d => L [A 8; sstr d]
  | HPi d => L [A 9; sstr d]
  end.
Definition s_aval4 (v : aval) : sexp :=
  match v with
  | VStr x => L [A 0; sstr x]
  | VList l => L [A 1; slist sstr l]
  | _ => L [A 5]
  end.
Definition s_onat4 (o : option nat) : sexp := sopt snat o.
Definition s_kind4 (k : nkind) : sexp :=
  match k with KTag => A 0 | KStr false => A 1 | KStr true => A 2 | KSoup => A 3 end.

(* the attributes as Tag.__init__ stores them: builder._replace_cdata_list_attribute_values *)
Definition final_attrs (mva : option cdata_table) (name : str) (a : list (str * str)) : adict :=
  replace_cdata_list mva name (map (fun kv => (akey_of (fst kv), VStr (snd kv))) a).

(* one node of the built tree: kind parent children name-or-text class void attributes *)
Definition s_node (mva : option cdata_table) (b : bstate) (x : nat) : sexp :=
  let c := hp (b_st b) x in
  let p := b_pay b x in
  L [s_kind4 (kind c); s_onat4 (par c); slist snat (kids c); sstr (p_name p); sN (p_cls p);
     sbool (p_void p);
     slist (fun kv => L [sstr (k_full (fst kv)); s_aval4 (snd kv)]) (final_attrs mva (p_name p) (p_attrs p))].

Definition attrs_eqb (a b : list (str * str)) : bool :=
  list_eqb (map (fun kv => length (fst kv)) a) (map (fun kv => length (fst kv)) b) &&
  forallb (fun ab => str_eqb (fst (fst ab)) (fst (snd ab)) && str_eqb (snd (fst ab)) (snd (snd ab))) (combine a b).
Definition payload_eqb4 (a b : payload) : bool :=
  str_eqb (p_name a) (p_name b) && opt_str_eqb (p_prefix a) (p_prefix b) && N.eqb (p_cls a) (p_cls b) &&
  Bool.eqb (p_void a) (p_void b) && attrs_eqb (p_attrs a) (p_attrs b).
(* Model.Build.feed = Spec.BuildSpec.spec_run on these events (evaluated) *)
Definition refines_b (cfg : bconfig) (evs : list event) : bool :=
  let b := feed cfg evs in
  let nodes := spec_run cfg evs in
  Nat.eqb (nxt (b_st b)) (length nodes) &&
  forallb (fun x =>
    let n := nth x nodes (mksn None no_payload) in
    oeqb (par (hp (b_st b) x)) (sn_parent n) && payload_eqb4 (b_pay b x) (sn_pay n) &&
    list_eqb (kids (hp (b_st b) x)) (children_of nodes x)) (seq 0 (length nodes)).
Definition snode_eqb (a b : snode) : bool :=
  oeqb (sn_parent a) (sn_parent b) && payload_eqb4 (sn_pay a) (sn_pay b).
Fixpoint snodes_eqb (a b : list snode) : bool :=
  match a, b with
  | [], [] => true
  | x :: a', y :: b' => snode_eqb x y && snodes_eqb a' b'
  | _, _ => false
  end.
Definition s_snode (n : snode) : sexp :=
  let p := sn_pay n in
  L [s_onat4 (sn_parent n); sstr (p_name p); sN (p_cls p); sbool (p_void p); slist (spair sstr sstr) (p_attrs p)].
Definition s_tagpos (np : str * option pos) : sexp := L [sstr (fst np); sopt s_pos (snd np)].

(* a callback of the tokenizer model *)
Definition s_tev (e : tev) : sexp :=
  match e with
  | TStart n a => L [A 0; sstr n; s_hattrs a]
  | TStartEnd n a => L [A 1; sstr n; s_hattrs a]
  | TEnd n => L [A 2; sstr n]
  | TData d => L [A 3; sstr d]
  | TCharref n => L [A 4; sstr n]
  | TEntityref n => L [A 5; sstr n]
  | TComment d => L [A 6; sstr d]
  | TDecl d => L [A 7; sstr d]
  | TUnknownDecl d => L [A 8; sstr d]
  | TPi d => L [A 9; sstr d]
  end.

Definition g_mva (s : sexp) : option cdata_table := gopt (glist (gpair gstr (glist gstr))) s.

Definition disp_c04 (sub : Z) (args : list sexp) : sexp :=
  match sub, args with
  (* (4000 cfg hevs) -> the calls made on the soup object, the final already-closed list, ok *)
  | 0, c :: hs :: _ =>
      let '(o, ac, ok) := adapter_run (g_acfg c) [] (glist g_hev hs) in
      L [slist s_out o; slist sstr ac; sbool ok]
  (* (4001 cfg hevs mva) -> ok, the built tree, link check, feed = spec_run, tag positions *)
  | 1, c :: hs :: m :: _ =>
      let cfg := g_acfg c in
      let '(o, _, ok) := adapter_run cfg [] (glist g_hev hs) in
      let b := feed (a_b cfg) (events_of o) in
      L [sbool ok; slist (s_node (g_mva m) b) (seq 0 (nxt (b_st b)));
         sbool (consistent_b (nxt (b_st b)) (hp (b_st b)));
         sbool (refines_b (a_b cfg) (events_of o));
         slist s_tagpos (tag_positions o)]
  (* (4002 name orig) -> the characters handle_charref hands on, () = ValueError *)
  | 2, n :: o :: _ =>
      sopt sstr (option_map (charref_data (g_orig o)) (charref_value (gstr n)))
  (* (4003 name) -> the characters handle_entityref hands on *)
  | 3, n :: _ => sstr (entity_data (gstr n))
  (* (4004 cfg doc) -> the spec side: wf, ideal callbacks, canonical calls, the expected tree (flat),
     and the evaluated conclusions of the two theorems on this document *)
  | 4, c :: d :: _ =>
      let cfg := g_acfg c in
      let doc := glist g_dnode d in
      let '(o, _, ok) := adapter_run cfg [] (hevents_of doc) in
      L [sbool (wf_doc cfg doc); slist s_hev (hevents_of doc); slist s_out (canon cfg doc);
         slist s_snode (flat (a_b cfg) (expect cfg doc));
         sbool (snodes_eqb (spec_run (a_b cfg) (events_of o)) (flat (a_b cfg) (expect cfg doc)))]
  (* (4005 cfg hevs) -> the same stream through the adapter as it was before the fix *)
  | 5, c :: hs :: _ =>
      let '(o, ac, ok) := adapter_run_gen true (g_acfg c) [] (glist g_hev hs) in
      L [slist s_out o; slist sstr ac; sbool ok]
  (* (4006 cfg doc) -> the written text of a document of the sub-grammar Spec.DocWrite.simple_doc and the evaluated
     statement of Props.C04 C04_string_tree_partial on it: simple_doc, wf_doc, write doc, the ideal callbacks without
     positions, not rejected, spec_run (adapter (tokenizer (write doc))) = flat (expect doc) *)
  | 6, c :: d :: _ =>
      let cfg := g_acfg c in
      let doc := glist g_dnode d in
      let text := write doc in
      let cbs := callbacks (fun v => v) text in
      let '(o, _, ok) := adapter_run cfg [] cbs in
      L [sbool (simple_doc doc); sbool (wf_doc cfg doc); sstr text; slist s_tev (tevs_of doc);
         sbool (negb (rejected (fun v => v) text));
         sbool (ok && snodes_eqb (spec_run (a_b cfg) (events_of o)) (flat (a_b cfg) (expect cfg doc)))]
  (* (4007 cfg doc) -> the same for the wider sub-grammar Spec.DocWrite.wider_doc (attribute values as WRITTEN, references
     allowed) with C09's model of html.unescape: wider_doc, wf_doc of the denoted document, write doc, the ideal callbacks of
     the denoted document, not rejected, the evaluated conclusion of Props.C04 C04_string_tree_wider_partial *)
  | 7, c :: d :: _ =>
      let cfg := g_acfg c in
      let doc := glist g_dnode d in
      let den := udoc EntitySubst.unescape doc in
      let text := write doc in
      let cbs := callbacks EntitySubst.unescape text in
      let '(o, _, ok) := adapter_run cfg [] cbs in
      L [sbool (wider_doc doc); sbool (wf_doc cfg den); sstr text; slist s_tev (tevs_of den);
         sbool (negb (rejected EntitySubst.unescape text));
         sbool (ok && snodes_eqb (spec_run (a_b cfg) (events_of o)) (flat (a_b cfg) (expect cfg den)))]
  | _, _ => A (-1)
  end.
