(* C14 commands (codes 14000 + sub). Trees and formatters are decoded as for C05. *)
From Coq Require Import List ZArith NArith Bool.
From BS Require Import Base.Sexp Base.Types Model.Render Model.Reparse Model.SmartQuotes Model.Build Spec.BuildSpec Spec.RenderSpec Spec.RoundTrip Spec.PrettyTokens Run.D_C05.
From BS Require Model.EntitySubst.
Import ListNotations.
Open Scope Z_scope.

Definition g_indent_arg (s : sexp) : indent_arg :=
  match gL s with
  | [A 0] => IndNone
  | [A 1; z] => IndInt (gZ z)
  | [A 2; x] => IndStr (gstr x)
  | _ => IndOther
  end.
Definition s_item (it : item) : sexp := L [A (it_depth it); sbool (it_block it); sstr (it_text it)].

Definition disp_c14 (sub : Z) (args : list sexp) : sexp :=
  match sub, args with
  (* decode(indent_level) *)
  | 0, f :: enc :: lv :: t :: _ => sstr (decode (gbool enc) (g_fmt f) (g_level lv) (g_tree t))
  (* Formatter(indent=...).indent *)
  | 1, a :: _ => sstr (formatter_indent (g_indent_arg a))
  (* the line structure and the whitespace-preserving blocks the theorems speak about *)
  | 2, f :: enc :: t :: _ => slist s_item (items_spec (gbool enc) (g_fmt f) (g_tree t))
  | 3, f :: enc :: t :: _ => slist sstr (pw_blocks_spec (gbool enc) (g_fmt f) (g_tree t))
  | 4, f :: enc :: lv :: t :: _ => sstr (decode_contents (gbool enc) (g_fmt f) (g_level lv) (g_tree t))
  (* the pretty rendering as tokens: spelled; read back (events; tree by the documented construction rules) *)
  | 5, f :: enc :: t :: _ => sstr (concat (map spell (pretty_tokens (gbool enc) (g_fmt f) (g_tree t))))
  | 6, f :: enc :: chk :: t :: _ =>
      slist s_bevent (read_tokens read_text EntitySubst.unescape (html_rcfg (gbool chk))
                        (pretty_tokens (gbool enc) (g_fmt f) (g_tree t)))
  | 7, f :: enc :: chk :: t :: _ =>
      slist s_snode (spec_run html_bcfg (read_tokens read_text EntitySubst.unescape (html_rcfg (gbool chk))
                                           (pretty_tokens (gbool enc) (g_fmt f) (g_tree t))))
  (* the decorated tree, normalised; and both sides of the whitespace-blind comparison *)
  | 8, f :: enc :: t :: _ =>
      slist s_snode (flat_tree html_bcfg (norm (gbool enc) (g_fmt f) html_bcfg
                                            (pretty_tree read_text (gbool enc) (g_fmt f) html_bcfg (g_tree t))))
  | 9, f :: enc :: t :: _ =>
      let fm := g_fmt f in let e := gbool enc in let tr := g_tree t in
      L [slist s_snode (flat_tree html_bcfg (ws_canon html_bcfg (norm e fm html_bcfg (pretty_tree read_text e fm html_bcfg tr))));
         slist s_snode (flat_tree html_bcfg (ws_canon html_bcfg (norm e fm html_bcfg tr)))]
  (* the hypotheses: pretty_ok_top t, representable_top t, representable_top (pretty_tree t) *)
  | 10, f :: enc :: chk :: t :: _ =>
      let fm := g_fmt f in let tr := g_tree t in let rc := html_rcfg (gbool chk) in
      L [sbool (pretty_ok_top fm rc html_bcfg tr); sbool (representable_top fm rc html_bcfg tr);
         sbool (representable_top fm rc html_bcfg (pretty_tree read_text (gbool enc) fm html_bcfg tr))]
  | _, _ => A (-1)
  end.
