(* C14 commands (codes 14000 + sub). Trees and formatters are decoded as for C05. *)
From Coq Require Import List ZArith NArith Bool.
From BS Require Import Base.Sexp Base.Types Model.Render Spec.RenderSpec Run.D_C05.
Import ListNotations.
Open Scope Z_scope.

Definition g_indent_arg (s : sexp) : indent_arg :=
  match gL s with
  | [A 0] => IndNone
  | [A 1; z] => IndInt (gZ z)
  | [A 2; x] => IndStr (gstr x)
  | _ => IndOther
  end.
Definition s_item (it : item) : sexp := L [A (it_depth it); sbool (it_block it); sstr (it_text it)].

Definition disp_c14 (sub : Z) (args : list sexp) : sexp :=
  match sub, args with
  (* decode(indent_level) *)
  | 0, f :: enc :: lv :: t :: _ => sstr (decode (gbool enc) (g_fmt f) (g_level lv) (g_tree t))
  (* Formatter(indent=...).indent *)
  | 1, a :: _ => sstr (formatter_indent (g_indent_arg a))
  (* the line structure and the whitespace-preserving blocks the theorems speak about *)
  | 2, f :: enc :: t :: _ => slist s_item (items_spec (gbool enc) (g_fmt f) (g_tree t))
  | 3, f :: enc :: t :: _ => slist sstr (pw_blocks_spec (gbool enc) (g_fmt f) (g_tree t))
  | 4, f :: enc :: lv :: t :: _ => sstr (decode_contents (gbool enc) (g_fmt f) (g_level lv) (g_tree t))
  | _, _ => A (-1)
  end.
