(* C06 commands of the extracted model (codes 6000 + sub).  Decoding / encoding only. *)
From Coq Require Import List ZArith NArith Bool.
From BS Require Import Base.Sexp Base.Types Model.EntitySubst Model.UnescapeLimit Model.Tokenizer Model.Heap Model.Edit Model.Build
                       Model.Construct Model.ConstructStr Model.ConstructBytes Spec.Tree.
Import ListNotations.
Open Scope Z_scope.

(* ---- decoding (same formats as the C03 commands of Run/Dispatch.v) ---- *)
Definition c6_cfg (s : sexp) : bconfig :=
  mkcfg (gopt (glist gstr) (gnth s 0)) (glist gstr (gnth s 1)) (glist (gpair gstr gN) (gnth s 2))
        (glist gN (gnth s 3)) (gstr (gnth s 4)).
Definition c6_event (s : sexp) : event :=
  match gL s with
  | A 0 :: n :: p :: a :: _ => EStart (gstr n) (gopt gstr p) (glist (gpair gstr gstr) a)
  | A 1 :: n :: p :: _ => EEnd (gstr n) (gopt gstr p)
  | A 2 :: d :: _ => EData (gstr d)
  | A 3 :: c :: _ => EEndData (gopt gN c)
  | _ => EData []
  end.
Definition c6_meta (s : sexp) : meta :=
  mkmeta (gopt gstr (gnth s 0)) (gopt gstr (gnth s 1)) (gbool (gnth s 2)).
(* (meta kind events msg-or-class) : kind 0 accept, 1 reject, 2 crash *)
Definition c6_strategy (s : sexp) : strategy :=
  let evs := glist c6_event (gnth s 2) in
  mkstrat (c6_meta (gnth s 0))
          (match gZ (gnth s 1) with
           | 0 => Accept evs
           | 1 => Reject evs (gstr (gnth s 3))
           | _ => Crash evs (PyExc (gN (gnth s 3)))
           end).
Definition c6_tail (s : sexp) : gen_end :=
  match gL s with
  | [] => GenDone
  | m :: _ => GenRaise (ParserRejected [gstr m])
  end.
Definition c6_markup (s : sexp) : markup :=
  match gZ (gnth s 0) with 0 => MStr (gstr (gnth s 1)) | _ => MBytes (gstr (gnth s 1)) end.
(* a 256-entry table: (0 text) | (1 class) *)
Definition c6_dec_entry (s : sexp) : dec_result :=
  match gL s with
  | A 0 :: t :: _ => DecText (gstr t)
  | A 1 :: c :: _ => DecRaise (gN c)
  | _ => DecRaise exc_UnicodeDecodeError
  end.
Definition c6_decoder (s : sexp) : option byte_decoder :=
  match gL s with
  | [] => None
  | t :: _ =>
      let tbl := glist c6_dec_entry t in
      Some (fun n => nth (N.to_nat n) tbl (DecRaise exc_UnicodeDecodeError))
  end.
Definition c6_attrs (s : sexp) : list (str * option str) := glist (gpair gstr (gopt gstr)) s.
Definition c6_callback (s : sexp) : callback :=
  match gL s with
  | A 0 :: n :: a :: _ => CbStart (gstr n) (c6_attrs a)
  | A 1 :: n :: a :: _ => CbStartEnd (gstr n) (c6_attrs a)
  | A 2 :: n :: _ => CbEnd (gstr n)
  | A 3 :: d :: _ => CbData (gstr d)
  | A 4 :: n :: _ => CbCharref (gstr n)
  | A 5 :: n :: _ => CbEntityref (gstr n)
  | A 6 :: d :: _ => CbComment (gstr d)
  | A 7 :: d :: _ => CbDecl (gstr d)
  | A 8 :: d :: _ => CbUnknownDecl (gstr d)
  | A 9 :: d :: _ => CbPi (gstr d)
  | _ => CbData []
  end.
Definition c6_fin (s : sexp) : tok_end :=
  match gL s with
  | A 1 :: c :: m :: _ => TokRaised (gN c) (gstr m)
  | A 2 :: m :: _ => TokError (gstr m)
  | _ => TokFinished
  end.
Definition c6_dammit (s : sexp) : dammit_result :=
  match gL s with
  | [] => DNone
  | d :: _ => DText (gopt gstr (gnth d 0)) (gopt gstr (gnth d 1)) (gbool (gnth d 2))
  end.

(* ---- encoding ---- *)
Definition c6_onat (o : option nat) : sexp := sopt snat o.
Definition c6_kind (k : nkind) : sexp :=
  match k with KTag => A 0 | KStr false => A 1 | KStr true => A 2 | KSoup => A 3 end.
Definition c6_cell (h : heap) (x : nat) : sexp :=
  let c := h x in
  L [c6_kind (kind c); sbool (dead c); c6_onat (par c); slist snat (kids c);
     c6_onat (ps c); c6_onat (ns c); c6_onat (pe c); c6_onat (ne c); sstr (txt c)].
Definition c6_payload (p : payload) : sexp :=
  L [sstr (p_name p); sopt sstr (p_prefix p); sN (p_cls p); sbool (p_void p)].
Definition c6_counter (c : list (str * Z)) : sexp := slist (fun kv => L [sstr (fst kv); A (snd kv)]) c.
(* every observable of the object: cells and payloads below the allocation counter, the parser state,
   and the verdict of the executable representation check of Spec/Tree.v *)
Definition c6_bstate (b : bstate) : sexp :=
  let s := b_st b in
  L [slist (c6_cell (hp s)) (seq 0 (nxt s));
     slist (fun x => c6_payload (b_pay b x)) (seq 0 (nxt s));
     slist snat (b_stack b); c6_counter (b_counter b); slist snat (b_pws b); slist snat (b_scs b);
     slist sstr (b_data b); c6_onat (b_mre b); c6_onat (b_cur b);
     sbool (consistent_b (nxt s) (hp s))].
Definition c6_smeta (m : meta) : sexp := L [sopt sstr (m_enc m); sopt sstr (m_decl m); sbool (m_repl m)].
Definition c6_exn (e : exn) : sexp :=
  match e with
  | ParserRejected msgs => L [A 0; slist sstr msgs]
  | PyExc c => L [A 1; sN c]
  end.
Definition c6_outcome {X} (f : X -> sexp) (o : outcome X) : sexp :=
  match o with Done x => L [A 0; f x] | Raise e => L [A 1; c6_exn e] end.
Definition c6_cres (r : cres) : sexp :=
  match r with
  | CSoup s => L [A 0; c6_bstate (so_b s); c6_smeta (so_meta s)]
  | CRaise e => L [A 1; c6_exn e]
  end.
Definition c6_warning (w : warning) : sexp := match w with WarnURL => A 0 | WarnFilename => A 1 end.

Definition disp_c06 (sub : Z) (args : list sexp) : sexp :=
  match sub, args with
  (* (6000 cfg pre-events strategies tail): the object is first dirtied by running pre-events on it *)
  | 0, c :: pre :: ss :: tl :: _ =>
      let cfg := c6_cfg c in
      let b0 := match gL pre with
                | [] => blank_obj
                | _ => run_events cfg (reset_obj cfg blank_obj) (glist c6_event pre)
                end in
      c6_cres (construct cfg b0 (glist c6_strategy ss) (c6_tail tl))
  (* (6001 markup) -> (is_url resembles_filename preparse) *)
  | 1, m :: _ =>
      let mk := c6_markup m in
      L [sbool (markup_is_url mk); c6_outcome sbool (markup_resembles_filename mk);
         c6_outcome (slist c6_warning) (preparse mk)]
  (* (6002 decoder? name) -> outcome data *)
  | 2, d :: n :: _ => c6_outcome sstr (charref_data (c6_decoder d) (gstr n))
  (* (6003 cfg markup dammit? decoder? callbacks fin) -> (result warnings) *)
  | 3, c :: m :: d :: o :: cbs :: fin :: _ =>
      let '(r, ws) := construct_htmlparser (c6_cfg c) blank_obj (c6_markup m) (c6_dammit d) (c6_decoder o)
                                           (glist c6_callback cbs) (c6_fin fin) in
      L [c6_cres r; slist c6_warning ws]
  (* (6004 errors text) -> outcome bytes : str.encode("utf8", errors) *)
  | 4, e :: s :: _ => c6_outcome sstr (utf8_encode (gN e) (gstr s))
  (* (6005 cfg text) -> (result warnings refused unescape-failed): the constructor on a str, nothing recorded:
     Model.Tokenizer -> adapter -> feed() mapping -> retry loop, html.unescape = Model.UnescapeLimit.unescape_checked *)
  | 5, c :: t :: _ =>
      let text := gstr t in
      let '(r, ws) := construct_str (c6_cfg c) blank_obj unescape_checked text in
      L [c6_cres r; slist c6_warning ws; sbool (str_rejects unescape_checked text);
         sbool (snd (fst (str_run unescape_checked text)))]
  (* (6006 cfg bytes from_encoding? exclude) -> (result warnings): the constructor on bytes within the concrete codecs:
     Model.Codecs.c_prepare_markup, then the string-level pipeline on the text it produced *)
  | 6, c :: b :: fe :: ex :: _ =>
      let '(r, ws) := construct_bytes (c6_cfg c) blank_obj unescape_checked (gstr b) (gopt gstr fe) (glist gstr ex) in
      L [c6_cres r; slist c6_warning ws]
  | _, _ => A (-1)
  end.
