(* C15 commands (codes 15000 + sub). Decoding / encoding only. *)
From Coq Require Import List ZArith NArith Bool.
From BS Require Import Base.Sexp Base.Types Model.FmtTypes Gen.T_C15 Model.Formatter Model.EntityAlt.
Import ListNotations.
Open Scope Z_scope.

Definition g_subst (s : sexp) : subst :=
  match gL s with
  | [A 0] => SubXml
  | [A 1] => SubHtml
  | [A 2] => SubHtml5
  | [A 3; n] => SubCustom (gN n)
  | _ => SubCustom 0
  end.
Definition s_subst (f : subst) : sexp :=
  match f with
  | SubXml => L [A 0] | SubHtml => L [A 1] | SubHtml5 => L [A 2]
  | SubCustom n => L [A 3; sN n]
  end.
Definition g_indent (s : sexp) : pyindent :=
  match gL s with
  | [A 0] => INone
  | [A 1; z] => IInt (gZ z)
  | [A 2; t] => IStr (gstr t)
  | _ => IOther
  end.
Definition g_fmt (s : sexp) : formatter :=
  mkfmt (gstr (gnth s 0)) (gopt g_subst (gnth s 1)) (gopt gstr (gnth s 2)) (glist gstr (gnth s 3))
        (gbool (gnth s 4)) (gstr (gnth s 5)).
Definition s_fmt (f : formatter) : sexp :=
  L [sstr (f_language f); sopt s_subst (f_subst f); sopt sstr (f_void f); slist sstr (f_cdata f);
     sbool (f_eab f); sstr (f_indent f)].
(* six optional keyword arguments; each present value may itself be None *)
Definition g_args (s : sexp) : ctor_args :=
  mkargs (gopt (gopt gstr) (gnth s 0)) (gopt (gopt g_subst) (gnth s 1)) (gopt (gopt gstr) (gnth s 2))
         (gopt (gopt (glist gstr)) (gnth s 3)) (gopt gbool (gnth s 4)) (gopt g_indent (gnth s 5)).
Definition g_class (s : sexp) : fclass :=
  match gZ s with 0 => CFormatter | 1 => CHTMLFormatter | _ => CXMLFormatter end.
Definition g_fspec (s : sexp) : fspec :=
  match gL s with
  | [A 0; f] => FObj (g_fmt f)
  | [A 1; n] => FName (gopt gstr n)
  | [A 2; f] => FFunc (g_subst f)
  | [A 3; c; a] => FObj (construct (g_class c) (g_args a))      (* an object built by the model's constructor *)
  | _ => FName None
  end.
Definition g_attrval (s : sexp) : attrval :=
  match gL s with
  | [A 1; t] => AStr (gstr t)
  | [A 2; l] => AList (glist gstr l)
  | [A 3; t] => AOther (gstr t)
  | _ => ANone
  end.
Definition s_attrval (v : attrval) : sexp :=
  match v with
  | ANone => L [A 0] | AStr t => L [A 1; sstr t] | AList l => L [A 2; slist sstr l] | AOther t => L [A 3; sstr t]
  end.
Definition g_attr (s : sexp) : attr := gpair gstr g_attrval s.
Fixpoint g_node (s : sexp) : node :=
  match s with
  | L [A 1; i; nm; pf; ats; cbe; hid; pw; L ks] =>
      NElem (gnat i) (gstr nm) (gopt gstr pf) (glist g_attr ats) (gbool cbe) (gbool hid) (glist gstr pw)
            (map g_node ks)
  | L [A 0; c; t] => NText (gN c) (gstr t)
  | _ => NText 0%N []
  end.

(* the substitution functions as recorded tables: (function, ((argument, result) ...)); an argument
   missing from the table yields a marker that cannot occur in the implementation's output *)
Definition subst_eqb (a b : subst) : bool :=
  match a, b with
  | SubXml, SubXml | SubHtml, SubHtml | SubHtml5, SubHtml5 => true
  | SubCustom x, SubCustom y => N.eqb x y
  | _, _ => false
  end.
Definition env := list (subst * list (str * str)).
Definition missing_marker : str := [0; 1114111; 0]%N.
Definition apply_env (e : env) (f : subst) (s : str) : str :=
  match find (fun r => subst_eqb f (fst r)) e with
  | Some r => match assocS s (snd r) with Some v => v | None => missing_marker end
  | None => missing_marker
  end.
Definition g_env (s : sexp) : env := glist (gpair g_subst (glist (gpair gstr gstr))) s.

Definition s_result (r : option (str * list str)) : sexp :=
  match r with
  | None => L [A 0]                                  (* KeyError *)
  | Some (out, calls) => L [A 1; sstr out; slist sstr calls]
  end.

Definition disp_c15 (sub : Z) (args : list sexp) : sexp :=
  match sub, args with
  (* (15000 class args) -> formatter attributes *)
  | 0, c :: a :: _ => s_fmt (construct (g_class c) (g_args a))
  (* (15001 chain top spec) -> resolved formatter | KeyError *)
  | 1, ch :: top :: sp :: _ =>
      sopt s_fmt (formatter_for_name (is_xml_of (glist (gopt gbool) ch) (gbool top)) (g_fspec sp))
  (* (15002 env chain top spec level incl_self soup_xml tree) -> (output, calls) | KeyError *)
  | 2, e :: ch :: top :: sp :: lvl :: incl :: sx :: t :: _ =>
      s_result (tag_decode (apply_env (g_env e)) (glist (gopt gbool) ch) (gbool top) (g_fspec sp)
                           (gopt gZ lvl) (gbool incl) (gbool sx) (g_node t))
  (* (15003 env chain top spec? class text parent_name?) -> (output, calls) | KeyError *)
  | 3, e :: ch :: top :: sp :: c :: t :: pn :: _ =>
      s_result (string_output_ready (apply_env (g_env e)) (glist (gopt gbool) ch) (gbool top)
                                    (gopt g_fspec sp) (gN c) (gstr t) (gopt gstr pn))
  (* (15004 eab attrs) -> Formatter.attributes *)
  | 4, eab :: ats :: _ =>
      slist (spair sstr s_attrval) (attributes (mkfmt [] None None [] (gbool eab) []) (glist g_attr ats))
  (* (15005 which text) -> the entity regex substitution *)
  | 5, w :: t :: _ =>
      sstr (if gbool w then substitute_html_model (gstr t) else entity_re_sub_model (gstr t))
  | _, _ => A (-1)
  end.
