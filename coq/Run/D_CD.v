(* Commands of the concrete codecs (codes 21000 + sub): Model/Codecs.v — nothing recorded per case. *)
From Coq Require Import List ZArith NArith Bool.
From BS Require Import Base.Sexp Base.Types Gen.T_Codecs Model.Dammit Model.Sniff Model.Encode Model.Codecs
     Run.D_C07 Run.D_C08.
Import ListNotations.
Open Scope Z_scope.

Definition cd_g_codec (s : sexp) : option codec := codec_of_id (gN s).
Definition cd_id_of (k : codec) : N :=
  match k with
  | Ascii => 0 | Latin1 => 1 | Cp1252 => 2 | Utf8 => 3 | Utf16LE => 4 | Utf16BE => 5 | Utf32LE => 6 | Utf32BE => 7
  end%N.
Definition cd_g_epolicy (s : sexp) : epolicy :=
  match gZ s with 0 => EStrict | 1 => EXmlCharRef | _ => EReplace end.
Definition cd_bytes256 : list N := map N.of_nat (seq 0 256).

Definition cd_s_result (r : dammit_result) (m : markup) (a : dargs) : sexp :=
  L [s_ostr (r_text r); s_ostr (r_orig r); sbool (r_flag r); s_ostr (r_declared_html r);
     slist (fun p => L [sstr (fst p); s_mode (snd p)]) (r_tried r); s_markup (r_markup r);
     s_ostr (det_sniffed m); slist sstr (c_encodings m a)].

Definition disp_cd (sub : Z) (args : list sexp) : sexp :=
  match sub, args with
  (* (21000 codec mode bytes) -> (text)? : bytes.decode(codec, errors) *)
  | 0, k :: m :: bs :: _ =>
      match cd_g_codec k with
      | Some c => s_ostr (codec_decode c (g_mode m) (gstr bs))
      | None => A (-4)
      end
  (* (21001 codec policy text) -> (0) | (1 bytes) : str.encode(codec, errors); policy 0 strict 1 xmlcharrefreplace 2 replace *)
  | 1, k :: p :: t :: _ =>
      match cd_g_codec k with
      | Some c => c08_s_obytes (codec_encode c (cd_g_epolicy p) (gstr t))
      | None => A (-4)
      end
  (* (21002 codec) -> the 256 entries of a single-byte codec *)
  | 2, k :: _ =>
      match cd_g_codec k with
      | Some c =>
          match sb_table c with
          | Some tbl => slist (sopt sN) (map (sb_dec_byte tbl) cd_bytes256)
          | None => A (-5)
          end
      | None => A (-4)
      end
  (* (21003 name) -> (codec)? *)
  | 3, n :: _ => sopt (fun c => sN (cd_id_of c)) (codec_of_name (gstr n))
  (* (21004 kind data known override user exclude is_html) -> as 7000, everything concrete *)
  | 4, kd :: data :: kn :: ov :: us :: ex :: html :: _ =>
      let m := g_markup kd data in
      let a := mkargs (glist gstr kn) (glist gstr ov) (glist gstr us) (glist gstr ex) (gbool html) in
      cd_s_result (c_dammit m a) m a
  (* (21005 kind data from_encoding? exclude) -> (0) | (1 text orig? declared? flag) *)
  | 5, kd :: data :: fe :: ex :: _ =>
      match c_prepare_markup (g_markup kd data) (gopt gstr fe) (glist gstr ex) with
      | Rejected => L [A 0]
      | Prepared t o d f => L [A 1; sstr t; s_ostr o; s_ostr d; sbool f]
      end
  (* (21006 entry tree enc_name indent fmt policy) -> (0) name not modelled | (1 obytes) *)
  | 6, en :: tr :: nm :: ind :: f :: p :: _ =>
      match c_tag_encode (gN en) (gstr nm) (c08_g_indent ind) (c08_g_fmt f) (c08_g_policy p) (c08_g_tree tr) with
      | None => L [A 0]
      | Some r => L [A 1; c08_s_obytes r]
      end
  (* (21007 codec code-points) -> for each: (byte ...)? : strict encoding of single characters *)
  | 7, k :: cs :: _ =>
      match cd_g_codec k with
      | Some c => slist (fun x => s_ostr (codec_enc_char c x)) (gstr cs)
      | None => A (-4)
      end
  | _, _ => A (-1)
  end.
