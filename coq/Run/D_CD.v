(* Commands of the concrete codecs (codes 21000 + sub): Model/Codecs.v — nothing recorded per case. *)
From Coq Require Import List ZArith NArith Bool.
From BS Require Import Base.Sexp Base.Types Gen.T_Codecs Model.Dammit Model.Sniff Model.Encode Model.Codecs
     Spec.SniffSpec Spec.DammitSpec Model.Autodetect Run.D_C07 Run.D_C08.
Import ListNotations.
Open Scope Z_scope.

Definition cd_g_codec (s : sexp) : option codec := codec_of_id (gN s).
Definition cd_id_of (k : codec) : N :=
  match k with
  | Ascii => 0 | Latin1 => 1 | Cp1252 => 2 | Utf8 => 3 | Utf16LE => 4 | Utf16BE => 5 | Utf32LE => 6 | Utf32BE => 7
  end%N.
Definition cd_g_epolicy (s : sexp) : epolicy :=
  match gZ s with 0 => EStrict | 1 => EXmlCharRef | _ => EReplace end.
Definition cd_bytes256 : list N := map N.of_nat (seq 0 256).

Definition cd_s_result (r : dammit_result) (m : markup) (a : dargs) : sexp :=
  L [s_ostr (r_text r); s_ostr (r_orig r); sbool (r_flag r); s_ostr (r_declared_html r);
     slist (fun p => L [sstr (fst p); s_mode (snd p)]) (r_tried r); s_markup (r_markup r);
     s_ostr (det_sniffed m); slist sstr (c_encodings m a)].

Definition disp_cd (sub : Z) (args : list sexp) : sexp :=
  match sub, args with
  (* (21000 codec mode bytes) -> (text)? : bytes.decode(codec, errors) *)
  | 0, k :: m :: bs :: _ =>
      match cd_g_codec k with
      | Some c => s_ostr (codec_decode c (g_mode m) (gstr bs))
      | None => A (-4)
      end
  (* (21001 codec policy text) -> (0) | (1 bytes) : str.encode(codec, errors); policy 0 strict 1 xmlcharrefreplace 2 replace *)
  | 1, k :: p :: t :: _ =>
      match cd_g_codec k with
      | Some c => c08_s_obytes (codec_encode c (cd_g_epolicy p) (gstr t))
      | None => A (-4)
      end
  (* (21002 codec) -> the 256 entries of a single-byte codec *)
  | 2, k :: _ =>
      match cd_g_codec k with
      | Some c =>
          match sb_table c with
          | Some tbl => slist (sopt sN) (map (sb_dec_byte tbl) cd_bytes256)
          | None => A (-5)
          end
      | None => A (-4)
      end
  (* (21003 name) -> (codec)? *)
  | 3, n :: _ => sopt (fun c => sN (cd_id_of c)) (codec_of_name (gstr n))
  (* (21004 kind data known override user exclude is_html) -> as 7000, everything concrete *)
  | 4, kd :: data :: kn :: ov :: us :: ex :: html :: _ =>
      let m := g_markup kd data in
      let a := mkargs (glist gstr kn) (glist gstr ov) (glist gstr us) (glist gstr ex) (gbool html) in
      cd_s_result (c_dammit m a) m a
  (* (21005 kind data from_encoding? exclude) -> (0) | (1 text orig? declared? flag) *)
  | 5, kd :: data :: fe :: ex :: _ =>
      match c_prepare_markup (g_markup kd data) (gopt gstr fe) (glist gstr ex) with
      | Rejected => L [A 0]
      | Prepared t o d f => L [A 1; sstr t; s_ostr o; s_ostr d; sbool f]
      end
  (* (21006 entry tree enc_name indent fmt policy) -> (0) name not modelled | (1 obytes) *)
  | 6, en :: tr :: nm :: ind :: f :: p :: _ =>
      match c_tag_encode (gN en) (gstr nm) (c08_g_indent ind) (c08_g_fmt f) (c08_g_policy p) (c08_g_tree tr) with
      | None => L [A 0]
      | Some r => L [A 1; c08_s_obytes r]
      end
  (* (21007 codec code-points) -> for each: (byte ...)? : strict encoding of single characters *)
  | 7, k :: cs :: _ =>
      match cd_g_codec k with
      | Some c => slist (fun x => s_ostr (codec_enc_char c x)) (gstr cs)
      | None => A (-4)
      end
  (* (21010 style name bpre bpost) -> (in_names no_bom in_window no_xml no_meta all window) : the hypotheses of
     C08_autodetect_declared in decidable form (Model/Autodetect.v), on b = bpre ++ meta_tag style name ++ bpost *)
  | 10, st :: nm :: bp :: bq :: _ =>
      let st' := if Z.eqb (gZ st) 0 then MCharset else MContent in
      let e := gstr nm in let bpre := gstr bp in let bpost := gstr bq in
      let b := bpre ++ meta_tag st' e ++ bpost in
      let W := html_window (length b) in
      L [sbool (existsb (fun p => str_eqb (fst p) e) encoder_names);
         sbool (str_eqb (fst (strip_bom b)) b && match snd (strip_bom b) with None => true | Some _ => false end);
         sbool (Nat.leb (length bpre + length (tag_head st' e)) W);
         sbool (no_xml_b b);
         sbool (no_meta_b bpre (tag_head st' e ++ firstn (W - length bpre - length (tag_head st' e)) (tag_tail st' ++ bpost)));
         sbool (detect_conditions_b st' e bpre bpost);
         snat W]
  (* (21011 style name) -> the tag text *)
  | 11, st :: nm :: _ => sstr (meta_tag (if Z.eqb (gZ st) 0 then MCharset else MContent) (gstr nm))
  (* (21012 shape name exclude bytes) -> (name_modelled nonempty no_mark declared? resolved? (text? orig? flag)) :
     hypotheses and right-hand side of the C07 call-shape theorems (Proofs/DetectShapes.v).
     shape 0: known_definite_encodings=[name] / from_encoding=name   -> concrete_outcome (named_candidates name k)
     shape 1: the document declares name                              -> the same
     shape 2: exclude_encodings=exclude                               -> concrete_outcome (default_candidates ...)
     shape 3: the document declares something that is no modelled codec -> concrete_outcome (default_candidates false false);
              `resolved` = what find_codec makes of the declared name when that is no modelled codec *)
  | 12, sh :: nm :: ex :: bs :: _ =>
      let e := gstr nm in let b := gstr bs in let X := glist gstr ex in
      let kk := match find (fun p => str_eqb (fst p) e) decoder_names with Some p => Some (snd p) | None => None end in
      let decl := find_declared_encoding lower_ascii (MBytes b) true false in
      let unknown := match decl with
                     | Some d => match find_codec lower_ascii c_known d with
                                 | Some d' => match codec_of_name d' with
                                              | None => if str_eqb (lower_ascii d) n_utf8 || str_eqb (lower_ascii d) n_windows1252
                                                        then None else Some d'
                                              | Some _ => None
                                              end
                                 | None => None
                                 end
                     | None => None
                     end in
      let rhs := match gZ sh with
                 | 0 | 1 => match kk with Some k => concrete_outcome (named_candidates e k) b | None => (None, None, false) end
                 | 2 => concrete_outcome (default_candidates (excluded lower_ascii X n_utf8) (excluded lower_ascii X n_windows1252)) b
                 | _ => concrete_outcome (default_candidates false false) b
                 end in
      L [sbool (match kk with Some _ => true | None => false end);
         sbool (negb (is_empty b));
         sbool (str_eqb (fst (strip_bom b)) b && match snd (strip_bom b) with None => true | Some _ => false end);
         s_ostr decl; s_ostr unknown;
         L [s_ostr (fst (fst rhs)); s_ostr (snd (fst rhs)); sbool (snd rhs)]]
  (* (21013 wide text) -> (0) | (1 bytes) : str.encode("utf-16" / "utf-32", "xmlcharrefreplace"); wide 0 = utf-16, 1 = utf-32 *)
  | 13, w :: t :: _ => c08_s_obytes (wide_encode (if Z.eqb (gZ w) 0 then W16 else W32) (gstr t))
  | _, _ => A (-1)
  end.
