(* run_cmd : the single entry point of the extracted model. A command is
   (L (A code :: args)); decoding and encoding are Gallina. *)
From Coq Require Import List ZArith NArith Bool.
From BS Require Import Base.Sexp Base.Types Base.Reader Model.Registry Model.SmartQuotes.
Import ListNotations.
Open Scope Z_scope.

(* ---- C20 ---- *)
Definition g_reg (s : sexp) : registration := gpair gN (glist gN) s.
Definition s_optN (o : option N) : sexp := sopt sN o.

(* (20 hist (req ...)) -> (result ...) *)
Definition cmd_c20_lookup (args : list sexp) : sexp :=
  match args with
  | h :: reqs :: _ =>
      let r := state_of (glist g_reg h) in
      slist (fun q => s_optN (lookup r (glist gN q))) (gL reqs)
  | _ => A (-1)
  end.

Definition s_decision (d : decision) : sexp :=
  match d with
  | FeatureNotFound => L [A 0]
  | Instantiate c kw => L [A 1; sN c; slist sN kw]
  | UseInstance i w => L [A 2; sN i; sbool w]
  end.
Definition g_barg (s : sexp) : builder_arg :=
  match gL s with
  | [A 1; c] => BClass (gN c)
  | [A 2; i] => BInstance (gN i)
  | _ => BNone
  end.
(* (21 hist default barg features? kwargs) *)
Definition cmd_c20_construct (args : list sexp) : sexp :=
  match args with
  | h :: d :: b :: f :: kw :: _ =>
      s_decision (construct_decision (state_of (glist g_reg h)) (glist gN d) (g_barg b)
                                     (gopt (glist gN) f) (glist gN kw))
  | _ => A (-1)
  end.

(* ---- C19 ---- *)
Definition g_mode (s : sexp) : sq_mode :=
  match gZ s with 0 => SqNone | 1 => SqAscii | 2 => SqXml | 3 => SqHtml | _ => SqOther end.
(* (190 mode carrier bytes) -> bytes *)
Definition cmd_c19_convert (args : list sexp) : sexp :=
  match args with
  | m :: c :: bs :: _ => sstr (convert_smart_quotes (g_mode m) (gstr c) (gstr bs))
  | _ => A (-1)
  end.
(* (191 bytes) -> bytes *)
Definition cmd_c19_detwingle (args : list sexp) : sexp :=
  match args with bs :: _ => sstr (detwingle (gstr bs)) | _ => A (-1) end.
(* (192 text) -> text as the parser reads it *)
Definition cmd_read_text (args : list sexp) : sexp :=
  match args with t :: _ => sstr (read_text (gstr t)) | _ => A (-1) end.

Definition run_cmd (c : sexp) : sexp :=
  match c with
  | L (A code :: args) =>
      match code with
      | 20 => cmd_c20_lookup args
      | 21 => cmd_c20_construct args
      | 190 => cmd_c19_convert args
      | 191 => cmd_c19_detwingle args
      | 192 => cmd_read_text args
      | _ => A (-2)
      end
  | _ => A (-3)
  end.
