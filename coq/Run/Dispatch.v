(* run_cmd : the single entry point of the extracted model. A command is
   (L (A code :: args)); decoding and encoding are Gallina. *)
From Coq Require Import List ZArith NArith Bool.
From BS Require Import Base.Sexp Base.Types Base.Reader Model.Registry Model.SmartQuotes Model.Attrs.
Import ListNotations.
Open Scope Z_scope.

(* ---- C20 ---- *)
Definition g_reg (s : sexp) : registration := gpair gN (glist gN) s.
Definition s_optN (o : option N) : sexp := sopt sN o.

(* (20 hist (req ...)) -> (result ...) *)
Definition cmd_c20_lookup (args : list sexp) : sexp :=
  match args with
  | h :: reqs :: _ =>
      let r := state_of (glist g_reg h) in
      slist (fun q => s_optN (lookup r (glist gN q))) (gL reqs)
  | _ => A (-1)
  end.

Definition s_decision (d : decision) : sexp :=
  match d with
  | FeatureNotFound => L [A 0]
  | Instantiate c kw => L [A 1; sN c; slist sN kw]
  | UseInstance i w => L [A 2; sN i; sbool w]
  end.
Definition g_barg (s : sexp) : builder_arg :=
  match gL s with
  | [A 1; c] => BClass (gN c)
  | [A 2; i] => BInstance (gN i)
  | _ => BNone
  end.
(* (21 hist default barg features? kwargs) *)
Definition cmd_c20_construct (args : list sexp) : sexp :=
  match args with
  | h :: d :: b :: f :: kw :: _ =>
      s_decision (construct_decision (state_of (glist g_reg h)) (glist gN d) (g_barg b)
                                     (gopt (glist gN) f) (glist gN kw))
  | _ => A (-1)
  end.

(* ---- C19 ---- *)
Definition g_mode (s : sexp) : sq_mode :=
  match gZ s with 0 => SqNone | 1 => SqAscii | 2 => SqXml | 3 => SqHtml | _ => SqOther end.
(* (190 mode carrier bytes) -> bytes *)
Definition cmd_c19_convert (args : list sexp) : sexp :=
  match args with
  | m :: c :: bs :: _ => sstr (convert_smart_quotes (g_mode m) (gstr c) (gstr bs))
  | _ => A (-1)
  end.
(* (191 bytes) -> bytes *)
Definition cmd_c19_detwingle (args : list sexp) : sexp :=
  match args with bs :: _ => sstr (detwingle (gstr bs)) | _ => A (-1) end.
(* (192 text) -> text as the parser reads it *)
Definition cmd_read_text (args : list sexp) : sexp :=
  match args with t :: _ => sstr (read_text (gstr t)) | _ => A (-1) end.

(* ---- C17 ---- *)
Definition g_aval (s : sexp) : aval :=
  match gL s with
  | [A 0; x] => VStr (gstr x)
  | [A 1; x] => VList (glist gstr x)
  | [A 2; x] => VBool (gbool x)
  | [A 3; x] => VInt (gZ x)
  | [A 4; x] => VFloat (gstr x)
  | _ => VNone
  end.
Definition s_aval (v : aval) : sexp :=
  match v with
  | VStr x => L [A 0; sstr x]
  | VList l => L [A 1; slist sstr l]
  | VBool b => L [A 2; sbool b]
  | VInt z => L [A 3; A z]
  | VFloat r => L [A 4; sstr r]
  | VNone => L [A 5]
  end.
Definition g_akey (s : sexp) : akey :=
  {| k_full := gstr (gnth s 0); k_local := gopt gstr (gnth s 1) |}.
Definition s_adict (d : adict) : sexp :=
  slist (fun kv => L [sstr (k_full (fst kv)); s_aval (snd kv)]) d.
Definition g_adict (s : sexp) : adict := glist (gpair g_akey g_aval) s.
Definition g_table (s : sexp) : option cdata_table :=
  gopt (glist (gpair gstr (glist gstr))) s.
(* a fixed callable used by the harness on both sides: d[k] = d[k] + "," + v *)
Definition on_dupe_concat (d : adict) (k : akey) (v : aval) : adict :=
  match dget k d, v with
  | Some (VStr a), VStr b => dset k (VStr (a ++ 44%N :: b)) d
  | _, _ => d
  end.
Definition cmd_c17 (sub : Z) (args : list sexp) : sexp :=
  match sub, args with
  | 0, s :: _ => slist sstr (split_ws (gstr s))
  | 1, l :: _ => sstr (join_sp (glist gstr l))
  | 2, t :: tag :: attrs :: _ => s_adict (replace_cdata_list (g_table t) (gstr tag) (g_adict attrs))
  | 3, kind :: ops :: _ =>
      let f := match gZ kind with 0 => html_setitem | 1 => xml_setitem | _ => plain_setitem end in
      s_adict (fold_left (fun d kv => f d (fst kv) (snd kv)) (g_adict ops) [])
  | 4, pol :: attrs :: _ =>
      let p := match gZ pol with 0 => DupReplace | 1 => DupIgnore | _ => DupCall end in
      s_adict (collect_attrs html_setitem on_dupe_concat p (glist (gpair g_akey (gopt gstr)) attrs))
  | _, _ => A (-1)
  end.

Definition run_cmd (c : sexp) : sexp :=
  match c with
  | L (A code :: args) =>
      match code with
      | 20 => cmd_c20_lookup args
      | 21 => cmd_c20_construct args
      | 170 => cmd_c17 0 args
      | 171 => cmd_c17 1 args
      | 172 => cmd_c17 2 args
      | 173 => cmd_c17 3 args
      | 174 => cmd_c17 4 args
      | 190 => cmd_c19_convert args
      | 191 => cmd_c19_detwingle args
      | 192 => cmd_read_text args
      | _ => A (-2)
      end
  | _ => A (-3)
  end.
