(* run_cmd : the single entry point of the extracted model. A command is
   (L (A code :: args)); decoding and encoding are Gallina. *)
From Coq Require Import List ZArith NArith Bool.
From BS Require Import Base.Sexp Base.Types Base.Reader Model.Registry Model.SmartQuotes Model.Attrs Model.Heap Model.Edit Model.Build Model.Iter Model.EditOps Spec.Tree Spec.BuildSpec Spec.ListEdit.
From BS Require Import Run.D_C15.
From BS Require Import Run.D_C04 Run.D_C18.
From BS Require Import Run.D_C06.
From BS Require Run.D_C08.
From BS Require Run.D_CD.
From BS Require Run.D_C10 Run.D_C16.
From BS Require Import Run.D_C12.


From BS Require Run.D_C05 Run.D_C14.
From BS Require Import Run.D_C13.
From BS Require Import Run.D_C07.
From BS Require Import Run.D_C09.
From BS Require Import Run.D_C11.
Import ListNotations.
Open Scope Z_scope.

(* ---- C20 ---- *)
Definition g_reg (s : sexp) : registration := gpair gN (glist gN) s.
Definition s_optN (o : option N) : sexp := sopt sN o.

(* (20 hist (req ...)) -> (result ...) *)
Definition cmd_c20_lookup (args : list sexp) : sexp :=
  match args with
  | h :: reqs :: _ =>
      let r := state_of (glist g_reg h) in
      slist (fun q => s_optN (lookup r (glist gN q))) (gL reqs)
  | _ => A (-1)
  end.

Definition s_decision (d : decision) : sexp :=
  match d with
  | FeatureNotFound => L [A 0]
  | Instantiate c kw => L [A 1; sN c; slist sN kw]
  | UseInstance i w => L [A 2; sN i; sbool w]
  end.
Definition g_barg (s : sexp) : builder_arg :=
  match gL s with
  | [A 1; c] => BClass (gN c)
  | [A 2; i] => BInstance (gN i)
  | _ => BNone
  end.
(* (21 hist default barg features? kwargs) *)
Definition cmd_c20_construct (args : list sexp) : sexp :=
  match args with
  | h :: d :: b :: f :: kw :: _ =>
      s_decision (construct_decision (state_of (glist g_reg h)) (glist gN d) (g_barg b)
                                     (gopt (glist gN) f) (glist gN kw))
  | _ => A (-1)
  end.

(* ---- C19 ---- *)
Definition g_mode (s : sexp) : sq_mode :=
  match gZ s with 0 => SqNone | 1 => SqAscii | 2 => SqXml | 3 => SqHtml | _ => SqOther end.
(* (190 mode carrier bytes) -> bytes *)
Definition cmd_c19_convert (args : list sexp) : sexp :=
  match args with
  | m :: c :: bs :: _ => sstr (convert_smart_quotes (g_mode m) (gstr c) (gstr bs))
  | _ => A (-1)
  end.
(* (191 bytes) -> bytes *)
Definition cmd_c19_detwingle (args : list sexp) : sexp :=
  match args with bs :: _ => sstr (detwingle (gstr bs)) | _ => A (-1) end.
(* (192 text) -> text as the parser reads it *)
Definition cmd_read_text (args : list sexp) : sexp :=
  match args with t :: _ => sstr (read_text (gstr t)) | _ => A (-1) end.

(* ---- C17 ---- *)
Definition g_aval (s : sexp) : aval :=
  match gL s with
  | [A 0; x] => VStr (gstr x)
  | [A 1; x] => VList (glist gstr x)
  | [A 2; x] => VBool (gbool x)
  | [A 3; x] => VInt (gZ x)
  | [A 4; x] => VFloat (gstr x)
  | _ => VNone
  end.
Definition s_aval (v : aval) : sexp :=
  match v with
  | VStr x => L [A 0; sstr x]
  | VList l => L [A 1; slist sstr l]
  | VBool b => L [A 2; sbool b]
  | VInt z => L [A 3; A z]
  | VFloat r => L [A 4; sstr r]
  | VNone => L [A 5]
  end.
Definition g_akey (s : sexp) : akey :=
  {| k_full := gstr (gnth s 0); k_local := gopt gstr (gnth s 1) |}.
Definition s_adict (d : adict) : sexp :=
  slist (fun kv => L [sstr (k_full (fst kv)); s_aval (snd kv)]) d.
Definition g_adict (s : sexp) : adict := glist (gpair g_akey g_aval) s.
Definition g_table (s : sexp) : option cdata_table :=
  gopt (glist (gpair gstr (glist gstr))) s.
(* a fixed callable used by the harness on both sides: d[k] = d[k] + "," + v *)
Definition on_dupe_concat (d : adict) (k : akey) (v : aval) : adict :=
  match dget k d, v with
  | Some (VStr a), VStr b => dset k (VStr (a ++ 44%N :: b)) d
  | _, _ => d
  end.
Definition cmd_c17 (sub : Z) (args : list sexp) : sexp :=
  match sub, args with
  | 0, s :: _ => slist sstr (split_ws (gstr s))
  | 1, l :: _ => sstr (join_sp (glist gstr l))
  | 2, t :: tag :: attrs :: _ => s_adict (replace_cdata_list (g_table t) (gstr tag) (g_adict attrs))
  | 3, kind :: ops :: _ =>
      let f := match gZ kind with 0 => html_setitem | 1 => xml_setitem | _ => plain_setitem end in
      s_adict (fold_left (fun d kv => f d (fst kv) (snd kv)) (g_adict ops) [])
  | 4, pol :: attrs :: _ =>
      let p := match gZ pol with 0 => DupReplace | 1 => DupIgnore | _ => DupCall end in
      s_adict (collect_attrs html_setitem on_dupe_concat p (glist (gpair g_akey (gopt gstr)) attrs))
  | _, _ => A (-1)
  end.

(* ---- C01 / C02 / C03: build + edit histories ---- *)
Definition s_onat (o : option nat) : sexp := sopt snat o.
Definition s_kind (k : nkind) : sexp :=
  match k with KTag => A 0 | KStr false => A 1 | KStr true => A 2 | KSoup => A 3 end.
Definition s_cell (h : heap) (x : nat) : sexp :=
  let c := h x in
  L [s_kind (kind c); sbool (dead c); s_onat (par c); slist snat (kids c);
     s_onat (ps c); s_onat (ns c); s_onat (pe c); s_onat (ne c); sstr (txt c)].
Definition s_state (s : st) : sexp := slist (s_cell (hp s)) (seq 0 (nxt s)).
(* the state plus the verdict of the executable representation check (Spec/Tree.v) *)
Definition s_state_chk (s : st) : sexp := L [s_state s; sbool (consistent_b (nxt s) (hp s))].
Definition s_payload (p : payload) : sexp :=
  L [sstr (p_name p); sopt sstr (p_prefix p); sN (p_cls p); sbool (p_void p);
     slist (spair sstr sstr) (p_attrs p)].
Definition s_bstate (b : bstate) : sexp :=
  L [s_state (b_st b); slist (fun x => s_payload (b_pay b x)) (seq 0 (nxt (b_st b)))].

Definition g_cfg (s : sexp) : bconfig :=
  mkcfg (gopt (glist gstr) (gnth s 0)) (glist gstr (gnth s 1)) (glist (gpair gstr gN) (gnth s 2))
        (glist gN (gnth s 3)) (gstr (gnth s 4)).
Definition g_event (s : sexp) : event :=
  match gL s with
  | A 0 :: n :: p :: a :: _ => EStart (gstr n) (gopt gstr p) (glist (gpair gstr gstr) a)
  | A 1 :: n :: p :: _ => EEnd (gstr n) (gopt gstr p)
  | A 2 :: d :: _ => EData (gstr d)
  | A 3 :: c :: _ => EEndData (gopt gN c)
  | _ => EData []
  end.
Definition g_arg (s : sexp) : arg :=
  match gL s with
  | [A 0; x] => AEl (gnat x)
  | [A 1; t] => AStr (gstr t)
  | _ => AStr []
  end.
(* an editing call as the model's [op] *)
Definition g_op (o : sexp) : option op :=
  match gL o with
  | [A 0; self; pos; args] => Some (OInsert (gnat self) (gnat pos) (glist g_arg args))
  | [A 1; self; a] => Some (OAppend (gnat self) (g_arg a))
  | [A 2; self; other] => Some (OExtendTag (gnat self) (gnat other))
  | [A 3; self; args] => Some (OExtendList (gnat self) (glist g_arg args))
  | [A 4; self; args] => Some (OInsertBefore (gnat self) (glist g_arg args))
  | [A 5; self; args] => Some (OInsertAfter (gnat self) (glist g_arg args))
  | [A 6; x] => Some (OExtract (gnat x))
  | [A 7; self; args] => Some (OReplaceWith (gnat self) (glist g_arg args))
  | [A 8; self; w] => Some (OWrap (gnat self) (gnat w))
  | [A 9; self] => Some (OUnwrap (gnat self))
  | [A 10; x] => Some (ODecompose (gnat x))
  | [A 11; self; d] => Some (OClear (gnat self) (gbool d))
  | [A 12; self; t] => Some (OSetString (gnat self) (gstr t))
  | [A 13; self] => Some (OSmooth (gnat self))
  | [A 14; k; label] =>
      Some (OAlloc (match gZ k with 0 => KTag | 1 => KStr false | 2 => KStr true | _ => KSoup end) (gstr label))
  | _ => None
  end.
(* the call itself is Model.EditOps.apply_op — the function the theorems of Proofs/EditRep.v are about *)
Definition run_op (s : st) (o : sexp) : res st :=
  match g_op o with Some op => apply_op s op | None => ValueError end.
Definition wf_sexp_op (s : st) (o : sexp) : bool :=
  match g_op o with Some op => wf_op_b s op | None => false end.
(* the six traversal generators (Model/Iter.v) of every element of the final state *)
Definition s_views (s : st) : sexp :=
  let f := fuel_of s in let h := hp s in
  slist (fun x => L [slist snat (next_elements f h x); slist snat (previous_elements f h x);
                     slist snat (next_siblings f h x); slist snat (previous_siblings f h x);
                     slist snat (parents f h x); slist snat (descendants f h x)]) (seq 0 (nxt s)).
Fixpoint run_ops (s : st) (ops : list sexp) : list sexp :=
  match ops with
  | [] => [s_views s]
  | o :: ops' =>
      match run_op s o with
      | Ok s' => L [A 0; s_state s'; sbool (consistent_b (nxt s') (hp s')); sbool (wf_sexp_op s o)] :: run_ops s' ops'
      | ValueError => L [A 1; s_state s; sbool (consistent_b (nxt s) (hp s)); sbool (wf_sexp_op s o)] :: run_ops s ops'
      end
  end.
(* (30 cfg events) -> final build state with payloads *)
Definition cmd_build (args : list sexp) : sexp :=
  match args with
  | c :: evs :: _ => s_bstate (feed (g_cfg c) (glist g_event evs))
  | _ => A (-1)
  end.
(* (31 cfg events) -> 1 iff the conclusion of Proofs.BuildRefines.build_refines holds on this run
   (evaluated, not proved: used to validate the statement against the implementation's runs) *)
Definition payload_eqb (a b : payload) : bool :=
  str_eqb (p_name a) (p_name b) && opt_str_eqb (p_prefix a) (p_prefix b) && N.eqb (p_cls a) (p_cls b) &&
  Bool.eqb (p_void a) (p_void b) &&
  list_eqb (map (fun kv => (length (fst kv) + length (snd kv))%nat) (p_attrs a))
           (map (fun kv => (length (fst kv) + length (snd kv))%nat) (p_attrs b)).
Definition build_refines_b (cfg : bconfig) (evs : list event) : bool :=
  let b := feed cfg evs in
  let nodes := spec_run cfg evs in
  Nat.eqb (nxt (b_st b)) (length nodes) &&
  forallb (fun x =>
    let n := nth x nodes (mksn None no_payload) in
    oeqb (par (hp (b_st b) x)) (sn_parent n) && payload_eqb (b_pay b x) (sn_pay n) &&
    list_eqb (kids (hp (b_st b) x)) (children_of nodes x)) (seq 0 (length nodes)) &&
  list_eqb (b_stack b) [0%nat] && oeqb (b_cur b) (Some 0%nat).
Definition cmd_build_refines (args : list sexp) : sexp :=
  match args with
  | c :: evs :: _ => sbool (build_refines_b (g_cfg c) (glist g_event evs))
  | _ => A (-1)
  end.
(* (13 kind n cs K): the list-level models of Spec/ListEdit.v — kind 0 insert(n = position),
   4 insert_before(n = self), 5 insert_after, 7 replace_with; 100+kind gives the documented effect *)
Definition cmd_listedit (args : list sexp) : sexp :=
  match args with
  | k :: n :: cs :: K :: _ =>
      let n := gnat n in let cs := glist gnat cs in let K := glist gnat K in
      slist snat
        (match gZ k with
         | 0 => kmove_all n cs K | 4 => kbefore n cs K | 5 => kafter n cs K | 7 => kreplace n cs K
         | 100 => splice_spec n cs K | 104 => before_spec n cs K | 105 => after_spec n cs K
         | 107 => replace_spec n cs K
         | _ => []
         end)
  | _ => A (-1)
  end.
(* (10 cfg events ops) -> (build-state (status state)...) *)
Definition cmd_history (args : list sexp) : sexp :=
  match args with
  | c :: evs :: ops :: _ =>
      let b := feed (g_cfg c) (glist g_event evs) in
      L (L [s_state (b_st b); sbool (consistent_b (nxt (b_st b)) (hp (b_st b)))] :: run_ops (b_st b) (gL ops))
  | _ => A (-1)
  end.

(* per-property command tables: property Cnn owns the codes 1000*nn .. 1000*nn+999 and defines
   [disp_cnn : Z -> list sexp -> sexp] in Run/D_Cnn.v; add one line here per property. *)
Definition disp_ext (code : Z) (args : list sexp) : sexp :=
  let nn := code / 1000 in let sub := code mod 1000 in
  match nn with
  | 11 => disp_c11 sub args
  | 9 => disp_c09 sub args
  | 7 => disp_c07 sub args
  | 13 => BS.Run.D_C13.disp_c13 sub args
  | 5 => BS.Run.D_C05.disp_c05 sub args
  | 14 => BS.Run.D_C14.disp_c14 sub args
  | 12 => disp_c12 sub args
  | 10 => BS.Run.D_C10.disp_c10 sub args
  | 16 => BS.Run.D_C16.disp_c16 sub args
  | 8 => BS.Run.D_C08.disp_c08 sub args
  | 6 => disp_c06 sub args
  | 18 => disp_c18 sub args
  | 4 => disp_c04 sub args
  | 15 => disp_c15 sub args
  | 21 => BS.Run.D_CD.disp_cd sub args
  | _ => A (-2)
  end.

Definition run_cmd (c : sexp) : sexp :=
  match c with
  | L (A code :: args) =>
      match code with
      | 10 => cmd_history args
      | 13 => cmd_listedit args
      | 30 => cmd_build args
      | 31 => cmd_build_refines args
      | 20 => cmd_c20_lookup args
      | 21 => cmd_c20_construct args
      | 170 => cmd_c17 0 args
      | 171 => cmd_c17 1 args
      | 172 => cmd_c17 2 args
      | 173 => cmd_c17 3 args
      | 174 => cmd_c17 4 args
      | 190 => cmd_c19_convert args
      | 191 => cmd_c19_detwingle args
      | 192 => cmd_read_text args
      | _ => disp_ext code args
      end
  | _ => A (-3)
  end.
