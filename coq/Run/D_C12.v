(* C12 — commands 12000 + sub of the extracted model: decoding of a state (elements + list
   objects) sent by the harness, and encoding of the results.  Gallina only. *)
From Coq Require Import List ZArith NArith Bool Arith.
From BS Require Import Base.Sexp Base.Types Spec.Tree Model.Copy Spec.CopySpec.
Import ListNotations.
Open Scope Z_scope.

(* ---- decoding ---- *)
Definition g_oZ (s : sexp) : option Z := gopt gZ s.
Definition g_obool (s : sexp) : option bool := gopt gbool s.
Definition g_cval (s : sexp) : cval :=
  match gL s with
  | [A 0; x] => CStr (gstr x)
  | [A 1; x] => CRef (gnat x)
  | [A 2; x] => CBool (gbool x)
  | [A 3; x] => CInt (gZ x)
  | _ => CNone
  end.
Definition g_tset (s : sexp) : tset :=
  mkset (gN (gnth s 0)) (gopt gstr (gnth s 1)) (gopt gstr (gnth s 2)) (g_oZ (gnth s 3)) (g_oZ (gnth s 4))
        (g_obool (gnth s 5)) (gN (gnth s 6)) (gN (gnth s 7)) (gN (gnth s 8)) (gN (gnth s 9))
        (gbool (gnth s 10)) (gN (gnth s 11)).
Definition g_payload (s : sexp) : payload :=
  match gL s with
  | [A 0; sp; n; a; kx; se] =>
      PTag (mktag (gbool sp) (gstr n) (glist (gpair gstr g_cval) a) (g_obool kx) (g_tset se))
  | [A 1; c; t] => PStr (gN c) (gstr t)
  | _ => PStr 0%N []
  end.
Definition g_cell (s : sexp) : ccell :=
  mkccell (gopt gnat (gnth s 0)) (glist gnat (gnth s 1)) (g_payload (gnth s 2)).
Definition blank_cell : ccell := mkccell None [] (PStr 0%N []).
Definition g_state (s : sexp) : cstate :=
  let cells := glist g_cell (gnth s 0) in
  let lsts := glist (gpair gN (glist gstr)) (gnth s 1) in
  mkst (fun i => nth i cells blank_cell) (length cells) (fun l => nth l lsts (0%N, [])) (length lsts).

(* ---- encoding ---- *)
Definition s_obool (o : option bool) : sexp := sopt sbool o.
Definition s_cval (v : cval) : sexp :=
  match v with
  | CStr x => L [A 0; sstr x]
  | CRef l => L [A 1; snat l]
  | CBool b => L [A 2; sbool b]
  | CInt z => L [A 3; A z]
  | CNone => L [A 4]
  end.
Definition s_tset (t : tset) : sexp :=
  L [sN (s_cls t); sopt sstr (s_ns t); sopt sstr (s_prefix t); sopt sZ (s_line t); sopt sZ (s_pos t);
     s_obool (s_cbe t); sN (s_cdata t); sN (s_pws t); sN (s_ist t); sN (s_nsmap t); sbool (s_hidden t);
     sN (s_lcls t)].
Definition s_payload (p : payload) : sexp :=
  match p with
  | PTag d => L [A 0; sbool (t_soup d); sstr (t_name d); slist (spair sstr s_cval) (t_attrs d);
                 s_obool (t_kxml d); s_tset (t_set d)]
  | PStr c t => L [A 1; sN c; sstr t]
  end.
Definition s_cell (c : ccell) : sexp := L [sopt snat (c_par c); slist snat (c_kids c); s_payload (c_pay c)].
Definition s_cstate (st : cstate) : sexp :=
  L [slist (fun i => s_cell (nh st i)) (seq 0 (nn st));
     slist (fun l => L [sN (fst (lh st l)); slist sstr (snd (lh st l))]) (seq 0 (ln st))].

Definition s_ekind (k : ekind) : sexp :=
  match k with EvStart => A 0 | EvEnd => A 1 | EvEmpty => A 2 | EvString => A 3 end.

(* the tree the child lists describe below x *)
Fixpoint abs_t (fuel : nat) (st : cstate) (x : nat) : tree :=
  match fuel with
  | O => Node x []
  | S f => Node x (map (abs_t f st) (c_kids (nh st x)))
  end.

(* ---- the hypotheses of the theorems in Props/C12.v, evaluated on a concrete state (the
   harness reports when a generated state does not satisfy them) ---- *)
Fixpoint nodup_b (l : list nat) : bool :=
  match l with [] => true | x :: r => negb (existsb (Nat.eqb x) r) && nodup_b r end.
Fixpoint nodup_s (l : list str) : bool :=
  match l with [] => true | x :: r => negb (existsb (str_eqb x) r) && nodup_s r end.
Fixpoint reps_b (st : cstate) (t : tree) : bool :=
  match t with
  | Node x ks =>
      list_eqb (c_kids (nh st x)) (map rid ks) &&
      (is_tagb st x || match ks with [] => true | _ => false end) &&
      (fix all (l : list tree) : bool :=
         match l with
         | [] => true
         | k :: l' => oeq (c_par (nh st (rid k))) (Some x) && reps_b st k && all l'
         end) ks
  end.
Definition soup_ok_b (st : cstate) (x : nat) : bool :=
  match c_pay (nh st x) with
  | PTag d => negb (t_soup d) ||
              (match t_attrs d with [] => true | _ => false end && match t_kxml d with Some _ => true | None => false end)
  | PStr _ _ => true
  end.
Definition hyps_b (st : cstate) (x : nat) : bool :=
  let t := abs_t (nn st) st x in
  reps_b st t && nodup_b (pre t) &&
  forallb (fun y => Nat.ltb y (nn st)) (pre t) &&
  forallb (fun l => Nat.ltb l (ln st)) (lrefs st t) &&
  forallb (soup_ok_b st) (pre t) &&
  forallb (fun y => nodup_s (map fst (attrs_of st y))) (pre t) &&
  forallb (fun i => match c_par (nh st i) with Some p => Nat.ltb p (nn st) | None => true end) (seq 0 (nn st)).

(* ---- edits ---- *)
Definition g_list_op (op : Z) (arg : sexp) : list str -> list str :=
  match op with
  | 0 => fun l => l ++ [gstr arg]                 (* append *)
  | 1 => fun _ => []                              (* clear *)
  | 2 => fun l => match l with [] => [] | _ :: r => gstr arg :: r end   (* l[0] = s *)
  | 3 => fun l => rev (tl (rev l))                (* pop *)
  | _ => fun l => rev l                           (* reverse *)
  end.
Definition g_edit (s : sexp) : option edit :=
  match gL s with
  | [A 0; x; k; v] => Some (ESetAttr (gnat x) (gstr k) (g_cval v))
  | [A 1; x; k] => Some (EDelAttr (gnat x) (gstr k))
  | [A 2; x; n] => Some (ESetName (gnat x) (gstr n))
  | [A 3; x; k; c; items] => Some (ESetAttrList (gnat x) (gstr k) (gN c) (glist gstr items))
  | [A 4; l; op; arg] => Some (EListUpdate (gnat l) (g_list_op (gZ op) arg))
  | [A 5; x] => Some (EExtract (gnat x))
  | [A 6; p; c] => Some (EAppend (gnat p) (gnat c))
  | [A 7; p; pay] => Some (EAppendNew (gnat p) (g_payload pay))
  | _ => None
  end.

Definition disp_c12 (sub : Z) (args : list sexp) : sexp :=
  match sub, args with
  (* (12000 state x) -> (1 clone state') | (0) *)
  | 0, s :: x :: _ =>
      let st := g_state s in
      match deepcopy (nn st) st (gnat x) with
      | Some (st', y) => L [A 1; snat y; s_cstate st']
      | None => L [A 0]
      end
  (* (12001 state x) -> events of _event_stream(x.descendants) *)
  | 1, s :: x :: _ =>
      let st := g_state s in
      slist (fun e => L [s_ekind (fst e); snat (snd e)]) (es_loop st (descendants (nn st) st (gnat x)) [])
  (* (12002 state x y) -> (x == y as coded, structural equality of the contents) *)
  | 2, s :: x :: y :: _ =>
      let st := g_state s in
      L [sbool (eq_h (nn st) st (gnat x) (gnat y));
         sbool (teq (content st (abs_t (nn st) st (gnat x))) (content st (abs_t (nn st) st (gnat y))))]
  (* (12003 state edits) -> state after the edits *)
  | 3, s :: es :: _ =>
      s_cstate (fold_left (fun st e => match g_edit e with Some ed => apply_edit st ed | None => st end)
                          (gL es) (g_state s))
  (* (12004 state x) -> do the hypotheses of the copy theorems hold for the tree at x? *)
  | 4, s :: x :: _ => sbool (hyps_b (g_state s) (gnat x))
  (* (12005 state x) -> the recursive statement of the copy (Spec.CopySpec.copy_spec) *)
  | 5, s :: x :: _ =>
      let st := g_state s in
      let r := copy_spec (nn st) st (abs_t (nn st) st (gnat x)) in
      L [snat (rid (snd r)); s_cstate (fst r)]
  | _, _ => A (-1)
  end.
