(* C10 — commands 10000+sub of the extracted model: decode a heap snapshot, the side table of
   prefixes / attributes, the truth tables standing for the user functions and regular
   expressions of the case, and a list of searches; run Model.Search (and, for the evaluated
   check of the specification, Spec.SearchSpec) on them. *)
From Coq Require Import List ZArith NArith Bool Arith.
From BS Require Import Base.Sexp Base.Types Model.Heap Model.Iter Model.Attrs Model.Search Spec.SearchSpec Spec.CssSpec.
Import ListNotations.
Open Scope Z_scope.

Definition g_kind (s : sexp) : nkind :=
  match gZ s with 0 => KTag | 1 => KStr false | 2 => KStr true | _ => KSoup end.
Definition g_onat (s : sexp) : option nat := gopt gnat s.
(* [kind dead parent? contents ps? ns? pe? ne? label] as written by harness/treeimpl.Forest.dump *)
Definition g_cell (s : sexp) : cell :=
  match gL s with
  | k :: d :: p :: ks :: a :: b :: c :: e :: lab :: _ =>
      mkcell (g_kind k) (g_onat p) (glist gnat ks) (g_onat a) (g_onat b) (g_onat c) (g_onat e) (gstr lab) (gbool d)
  | _ => mkcell (KStr false) None [] None None None None [] true
  end.
Definition heap_of (cells : list cell) : heap :=
  fun x => nth x cells (mkcell (KStr false) None [] None None None None [] true).

Definition g_attrv (s : sexp) : attrv :=
  match gL s with
  | [A 1; l] => AvList (glist gstr l)
  | [A _; v] => AvStr (gstr v)
  | _ => AvStr []
  end.
Definition g_tagx (s : sexp) : tagx :=
  mkx (gopt gstr (gnth s 0)) (glist (gpair gstr g_attrv) (gnth s 1)).
Definition xmap_of (l : list tagx) : xmap := fun x => nth x l no_tagx.

Definition g_callarg (s : sexp) : callarg :=
  match gL s with
  | [A 0; x] => ArgEl (gnat x)
  | [A 1; t] => ArgStr (gstr t)
  | _ => ArgNone
  end.
Definition s_callarg (a : callarg) : sexp :=
  match a with
  | ArgEl x => L [A 0; snat x]
  | ArgStr t => L [A 1; sstr t]
  | ArgNone => L [A 2]
  end.
Definition callarg_eqb (a b : callarg) : bool :=
  match a, b with
  | ArgEl x, ArgEl y => Nat.eqb x y
  | ArgStr s, ArgStr t => str_eqb s t
  | ArgNone, ArgNone => true
  | _, _ => false
  end.

(* truth tables: a function / pattern is what it answered on the arguments of this case *)
Definition ftab := list (N * callarg * bool).
Definition ptab := list (N * str * bool).
Definition g_ftab (s : sexp) : ftab :=
  glist (fun e => (gN (gnth e 0), g_callarg (gnth e 1), gbool (gnth e 2))) s.
Definition g_ptab (s : sexp) : ptab :=
  glist (fun e => (gN (gnth e 0), gstr (gnth e 1), gbool (gnth e 2))) s.
Fixpoint flook (t : ftab) (f : N) (a : callarg) : bool :=
  match t with
  | [] => false
  | (f', a', b) :: t' => if N.eqb f f' && callarg_eqb a a' then b else flook t' f a
  end.
Fixpoint plook (t : ptab) (p : N) (s : str) : bool :=
  match t with
  | [] => false
  | (p', s', b) :: t' => if N.eqb p p' && str_eqb s s' then b else plook t' p s
  end.

Definition g_atom (s : sexp) : atom :=
  match gL s with
  | [A 0; x] => AtStr (gstr x)
  | [A 1; b] => AtBool (gbool b)
  | [A 2; f] => AtFun (gN f)
  | [A 3; p] => AtPat (gN p)
  | [A 5] => AtNested
  | [A 6; x] => AtObj (gstr x)
  | _ => AtNone
  end.
Definition g_crit (s : sexp) : crit :=
  match gL s with
  | [A 1; a] => COne (g_atom a)
  | [A 2; l] => CList (glist g_atom l)
  | _ => c_none
  end.
Definition g_attrs_arg (s : sexp) : attrs_arg :=
  match gL s with
  | [A 1; c; t] => AttrsOther (g_crit c) (gbool t)
  | [A _; l] => AttrsDict (glist (gpair gstr g_crit) l)
  | _ => AttrsDict []
  end.
(* (name attrs string kwargs limit?) *)
Definition g_query (s : sexp) : query :=
  mkq (g_crit (gnth s 0)) (g_attrs_arg (gnth s 1)) (g_crit (gnth s 2))
      (glist (gpair gstr g_crit) (gnth s 3)) (gopt gnat (gnth s 4)).
Definition g_axis (s : sexp) : axis :=
  match gZ s with
  | 0 => AxDescendants | 1 => AxChildren | 2 => AxNext | 3 => AxPrevious
  | 4 => AxNextSiblings | 5 => AxPreviousSiblings | _ => AxParents
  end.

Definition s_site (st : site) : sexp := match st with SName => A 0 | SAttr => A 1 | SString => A 2 end.
Definition s_log (l : log) : sexp :=
  slist (fun c => L [s_site (fst (fst c)); sN (snd (fst c)); s_callarg (snd c)]) l.

Section Run.
  Variable pt : ptab.
  Variable ft : ftab.
  Variable h : heap.
  Variable xm : xmap.
  Variable fuel : nat.

  Definition run_search (s : sexp) : sexp :=
    match gL s with
    | [A 0; ax; x; q] =>
        let '(r, lg) := find_all_method (plook pt) (flook ft) h xm fuel (g_axis ax) (gnat x) (g_query q) in
        L [slist snat r; s_log lg]
    | [A 1; ax; x; q] =>
        let '(r, lg) := find_method (plook pt) (flook ft) h xm fuel (g_axis ax) (gnat x) (g_query q) in
        L [sopt snat r; s_log lg]
    | [A 2; rc; x; q] =>
        let '(r, lg) := call_m (plook pt) (flook ft) h xm fuel (gnat x) (gbool rc) (g_query q) in
        L [slist snat r; s_log lg]
    | [A 3; x; name] =>
        match getattr_m (plook pt) (flook ft) h xm fuel (gnat x) (gstr name) with
        | Some (r, lg) => L [L [sopt snat r; s_log lg]]
        | None => L []
        end
    | [A 4; ax; x; q] =>
        (* the specification evaluated on the same axis, and whether the case lies in the
           domain of the refinement theorem *)
        let q' := method_query (g_axis ax) (g_query q) in
        let axl := axis_list h fuel (g_axis ax) (gnat x) in
        L [slist snat (find_all_spec (plook pt) (flook ft) h xm fuel q' axl);
           sbool (query_ok q'); sbool (forallb (name_wf h xm) axl)]
    | _ => A (-1)
    end.

  (* compact form: the queries of a case are sent once; a search is (kind axis start query-index limit?) with
     kind 0 plural / 1 singular / 2 tag(...); the answer carries the model's result and call log, the
     specification's result on the same axis, and the two domain flags *)
  Definition run_search2 (qs : list sexp) (s : sexp) : sexp :=
    match gL s with
    | [A k; ax; x; qi; lim] =>
        let q0 := g_query (nth (gnat qi) qs (L [])) in
        let q := with_limit q0 (gopt gnat lim) in
        let a := g_axis ax in
        let q' := method_query a (if Z.eqb k 1 then with_limit q0 None else q) in
        let axl := axis_list h fuel a (gnat x) in
        let spec := [slist snat (find_all_spec (plook pt) (flook ft) h xm fuel q' axl);
                     sbool (query_ok q'); sbool (forallb (name_wf h xm) axl)] in
        if Z.eqb k 1 then
          let '(r, lg) := find_method (plook pt) (flook ft) h xm fuel a (gnat x) q0 in
          L (sopt snat r :: s_log lg :: spec)
        else if Z.eqb k 2 then
          let '(r, lg) := call_m (plook pt) (flook ft) h xm fuel (gnat x) (Z.eqb (gZ ax) 0) q in
          L (slist snat r :: s_log lg :: spec)
        else
          let '(r, lg) := find_all_method (plook pt) (flook ft) h xm fuel a (gnat x) q in
          L (slist snat r :: s_log lg :: spec)
    | _ => A (-1)
    end.
End Run.

(* (10000 cells ext ftab ptab searches) -> (result ...) *)
Definition cmd_c10_search (args : list sexp) : sexp :=
  match args with
  | cells :: ext :: ft :: pt :: searches :: _ =>
      let cs := glist g_cell cells in
      slist (run_search (g_ptab pt) (g_ftab ft) (heap_of cs) (xmap_of (glist g_tagx ext)) (S (length cs)))
            (gL searches)
  | _ => A (-1)
  end.

(* (10001 cells ext ftab ptab queries searches) -> (result ...) *)
Definition cmd_c10_search2 (args : list sexp) : sexp :=
  match args with
  | cells :: ext :: ft :: pt :: qs :: searches :: _ =>
      let cs := glist g_cell cells in
      slist (run_search2 (g_ptab pt) (g_ftab ft) (heap_of cs) (xmap_of (glist g_tagx ext)) (S (length cs)) (gL qs))
            (gL searches)
  | _ => A (-1)
  end.

(* ---- CSS clause: selectors (Spec/CssSpec.v) ---- *)
Definition g_asimple (s : sexp) : asimple :=
  match gL s with
  | [A 0; c] => CClass (gstr c)
  | [A 1; i] => CId (gstr i)
  | [A 2; k] => CAttr (gstr k)
  | [A 3; k; v] => CAttrEq (gstr k) (gstr v)
  | _ => CAttr []
  end.
Definition g_compound (s : sexp) : compound := mkcomp (gopt gstr (gnth s 0)) (glist g_asimple (gnth s 1)).
Definition g_comb (s : sexp) : comb := match gZ s with 0 => Desc | _ => Child end.
Definition g_complex (s : sexp) : complex :=
  mkcx (g_compound (gnth s 0)) (glist (fun cc => (g_comb (gnth cc 0), g_compound (gnth cc 1))) (gnth s 1)).
Definition g_selector (s : sexp) : selector := glist g_complex s.

(* (10002 cells ext ((start selector) ...)) -> ((select_spec select_fa selector_ok) ...) : the specification of
   select(), its find_all composition (they are proved equal on the domain), and the domain flag *)
Definition cmd_c10_css (args : list sexp) : sexp :=
  match args with
  | cells :: ext :: items :: _ =>
      let cs := glist g_cell cells in
      let h := heap_of cs in let xm := xmap_of (glist g_tagx ext) in let fuel := S (length cs) in
      slist (fun it =>
               let e := gnat (gnth it 0) in let sel := g_selector (gnth it 1) in
               L [slist snat (select_spec h xm fuel sel e);
                  slist snat (select_fa (fun _ _ => false) (fun _ _ => false) h xm fuel sel e);
                  sbool (selector_ok sel)]) (gL items)
  | _ => A (-1)
  end.

Definition disp_c10 (sub : Z) (args : list sexp) : sexp :=
  match sub with
  | 0 => cmd_c10_search args
  | 1 => cmd_c10_search2 args
  | 2 => cmd_c10_css args
  | _ => A (-2)
  end.
