(* C09 commands (codes 9000 + sub). Strings are lists of code points.
   0 (s quoted)        -> () | (out)      substitute_xml (None = KeyError)
   1 (s)               -> out             substitute_html
   2 (s)               -> out             substitute_html5
   3 (v)               -> out             quoted_attribute_value
   4 (xml name? cdata s) -> () | (() | (out))   REGISTRY[name].substitute (outer () = unknown name / function)
   5 (xml name? v)     -> () | (() | (out))     the quoted attribute text Tag._format_tag writes after "="
   6 (s)               -> out             read_text   (element text as the parser reads it)
   7 (s)               -> out             unescape    (html.unescape)
   8 (q)               -> () | (out)      read_quoted
   9 (s)               -> 0/1             no_bare_ref (hypothesis of the html5 theorem)
   10 (s)              -> out             escape_any_entity
   11 (s)              -> (xml? xmlq? html html5 quote quote_html quote_html5)   all substitutions of one string
   12 (s)              -> (read_text unescape no_bare_ref)                       the readers on one string
   13 (s)              -> (xml? xmlq? html html5 quote R_xml? R_html R_html5 unescape(s) no_bare_ref(s) no_bare_ref_attr(s))
                          where R_o = (quoted(o) read_text(o) unescape(o) read_quoted(quoted(o))? real(o) attr_checked(o)) : everything about one string;
                          ... no_stray_hash(s)
   14 (pass2 t K)      -> (out tok)       real_read_text: tok 0 = goes on (pass 1), 1 = goes on (pass 2), 2 = stopped
   15 (q)              -> (0 v) | (1) | (2)  read_quoted_checked: value / not a quoted value / rejected (ValueError) *)
From Coq Require Import List ZArith NArith Bool.
From BS Require Import Base.Sexp Base.Types Base.Reader Model.SmartQuotes Model.EntitySubst Model.EntitySubstFast Spec.EntitiesSpec
     Model.TextReaderReal Model.UnescapeLimit.
Import ListNotations.
Open Scope Z_scope.

Definition s_ostr (o : option str) : sexp := sopt sstr o.

(* The substitutions are run through the indexed scanner (Model/EntitySubstFast.v), proved equal to
   substitute_html / substitute_html5 (C09_indexed_scanner_equal). *)
Definition run_html : str -> str := substitute_html_ix.
Definition run_html5 : str -> str := substitute_html5_ix.
Definition run_apply (f : esub) (s : str) : option str :=
  match f with
  | EsHtml => Some (run_html s)
  | EsHtml5 => Some (run_html5 s)
  | _ => apply_esub f s
  end.
Definition run_formatter_substitute (f : esub) (in_cdata : bool) (ns : str) : option str :=
  match f with
  | EsNone => Some ns
  | _ => if in_cdata then Some ns else run_apply f ns
  end.
Definition run_render_attribute_value (f : esub) (value : str) : option str :=
  match run_formatter_substitute f false value with
  | Some t => Some (quoted_attribute_value t)
  | None => None
  end.

Definition s_tok (t : tok_state) : sexp :=
  match t with Goes false => A 0 | Goes true => A 1 | Stopped => A 2 end.
Definition s_real (r : str * tok_state) : sexp := L [sstr (fst r); s_tok (snd r)].
Definition s_attr (r : attr_read) : sexp :=
  match r with AttrValue v => L [A 0; sstr v] | AttrNotQuoted => L [A 1] | AttrRejected => L [A 2] end.

(* readings of one written text o: quoted form; idealised text reader; html.unescape; quoted reading;
   the REAL text reader in a document "<pre>o</pre>" (first pass); the attribute reader with its failure *)
Definition s_readings (o : str) : sexp :=
  let q := quoted_attribute_value o in
  L [sstr q; sstr (read_text o); sstr (unescape o); s_ostr (read_quoted q);
     s_real (real_read_text false o k_pre); s_attr (read_quoted_checked q)].

Definition disp_c09 (sub : Z) (args : list sexp) : sexp :=
  match sub, args with
  | 0, s :: q :: _ => s_ostr (substitute_xml (gstr s) (gbool q))
  | 1, s :: _ => sstr (run_html (gstr s))
  | 2, s :: _ => sstr (run_html5 (gstr s))
  | 3, v :: _ => sstr (quoted_attribute_value (gstr v))
  | 4, x :: n :: c :: s :: _ =>
      match registry_esub (gbool x) (gopt gstr n) with
      | Some f => L [s_ostr (run_formatter_substitute f (gbool c) (gstr s))]
      | None => L []
      end
  | 5, x :: n :: v :: _ =>
      match registry_esub (gbool x) (gopt gstr n) with
      | Some f => L [s_ostr (run_render_attribute_value f (gstr v))]
      | None => L []
      end
  | 6, s :: _ => sstr (read_text (gstr s))
  | 7, s :: _ => sstr (unescape (gstr s))
  | 8, q :: _ => s_ostr (read_quoted (gstr q))
  | 9, s :: _ => sbool (no_bare_ref (gstr s))
  | 10, s :: _ => sstr (escape_any_entity (gstr s))
  | 11, s :: _ =>
      let v := gstr s in
      let h := run_html v in
      let h5 := run_html5 v in
      L [s_ostr (substitute_xml v false); s_ostr (substitute_xml v true); sstr h; sstr h5;
         sstr (quoted_attribute_value v); sstr (quoted_attribute_value h); sstr (quoted_attribute_value h5)]
  | 13, s :: _ =>
      let v := gstr s in
      let x := substitute_xml v false in
      let h := run_html v in
      let h5 := run_html5 v in
      L [s_ostr x; s_ostr (substitute_xml v true); sstr h; sstr h5; sstr (quoted_attribute_value v);
         sopt s_readings x; s_readings h; s_readings h5; sstr (unescape v); sbool (no_bare_ref v); sbool (no_bare_ref_attr v); sbool (no_stray_hash v)]
  | 14, p :: t :: k :: _ => s_real (real_read_text (gbool p) (gstr t) (gstr k))
  | 15, q :: _ => s_attr (read_quoted_checked (gstr q))
  | 12, s :: _ =>
      let v := gstr s in L [sstr (read_text v); sstr (unescape v); sbool (no_bare_ref v)]
  | _, _ => A (-1)
  end.
