(* C07 commands of the extracted model (codes 7000 + sub). The external functions of Model/Dammit.v
   (lower, known, decode, sniff, chardet) are instantiated per command from tables recorded by the
   harness from the interpreter (str.lower, codecs.lookup, str(bytes, codec, errors)) and from the
   document generator's ground truth (declared encoding).  Lookups that miss fall back to:
   lower = identity, known = false, decode = None (failure), sniff = None, chardet = None. *)
From Coq Require Import List ZArith NArith Bool.
From BS Require Import Base.Sexp Base.Types Gen.T_C07 Model.Dammit Model.Sniff.
Import ListNotations.
Open Scope Z_scope.

Definition g_markup (kind data : sexp) : markup :=
  if Z.eqb (gZ kind) 0 then MStr (gstr data) else MBytes (gstr data).
Definition s_markup (m : markup) : sexp :=
  match m with MStr s => L [A 0; sstr s] | MBytes b => L [A 1; sstr b] end.
Definition markup_eqb (a b : markup) : bool :=
  match a, b with
  | MStr x, MStr y | MBytes x, MBytes y => str_eqb x y
  | _, _ => false
  end.
Definition g_mode (s : sexp) : dmode := if Z.eqb (gZ s) 0 then Strict else Replace.
Definition s_mode (m : dmode) : sexp := match m with Strict => A 0 | Replace => A 1 end.

(* lower: ((name lowered) ...) *)
Definition mk_lower (t : sexp) : str -> str :=
  let tbl := glist (gpair gstr gstr) t in
  fun s => match assocS s tbl with Some v => v | None => s end.
(* known: ((name 0|1) ...) *)
Definition mk_known (t : sexp) : str -> bool :=
  let tbl := glist (gpair gstr gbool) t in
  fun s => match assocS s tbl with Some v => v | None => false end.
(* decode: ((bytes ((codec mode (text)?) ...)) ...) *)
Definition mk_decode (t : sexp) : str -> str -> dmode -> option str :=
  let tbl := glist (gpair gstr (glist (fun e => (gstr (gnth e 0), g_mode (gnth e 1), gopt gstr (gnth e 2))))) t in
  fun bytes k m =>
    match assocS bytes tbl with
    | None => None
    | Some rows =>
        match find (fun r => str_eqb k (fst (fst r)) && dmode_eqb m (snd (fst r))) rows with
        | Some r => snd r
        | None => None
        end
    end.
(* sniff: ((kind data is_html (name)?) ...) *)
Definition mk_sniff (t : sexp) : markup -> bool -> option str :=
  let tbl := map (fun e => (g_markup (gnth e 0) (gnth e 1), gbool (gnth e 2), gopt gstr (gnth e 3))) (gL t) in
  fun m h =>
    match find (fun r => markup_eqb m (fst (fst r)) && Bool.eqb h (snd (fst r))) tbl with
    | Some r => snd r
    | None => None
    end.
(* chardet: ((kind data (name)?) ...) *)
Definition mk_chardet (t : sexp) : markup -> option str :=
  let tbl := map (fun e => (g_markup (gnth e 0) (gnth e 1), gopt gstr (gnth e 2))) (gL t) in
  fun m =>
    match find (fun r => markup_eqb m (fst r)) tbl with
    | Some r => snd r
    | None => None
    end.

Definition s_ostr (o : option str) : sexp := sopt sstr o.

Definition disp_c07 (sub : Z) (args : list sexp) : sexp :=
  match sub, args with
  (* (7000 kind data known override user exclude is_html sniff chardet lower known decode)
     -> (text? orig? flag declared? tried markup sniffed? candidates) *)
  | 0, kd :: data :: kn :: ov :: us :: ex :: html :: sn :: ch :: lo :: kw :: de :: _ =>
      let m := g_markup kd data in
      let a := mkargs (glist gstr kn) (glist gstr ov) (glist gstr us) (glist gstr ex) (gbool html) in
      let lower := mk_lower lo in let sniff := mk_sniff sn in let chardet := mk_chardet ch in
      let r := dammit lower (mk_known kw) (mk_decode de) sniff chardet m a in
      L [s_ostr (r_text r); s_ostr (r_orig r); sbool (r_flag r); s_ostr (r_declared_html r);
         slist (fun p => L [sstr (fst p); s_mode (snd p)]) (r_tried r); s_markup (r_markup r);
         s_ostr (det_sniffed m); slist sstr (encodings lower sniff chardet m a)]
  (* (7001 kind data known override user exclude is_html sniff chardet lower)
     -> (candidates sniffed? markup declared?) : EncodingDetector alone *)
  | 1, kd :: data :: kn :: ov :: us :: ex :: html :: sn :: ch :: lo :: _ =>
      let m := g_markup kd data in
      let a := mkargs (glist gstr kn) (glist gstr ov) (glist gstr us) (glist gstr ex) (gbool html) in
      let lower := mk_lower lo in let sniff := mk_sniff sn in let chardet := mk_chardet ch in
      L [slist sstr (encodings lower sniff chardet m a); s_ostr (det_sniffed m); s_markup (det_markup m);
         s_ostr (det_declared sniff m a)]
  (* (7002 kind data from_encoding? exclude sniff chardet lower known decode)
     -> (0) | (1 text orig? declared? flag) : prepare_markup as the constructor calls it *)
  | 2, kd :: data :: fe :: ex :: sn :: ch :: lo :: kw :: de :: _ =>
      match prepare_markup (mk_lower lo) (mk_known kw) (mk_decode de) (mk_sniff sn) (mk_chardet ch)
                           (g_markup kd data) (gopt gstr fe) (glist gstr ex) with
      | Rejected => L [A 0]
      | Prepared t o d f => L [A 1; sstr t; s_ostr o; s_ostr d; sbool f]
      end
  (* (7003 bytes) -> (stripped encoding?) *)
  | 3, data :: _ =>
      let r := strip_bom (gstr data) in L [sstr (fst r); s_ostr (snd r)]
  (* (7004 name lower known) -> codec? *)
  | 4, name :: lo :: kw :: _ => s_ostr (find_codec (mk_lower lo) (mk_known kw) (gstr name))
  (* (7005 kind data is_html entire lower) -> name? : EncodingDetector.find_declared_encoding, modelled scanners *)
  | 5, kd :: data :: html :: entire :: lo :: _ =>
      s_ostr (find_declared_encoding (mk_lower lo) (g_markup kd data) (gbool html) (gbool entire))
  (* 7006 / 7007 / 7008 = 7000 / 7001 / 7002 with the declared encoding computed by Model/Sniff.v
     (the sniff table argument is ignored) *)
  | 6, kd :: data :: kn :: ov :: us :: ex :: html :: _ :: ch :: lo :: kw :: de :: _ =>
      let m := g_markup kd data in
      let a := mkargs (glist gstr kn) (glist gstr ov) (glist gstr us) (glist gstr ex) (gbool html) in
      let lower := mk_lower lo in let sniff := sniff_model lower in let chardet := mk_chardet ch in
      let r := dammit lower (mk_known kw) (mk_decode de) sniff chardet m a in
      L [s_ostr (r_text r); s_ostr (r_orig r); sbool (r_flag r); s_ostr (r_declared_html r);
         slist (fun p => L [sstr (fst p); s_mode (snd p)]) (r_tried r); s_markup (r_markup r);
         s_ostr (det_sniffed m); slist sstr (encodings lower sniff chardet m a)]
  | 7, kd :: data :: kn :: ov :: us :: ex :: html :: _ :: ch :: lo :: _ =>
      let m := g_markup kd data in
      let a := mkargs (glist gstr kn) (glist gstr ov) (glist gstr us) (glist gstr ex) (gbool html) in
      let lower := mk_lower lo in let sniff := sniff_model lower in let chardet := mk_chardet ch in
      L [slist sstr (encodings lower sniff chardet m a); s_ostr (det_sniffed m); s_markup (det_markup m);
         s_ostr (det_declared sniff m a)]
  | 8, kd :: data :: fe :: ex :: _ :: ch :: lo :: kw :: de :: _ =>
      match prepare_markup (mk_lower lo) (mk_known kw) (mk_decode de) (sniff_model (mk_lower lo)) (mk_chardet ch)
                           (g_markup kd data) (gopt gstr fe) (glist gstr ex) with
      | Rejected => L [A 0]
      | Prepared t o d f => L [A 1; sstr t; s_ostr o; s_ostr d; sbool f]
      end
  | _, _ => A (-1)
  end.
