(* C11 commands of the extracted model: codes 11000 + sub.  Decoding / encoding only. *)
From Coq Require Import List ZArith NArith Bool.
From BS Require Import Base.Sexp Base.Types Model.Depth.
Import ListNotations.
Open Scope Z_scope.

Definition g_aval (s : sexp) : aval :=
  match gL s with
  | [A 0; x] => AvStr (gstr x)
  | [A 1; x] => AvList (glist gstr x)
  | [A 2; x] => AvCharset (gstr x)
  | [A 3; x] => AvContent (gstr x)
  | _ => AvNone
  end.
(* (0 cls text) | (1 name (prefix)? attrs (kx)? void hidden soup (kids...)) *)
Fixpoint g_elem (s : sexp) : elem :=
  match s with
  | L [A 1; n; p; a; k; v; h; so; L ks] =>
      ETag (gstr n) (gopt gstr p) (glist (gpair gstr g_aval) a) (gopt gbool k) (gbool v) (gbool h) (gbool so)
           (map g_elem ks)
  | L [A 0; c; t] => EStr (gN c) (gstr t)
  | _ => EStr 0%N []
  end.
Definition g_rule (s : sexp) : rule :=
  match gL s with
  | [A 0; x] => RStr (gstr x)
  | [A 1; b] => RBool (gbool b)
  | [A 2; b] => RFun (gbool b)
  | [A 3; x] => RRe (gstr x)
  | _ => RBool false
  end.
Definition g_spec (s : sexp) : spec :=
  match gL s with
  | [A 1; r] => SOne (g_rule r)
  | [A 2; l] => SList (glist gstr l)
  | _ => SNone
  end.
(* (name attrs string (limit)? recursive) *)
Definition g_crit (s : sexp) : crit :=
  mkcrit (g_spec (gnth s 0)) (glist (gpair gstr g_spec) (gnth s 1)) (g_spec (gnth s 2))
         (gopt gnat (gnth s 3)) (gbool (gnth s 4)).
Definition g_fmt (s : sexp) : fmt :=
  match gL s with
  | [A 0; b] => FmtName (gbool b)
  | [A 1; b] => FmtObject (gbool b)
  | _ => FmtName true
  end.
Definition g_enc (s : sexp) : enc_kind :=
  match gZ s with 0 => EncNone | 2 => EncPythonSpecific | _ => EncNormal end.
Fixpoint g_ins (s : sexp) : ins_arg :=
  match s with
  | L [A 0] => IStr
  | L [A 2; b] => IAttached (gbool b)
  | L [A 3; L l] => ISoup (map g_ins l)
  | _ => IFresh
  end.
Definition g_axis (s : sexp) : axis :=
  match gZ s with 0 => AxNext | 1 => AxPrevious | 2 => AxParents | 3 => AxNextSiblings | _ => AxPreviousSiblings end.
Definition g_iter (s : sexp) : iter_kind :=
  match gZ s with 0 => ItDescendants | 1 => ItSelfAndDescendants | 2 => ItChildren | 3 => ItLinks | _ => ItSelfAndLinks end.
Definition g_callback (s : sexp) : callback :=
  match gL s with
  | [A 0; n; a; sc] => CbStart (gstr n) (glist (gpair gstr gstr) a) (gbool sc)
  | [A 1; n] => CbEnd (gstr n)
  | [A 2] => CbData
  | _ => CbSpecial
  end.
(* (void pws containers cdata_list root) *)
Definition g_pconfig (s : sexp) : pconfig :=
  mkpc (glist gstr (gnth s 0)) (glist gstr (gnth s 1)) (glist gstr (gnth s 2))
       (glist (gpair gstr (glist gstr)) (gnth s 3)) (gstr (gnth s 4)).
Definition no_deep (_ _ : nat) : nat := 0%nat.
Definition no_eq (_ _ : nat) : bool := false.

Definition edit_depth (e : elem) (op : Z) (args : list sexp) : nat :=
  match op, args with
  | 0, _ => d_extract
  | 1, _ => d_decompose e
  | 2, l :: _ => d_insert (glist g_ins l)
  | 3, a :: _ => d_append (g_ins a)
  | 4, l :: _ => d_extend (glist g_ins l)
  | 5, l :: _ => d_insert_beside (glist g_ins l)
  | 6, l :: _ => d_replace_with (glist g_ins l)
  | 7, _ => d_wrap
  | 8, _ => d_unwrap e
  | 9, b :: _ => d_clear e (gbool b)
  | 10, _ => d_set_string e
  | 11, _ => d_smooth e
  | 12, _ => d_new_string
  | 13, _ => d_index
  | _, _ => 0%nat
  end.

(* one command on a decoded root *)
Definition on_root (root : elem) (sub : Z) (args : list sexp) : sexp :=
  match sub, args with
  | 0, path :: kind :: indent :: f :: enc :: _ =>
      let '(e, ctx) := locate [] root (glist gnat path) in
      let i := gbool indent in let f := g_fmt f in
      snat (match gZ kind with
            | 0 => d_decode e ctx i f (g_enc enc)
            | 1 => d_encode e ctx i f
            | 2 => d_prettify e ctx false f
            | 3 => d_prettify e ctx true f
            | 4 => d_decode_contents e ctx i f
            | 5 => d_encode_contents e ctx i f
            | _ => d_str e ctx
            end)
  | 1, path :: deep :: _ =>
      let '(e, ctx) := locate [] root (glist gnat path) in
      snat (if gbool deep then d_deepcopy e ctx else d_copy e ctx)
  | 2, _ => snat (d_getstate root)
  | 3, path :: which :: _ =>
      let '(e, _) := locate [] root (glist gnat path) in
      snat (match gZ which with 0 => d_get_text e | 1 => d_stripped_strings e | _ => d_string_property e end)
  | 4, path :: c :: mode :: _ =>
      let '(e, _) := locate [] root (glist gnat path) in
      let c := g_crit c in
      snat (match gZ mode with
            | 0 => d_find_all c e
            | 1 => d_find c e
            | 2 => match c_name c with SOne (RStr n) => d_tag_getattr n e | _ => 0%nat end
            | _ => d_tag_call c e
            end)
  | 5, path :: ax :: c :: one :: linked :: _ =>
      let p := glist gnat path in
      let elems := axis_elems root p (g_axis ax) (gbool linked) in
      let c := g_crit c in
      snat (if gbool one
            then match g_axis ax with AxParents => d_find_parent c elems | _ => d_find_one_axis c elems end
            else d_find_all_axis c elems)
  | 6, path :: k :: _ =>
      let '(e, _) := locate [] root (glist gnat path) in snat (d_iter (g_iter k) e)
  | 7, path :: op :: rest =>
      let '(e, _) := locate [] root (glist gnat path) in snat (edit_depth e (gZ op) rest)
  | 8, other :: _ => snat (d_eq root (g_elem other))
  | _, _ => A (-1)
  end.

Definition disp_c11 (sub : Z) (args : list sexp) : sexp :=
  match sub, args with
  (* (11100 root ((sub arg...) ...)) : many commands on one tree *)
  | 100, r :: cmds :: _ =>
      let root := g_elem r in
      slist (fun c => match gL c with A s :: a => on_root root s a | _ => A (-1) end) (gL cmds)
  | 9, cfg :: markup :: cbs :: _ =>
      snat (d_parse no_deep no_eq (g_pconfig cfg) (gstr markup) (glist g_callback cbs))
  | 10, cfg :: cbs :: _ =>
      snat (d_setstate no_deep no_eq (g_pconfig cfg) (glist g_callback cbs))
  | _, r :: rest => on_root (g_elem r) sub rest
  | _, _ => A (-1)
  end.
