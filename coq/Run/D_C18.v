(* C18 commands (codes 18000 + sub). *)
From Coq Require Import List ZArith NArith Bool Arith.
From BS Require Import Base.Sexp Base.Types Model.Build Model.Adapter Model.Pos Model.Tokenizer Run.D_C04.
Import ListNotations.
Open Scope Z_scope.

(* the tokenizer model's output (s_tev: Run/D_C04.v) *)
Definition s_item (it : item) : sexp :=
  L [snat (it_off it); s_pos (it_pos it); sstr (it_span it); slist s_tev (it_evs it)].
Definition s_status (st : status) : sexp :=
  A (match st with Running => 0 | Rejected => 1 | OutOfFuel => 2 | Stuck => 3 end).

Definition disp_c18 (sub : Z) (args : list sexp) : sexp :=
  match sub, args with
  (* (18000 text offsets) -> the property's (line, column) of each offset *)
  | 0, t :: offs :: _ => slist (fun o => s_pos (true_pos (gstr t) (gnat o))) (gL offs)
  (* (18001 tokens) -> getpos() before each token as the standard library's updatepos tracks it,
     and the property's position of each token's offset in the concatenated text *)
  | 1, toks :: _ =>
      let ts := glist gstr toks in
      L [slist s_pos (running start_pos ts);
         slist (fun o => s_pos (true_pos (concat ts) o)) (offsets 0 ts)]
  (* (18002 cfg hevs) -> (name, position) of every tag created, in creation order; ok *)
  | 2, c :: hs :: _ =>
      let '(o, _, ok) := adapter_run (g_acfg c) [] (glist g_hev hs) in
      L [slist s_tagpos (tag_positions o); sbool ok]
  (* (18003 text) -> Model.Tokenizer.tokenize with html.unescape left to the caller (identity here):
     the items (offset, getpos(), consumed slice, callbacks), the final status, cdata_elem, the unconsumed
     rawdata, the final offset and position *)
  | 3, t :: _ =>
      let '(its, g) := tokenize (fun v => v) (gstr t) in
      L [slist s_item its; s_status (gs_status g); sopt sstr (gs_cd g); sstr (gs_rest g); snat (gs_off g);
         s_pos (gs_pos g)]
  | _, _ => A (-1)
  end.
