(* C01 / C02 — the tree-editing calls of bs4/element.py as compositions of [extract] and
   [insert1], with the same index computations, argument handling and error checks as the
   code (insert 1919-1933, _insert's str / BeautifulSoup cases 1940-1951, append, extend,
   insert_before, insert_after, replace_with, wrap, unwrap, clear, decompose, smooth, .string=). *)
From Coq Require Import List NArith Bool Arith.
From BS Require Import Base.Sexp Model.Heap Model.Iter.
Import ListNotations.

Record st := mkst { hp : heap; nxt : nat }.     (* ids 0 .. nxt-1 have been allocated *)

Definition fuel_of (s : st) : nat := S (nxt s).

Definition alloc (s : st) (k : nkind) (t : str) : st * nat :=
  (mkst (upd (hp s) (nxt s) (blank k t)) (S (nxt s)), nxt s).

(* an argument of an editing call *)
Inductive arg := AEl (x : nat) | AStr (t : str).

Inductive res {X} := Ok (x : X) | ValueError.
Arguments res : clear implicits.

Definition with_heap (s : st) (h : heap) : st := mkst h (nxt s).

(* index of the last element of a list *)
Definition last_opt {X} (l : list X) : option X :=
  match rev l with [] => None | x :: _ => Some x end.

(* Tag.insert(position, children...) for children that are plain elements (not BeautifulSoup) *)
Fixpoint insert_elems (s : st) (self position : nat) (cs : list nat) : res (st * list nat) :=
  match cs with
  | [] => Ok (s, [])
  | c :: cs' =>
      match insert1 (fuel_of s) (hp s) self position c with
      | None => ValueError
      | Some h =>
          let s := with_heap s h in
          let position := match index_of c (kids (hp s self)) with Some i => S i | None => position end in
          match insert_elems s self position cs' with
          | Ok (s', ins) => Ok (s', c :: ins)
          | ValueError => ValueError
          end
      end
  end.

(* Tag._insert(position, new_child): str -> NavigableString, BeautifulSoup -> its children *)
Definition insert_arg (s : st) (self position : nat) (a : arg) : res (st * list nat) :=
  match a with
  | AStr t =>
      let '(s, x) := alloc s (KStr false) t in
      match insert1 (fuel_of s) (hp s) self position x with
      | None => ValueError
      | Some h => Ok (with_heap s h, [x])
      end
  | AEl x =>
      if Nat.eqb x self then ValueError
      else match kind (hp s x) with
           | KSoup => insert_elems s self position (kids (hp s x))
           | _ => match insert1 (fuel_of s) (hp s) self position x with
                  | None => ValueError
                  | Some h => Ok (with_heap s h, [x])
                  end
           end
  end.

(* Tag.insert(position, new_children...) *)
Fixpoint insert_args (s : st) (self position : nat) (args : list arg) : res (st * list nat) :=
  match args with
  | [] => Ok (s, [])
  | a :: args' =>
      match insert_arg s self position a with
      | ValueError => ValueError
      | Ok (s, just) =>
          let position :=
            match last_opt just with
            | Some e => match index_of e (kids (hp s self)) with Some i => S i | None => position end
            | None => position
            end in
          match insert_args s self position args' with
          | Ok (s', ins) => Ok (s', just ++ ins)
          | ValueError => ValueError
          end
      end
  end.

Definition op_insert (s : st) (self position : nat) (args : list arg) : res st :=
  match insert_args s self position args with Ok (s', _) => Ok s' | ValueError => ValueError end.

(* append(tag) = insert(len(contents), tag) *)
Definition op_append (s : st) (self : nat) (a : arg) : res st :=
  op_insert s self (length (kids (hp s self))) [a].

(* extend(tags): a Tag stands for list(tags.contents); each item is appended in turn *)
Fixpoint append_all (s : st) (self : nat) (args : list arg) : res st :=
  match args with
  | [] => Ok s
  | a :: args' =>
      match op_append s self a with
      | Ok s' => append_all s' self args'
      | ValueError => ValueError
      end
  end.
Definition op_extend_tag (s : st) (self other : nat) : res st :=
  append_all s self (map AEl (kids (hp s other))).
Definition op_extend_list (s : st) (self : nat) (args : list arg) : res st :=
  append_all s self args.

Definition is_self (x : nat) (a : arg) : bool :=
  match a with AEl y => Nat.eqb x y | AStr _ => false end.

Definition extract_arg (s : st) (a : arg) : st :=
  match a with
  | AEl y => with_heap s (extract (fuel_of s) (hp s) y)
  | AStr _ => s
  end.

(* insert_before(args...) *)
Fixpoint before_loop (s : st) (self parent : nat) (args : list arg) : res st :=
  match args with
  | [] => Ok s
  | a :: args' =>
      let s := extract_arg s a in
      match index_of self (kids (hp s parent)) with
      | None => ValueError
      | Some index =>
          match insert_args s parent index [a] with
          | Ok (s', _) => before_loop s' self parent args'
          | ValueError => ValueError
          end
      end
  end.
Definition op_insert_before (s : st) (self : nat) (args : list arg) : res st :=
  match par (hp s self) with
  | None => ValueError
  | Some parent =>
      if existsb (is_self self) args then ValueError else before_loop s self parent args
  end.

(* insert_after(args...): each successor goes after everything inserted so far *)
Fixpoint after_loop (s : st) (anchor parent : nat) (args : list arg) : res st :=
  match args with
  | [] => Ok s
  | a :: args' =>
      let s := extract_arg s a in
      match index_of anchor (kids (hp s parent)) with
      | None => ValueError
      | Some index =>
          match insert_args s parent (S index) [a] with
          | Ok (s', just) =>
              after_loop s' (match last_opt just with Some e => e | None => anchor end) parent args'
          | ValueError => ValueError
          end
      end
  end.
Definition op_insert_after (s : st) (self : nat) (args : list arg) : res st :=
  match par (hp s self) with
  | None => ValueError
  | Some parent =>
      if existsb (is_self self) args then ValueError else after_loop s self parent args
  end.

(* extract() *)
Definition op_extract (s : st) (x : nat) : res st :=
  Ok (with_heap s (extract (fuel_of s) (hp s) x)).

(* replace_with(args...) *)
Definition op_replace_with (s : st) (self : nat) (args : list arg) : res st :=
  match par (hp s self) with
  | None => ValueError
  | Some old_parent =>
      match args with
      | [AEl y] => if Nat.eqb y self then Ok s else
                   if Nat.eqb y old_parent then ValueError else
                   match index_of self (kids (hp s old_parent)) with
                   | None => ValueError
                   | Some my_index =>
                       let s := with_heap s (extract (fuel_of s) (hp s) self) in
                       op_insert s old_parent my_index args
                   end
      | _ =>
          if existsb (is_self old_parent) args then ValueError else
          match index_of self (kids (hp s old_parent)) with
          | None => ValueError
          | Some my_index =>
              let s := with_heap s (extract (fuel_of s) (hp s) self) in
              op_insert s old_parent my_index args
          end
      end
  end.

(* wrap(wrap_inside) *)
Definition op_wrap (s : st) (self w : nat) : res st :=
  match op_replace_with s self [AEl w] with
  | Ok s' => op_append s' w (AEl self)
  | ValueError => ValueError
  end.

(* unwrap() *)
Fixpoint unwrap_loop (s : st) (parent my_index : nat) (children_reversed : list nat) : res st :=
  match children_reversed with
  | [] => Ok s
  | c :: cs =>
      match op_insert s parent my_index [AEl c] with
      | Ok s' => unwrap_loop s' parent my_index cs
      | ValueError => ValueError
      end
  end.
Definition op_unwrap (s : st) (self : nat) : res st :=
  match par (hp s self) with
  | None => ValueError
  | Some my_parent =>
      match index_of self (kids (hp s my_parent)) with
      | None => ValueError
      | Some my_index =>
          let s := with_heap s (extract (fuel_of s) (hp s) self) in
          unwrap_loop s my_parent my_index (rev (kids (hp s self)))
      end
  end.

(* decompose(): extract, collect the element and its descendants (Tag.descendants), wipe them all *)
Definition decompose_h (fuel : nat) (h : heap) (x : nat) : heap :=
  let h := extract fuel h x in
  fold_left set_dead (x :: (if is_tag h x then descendants fuel h x else [])) h.
Definition op_decompose (s : st) (x : nat) : res st :=
  Ok (with_heap s (decompose_h (fuel_of s) (hp s) x)).

(* clear(decompose=False/True) *)
Definition op_clear (s : st) (self : nat) (decomp : bool) : res st :=
  Ok (with_heap s (fold_left (fun h c => if decomp then decompose_h (fuel_of s) h c
                                          else extract (fuel_of s) h c)
                             (kids (hp s self)) (hp s))).

(* tag.string = s *)
Definition op_set_string (s : st) (self : nat) (t : str) : res st :=
  match op_clear s self false with
  | Ok s' => let '(s', x) := alloc s' (KStr false) t in op_append s' self (AEl x)
  | ValueError => ValueError
  end.

(* smooth(): recursively merge adjacent non-preformatted strings *)
Definition plain_str (h : heap) (x : nat) : bool :=
  match kind (h x) with KStr false => true | _ => false end.

Fixpoint marked_positions (h : heap) (i : nat) (l : list nat) : list nat :=
  match l with
  | a :: ((b :: _) as l') =>
      if plain_str h a && plain_str h b then i :: marked_positions h (S i) l'
      else marked_positions h (S i) l'
  | _ => []
  end.

Definition merge_at (s : st) (self i : nat) : st :=
  let a := nth i (kids (hp s self)) 0 in
  let b := nth (S i) (kids (hp s self)) 0 in
  let s := with_heap s (extract (fuel_of s) (hp s) b) in
  let '(s, n) := alloc s (KStr false) (txt (hp s a) ++ txt (hp s b)) in
  match op_replace_with s a [AEl n] with Ok s' => s' | ValueError => s end.

Fixpoint smooth_rec (fuel : nat) (s : st) (self : nat) : st :=
  match fuel with
  | O => s
  | S f =>
      let s := fold_left (fun s a => if is_tag (hp s) a then smooth_rec f s a else s)
                         (kids (hp s self)) s in
      fold_left (fun s i => merge_at s self i)
                (rev (marked_positions (hp s) 0 (kids (hp s self)))) s
  end.
Definition op_smooth (s : st) (self : nat) : res st := Ok (smooth_rec (fuel_of s) s self).
