(* C09 — an indexed variant of the particle scanner, used only to run the extracted model faster.
   The alternation has ~1500 particles; [find_particle] tries them all at every position. Here the particles
   are bucketed once by (first code point mod 256) and only the bucket of the character at hand is searched,
   in the original order. Proofs/EntitiesProofs.v proves the two scanners equal for every table and string
   (C09_indexed_scanner_equal), so everything proved about Model/EntitySubst.v holds of what is run. *)
From Coq Require Import List NArith Bool Arith.
From BS Require Import Base.Sexp Base.Types Base.Reader Gen.T_C09 Model.EntitySubst.
Import ListNotations.
Open Scope N_scope.

Definition in_bucket (k : N) (p : particle) : bool :=
  match fst p with
  | [] => true                      (* an empty sequence would match everywhere: keep it in every bucket *)
  | h :: _ => (h mod 256) =? k
  end.

Definition mk_index (ps : list particle) : list (list particle) :=
  map (fun k => filter (in_bucket (N.of_nat k)) ps) (seq 0 256).

Definition find_particle_ix (ix : list (list particle)) (c : N) (s' : str) : option particle :=
  find (fun p => p_matches p (c :: s')) (nth (N.to_nat (c mod 256)) ix []).

Fixpoint sub_particles_ix (ix : list (list particle)) (skip : nat) (s : str) : str :=
  match s with
  | [] => []
  | c :: s' =>
      match skip with
      | S k => sub_particles_ix ix k s'
      | O =>
          match find_particle_ix ix c s' with
          | Some p => html_entity_repl (fst p) ++ sub_particles_ix ix (pred (length (fst p))) s'
          | None => c :: sub_particles_ix ix O s'
          end
      end
  end.

(* computed once when the extracted program starts *)
Definition html_index_amp : list (list particle) := mk_index html_particles_amp.
Definition html_index : list (list particle) := mk_index html_particles.

Definition substitute_html_ix (s : str) : str := sub_particles_ix html_index_amp O s.
Definition substitute_html5_ix (s : str) : str := sub_particles_ix html_index O (escape_any_entity s).
