(* C18 / C04 — what Model/Tokenizer.v was written against: for every compiled regular expression and every method of
   the installed standard-library tokenizer that the model follows, the first 16 hex digits of sha256 over its
   (flags, pattern string) resp. its source text, as computed by translator/gen_c18.py for Python 3.12.1.
   Gen/T_C18.v carries the values of the interpreter that runs the check; Props/C18.v proves both tables equal.
   When this breaks: re-read the changed pattern / method, update the scanner in Model/Tokenizer.v, then regenerate
   this table with  translator/gen_c18.py --pins . *)
From Coq Require Import String.
From Coq Require Import List NArith.
From BS Require Import Base.Sexp Base.Lit.
Import ListNotations.
Open Scope string_scope.

Definition pinned_patterns : list (str * str) := [
  (lit "html.parser.interesting_normal", lit "e5c5c44dfbe527d8");
  (lit "html.parser.incomplete", lit "ce34c33a1a0b4fb0");
  (lit "html.parser.entityref", lit "5b3a6933b4b9959a");
  (lit "html.parser.charref", lit "225b36fb9274baaf");
  (lit "html.parser.starttagopen", lit "2d320e643fe2ef97");
  (lit "html.parser.piclose", lit "82bd48183c4b38d2");
  (lit "html.parser.commentclose", lit "92dc18097266f1bc");
  (lit "html.parser.tagfind_tolerant", lit "c20aefa4d76e5bac");
  (lit "html.parser.attrfind_tolerant", lit "40baf9b38aa8d688");
  (lit "html.parser.locatestarttagend_tolerant", lit "bcafa132a908c308");
  (lit "html.parser.endendtag", lit "82bd48183c4b38d2");
  (lit "html.parser.endtagfind", lit "3eede9fd7c4e8ee8");
  (lit "_markupbase._declname_match", lit "4074425c28fab67e");
  (lit "_markupbase._declstringlit_match", lit "7746759f3611467d");
  (lit "_markupbase._commentclose", lit "92dc18097266f1bc");
  (lit "_markupbase._markedsectionclose", lit "9a1713cc47de363b");
  (lit "_markupbase._msmarkedsectionclose", lit "3db29768f1125449");
  (lit "set_cdata_mode(script).interesting", lit "806e599ce390a8ab");
  (lit "set_cdata_mode(style).interesting", lit "806e599ce390a8ab")
].
Definition pinned_sources : list (str * str) := [
  (lit "HTMLParser.reset", lit "e92d4d0c90908244");
  (lit "HTMLParser.feed", lit "5a0a01762ed0978f");
  (lit "HTMLParser.close", lit "3e2d093980b7d56b");
  (lit "HTMLParser.set_cdata_mode", lit "87af357bbcbc09be");
  (lit "HTMLParser.clear_cdata_mode", lit "b47223fb92aa4a31");
  (lit "HTMLParser.goahead", lit "2f78d0e3513a3894");
  (lit "HTMLParser.parse_html_declaration", lit "c1e4a279b87ce23d");
  (lit "HTMLParser.parse_bogus_comment", lit "99b7f1c5b560cfcf");
  (lit "HTMLParser.parse_pi", lit "e0d31c5ebfc4df46");
  (lit "HTMLParser.parse_starttag", lit "7f0a2a574921a9c4");
  (lit "HTMLParser.check_for_whole_start_tag", lit "e080ae0425047d1a");
  (lit "HTMLParser.parse_endtag", lit "bf1b852662410011");
  (lit "HTMLParser.handle_startendtag", lit "cfc5cc290a3940f4");
  (lit "ParserBase.reset", lit "9d5e6f261098b168");
  (lit "ParserBase.getpos", lit "bc99a226a99b9ea2");
  (lit "ParserBase.updatepos", lit "57fd2d359e8b8b52");
  (lit "ParserBase.parse_marked_section", lit "f63abef5f69667be");
  (lit "ParserBase.parse_comment", lit "9be1f8480a0fe3b1");
  (lit "ParserBase._scan_name", lit "8e5a7e0108e21dfc")
].
