(* C18 / C04 — the standard library's tokenizer, as installed (Python 3.12.1: html/parser.py +
   _markupbase.py), driven the way bs4/builder/_htmlparser.py drives it: BeautifulSoupHTMLParser
   (which overrides only callbacks, never a parse_* method), convert_charrefs=False, feed(markup)
   then close(), i.e. goahead(0) on the whole text, then goahead(1) on what goahead(0) left.

   Input: the text as code points.  Output: the list of [item]s — one per call of updatepos(i, j)
   with i < j — each with the offset i, the value of getpos() while the callbacks of that slice
   fire (= the position tracked up to i), the consumed slice rawdata[i:j] and the callbacks fired
   for it; and the final state (cdata_elem, unconsumed rawdata, AssertionError or not).

   Every function follows one method / one compiled regular expression of the source; the regexes
   are hand-written scanners whose backtracking behaviour is spelled out in the comments.  The
   pattern strings the scanners were written for are pinned by translator/gen_c18.py (Gen/T_C18.v)
   and Props/C18.v; the two Unicode tables ([space_cps] = what \s / str.isspace / str.strip accept,
   [ci_extra] = what re.IGNORECASE adds to ASCII case folding) are measured from the running
   interpreter over all code points and proved equal to the ones below.

   Not modelled here, passed through instead:
   * html.unescape on attribute values: the parameter [unesc];
   * str.lower() on tag / attribute names is modelled on ASCII letters ([ascii_lower]); its effect
     on other characters is a per-character-class map applied afterwards (the harness applies
     Python's lower() to the model's names; the translator checks no other character lower-cases
     to an ASCII letter of "script", "style", "doctype", which is where the tokenizer *compares*
     lower-cased text).
   No proofs in this file. *)
From Coq Require Import List NArith Bool Arith.
From BS Require Import Base.Sexp Base.Types Base.Reader Model.Pos.
Import ListNotations.
Open Scope N_scope.

Definition tpos := (N * N)%type.

(* the callbacks *)
Inductive tev :=
| TStart (name : str) (attrs : list (str * option str))      (* handle_starttag *)
| TStartEnd (name : str) (attrs : list (str * option str))   (* handle_startendtag *)
| TEnd (name : str)
| TData (s : str)
| TCharref (name : str)
| TEntityref (name : str)
| TComment (s : str)
| TDecl (s : str)
| TUnknownDecl (s : str)
| TPi (s : str).

Record item := mkitem { it_off : nat; it_pos : tpos; it_span : str; it_evs : list tev }.

(* ---- character classes ---- *)
(* \s of a str pattern = str.isspace() = what str.strip() strips (measured: Gen/T_C18.v) *)
Definition space_cps : list N :=
  [9; 10; 11; 12; 13; 28; 29; 30; 31; 32; 133; 160; 5760; 8192; 8193; 8194; 8195; 8196; 8197; 8198; 8199;
   8200; 8201; 8202; 8232; 8233; 8239; 8287; 12288].
Definition is_space (c : N) : bool := memN c space_cps.
Definition name_char (c : N) : bool := negb (memN c [9; 10; 13; 12; 32; 47; 62; 0]).   (* [^\t\n\r\f />\x00] *)
Definition ws_or_slash (c : N) : bool := is_space c || (c =? 47).                      (* [\s/] *)
Definition attr_first (c : N) : bool := negb (is_space c || (c =? 47) || (c =? 62)).   (* [^\s/>] *)
Definition attr_rest (c : N) : bool := negb (is_space c || (c =? 47) || (c =? 61) || (c =? 62)).   (* [^\s/=>] *)
Definition bare_char (c : N) : bool := negb ((c =? 62) || is_space c).                 (* [^>\s] *)
Definition lookbehind_ok (c : N) : bool := (c =? 39) || (c =? 34) || is_space c || (c =? 47).   (* lookbehind: one of SQ DQ \s / *)
Definition etag_char (c : N) : bool := is_alnum c || memN c [45; 46; 58; 95].          (* [-.a-zA-Z0-9:_] *)
Definition declname_char (c : N) : bool := is_alnum c || memN c [45; 95; 46].          (* [-_.a-zA-Z0-9] *)
Definition is_dashdot (c : N) : bool := (c =? 45) || (c =? 46).
Definition not_interesting (c : N) : bool := negb ((c =? 60) || (c =? 38)).            (* [^&<] *)

Definition lower1 (c : N) : N := if is_upper c then c + 32 else c.
Definition ascii_lower (s : str) : str := map lower1 s.

(* re.IGNORECASE on a str pattern: a pattern letter also matches these (measured: Gen/T_C18.v) *)
Definition ci_extra : list (N * list N) := [(105, [304; 305]); (107, [8490]); (115, [383])].
Definition ci_eq (p c : N) : bool :=
  (lower1 c =? p) || memN c (match assocN p ci_extra with Some l => l | None => [] end).

Definition cdata_content_elements : list str := [[115; 99; 114; 105; 112; 116]; [115; 116; 121; 108; 101]].

(* ---- generic scanners ---- *)
(* the longest prefix whose characters satisfy p, and the rest: a greedy X* that is never given back *)
Fixpoint span (p : N -> bool) (s : str) : str * str :=
  match s with
  | c :: r => if p c then let '(a, b) := span p r in (c :: a, b) else ([], s)
  | [] => ([], [])
  end.
(* str.find(c) *)
Fixpoint index_of (c : N) (s : str) : option nat :=
  match s with
  | [] => None
  | x :: r => if x =? c then Some 0%nat else option_map S (index_of c r)
  end.
(* pattern.search: leftmost start at which [m] matches; (start, end) *)
Fixpoint search (m : str -> option nat) (s : str) : option (nat * nat) :=
  match m s with
  | Some l => Some (0%nat, l)
  | None => match s with
            | [] => None
            | _ :: r => match search m r with Some (a, b) => Some (S a, S b) | None => None end
            end
  end.
Fixpoint has_prefix (p s : str) : bool :=
  match p, s with
  | [], _ => true
  | x :: p', y :: s' => (x =? y) && has_prefix p' s'
  | _ :: _, [] => false
  end.
Fixpoint lstrip (s : str) : str :=
  match s with c :: r => if is_space c then lstrip r else s | [] => [] end.
Definition strip (s : str) : str := rev (lstrip (rev (lstrip s))).

(* (?:\s|/(?!>))* : whitespace, and every '/' not directly followed by '>' (a '/' at the very end counts) *)
Fixpoint skip_ws_slash (s : str) : str * str :=
  match s with
  | c :: r =>
      if is_space c then let '(a, b) := skip_ws_slash r in (c :: a, b)
      else if c =? 47 then
        match r with
        | d :: _ => if d =? 62 then ([], s) else let '(a, b) := skip_ws_slash r in (c :: a, b)
        | [] => ([c], [])
        end
      else ([], s)
  | [] => ([], [])
  end.

(* ---- attributes ----
   The optional value group  \s*=+\s*( SQ[^SQ]*SQ | DQ[^DQ]*DQ | (?![SQ DQ])[^>\s]* )  at s (SQ, DQ: the single and
   the double quote); result: the value (quotes
   stripped, as parse_starttag does) and what follows it.  Backtracking, in the engine's order: an
   opening quote without its partner makes all three alternatives fail; the engine then gives back the
   whitespace after '=' one character at a time (the bare alternative matches the empty string in front
   of the last whitespace character, which the following (?:\s|/(?!>))* takes again), and if there was
   none, one '=' of a run of at least two (the bare alternative then takes '=' and everything up to '>'
   or whitespace); a single '=' cannot be given back: the group does not take part. *)
Definition scan_value (s : str) : option (str * str) :=
  let '(_, s1) := span is_space s in
  let '(eqs, s2) := span (N.eqb 61) s1 in
  match eqs with
  | [] => None
  | _ :: eqs' =>
      let '(w2, s3) := span is_space s2 in
      match s3 with
      | [] => Some ([], [])
      | q :: s4 =>
          if (q =? 39) || (q =? 34) then
            let '(v, s5) := span (fun c => negb (c =? q)) s4 in
            match s5 with
            | _ :: s6 => Some (v, s6)
            | [] =>
                match w2 with
                | _ :: _ => Some ([], s3)
                | [] => match eqs' with
                        | _ :: _ => let '(v', s5') := span bare_char s3 in Some (61 :: v', s5')
                        | [] => None
                        end
                end
            end
          else Some (span bare_char s3)
      end
  end.

(* one attribute at s, the character before s being prev:
   ( lookbehind [^\s/>][^\s/=>]* )(value group)?(?:\s|/(?!>)) repeated  ->  name, value (None: no group), rest *)
Definition scan_attr (prev : N) (s : str) : option (str * option str * str) :=
  match s with
  | c :: s1 =>
      if lookbehind_ok prev && attr_first c then
        let '(nm, s2) := span attr_rest s1 in
        match scan_value s2 with
        | Some (v, s3) => Some (c :: nm, Some v, snd (skip_ws_slash s3))
        | None => Some (c :: nm, None, snd (skip_ws_slash s2))
        end
      else None
  | [] => None
  end.

(* the (?: attribute )* loop of locatestarttagend_tolerant from index k of s0; returns where it stops *)
Fixpoint locate_attrs (fuel : nat) (s0 : str) (k : nat) : nat :=
  match fuel with
  | O => k
  | S f =>
      let s := skipn k s0 in
      match scan_attr (nth (k - 1) s0 0) s with
      | Some (_, _, s') => locate_attrs f s0 (k + (length s - length s'))%nat
      | None => k
      end
  end.

(* locatestarttagend_tolerant.match(rawdata, i).end() - i, for s0 = rawdata[i:] = '<' letter ... *)
Definition locate_end (s0 : str) : nat :=
  let '(nm, s1) := span name_char (tl s0) in
  let '(w, _) := span ws_or_slash s1 in
  let j := locate_attrs (length s0) s0 (1 + length nm + length w)%nat in
  (j + length (fst (span is_space (skipn j s0))))%nat.

(* check_for_whole_start_tag: None = -1 *)
Definition check_whole (s0 : str) : option nat :=
  let j := locate_end s0 in
  match skipn j s0 with
  | [] => None
  | c :: r =>
      if c =? 62 then Some (S j)
      else if c =? 47 then
        match r with
        | d :: _ => if d =? 62 then Some (S (S j)) else None
        | [] => None
        end
      else if is_alpha c || (c =? 61) then None
      else Some (match j with O => 1%nat | S _ => j end)
  end.

Inductive pres :=
| PNeg                                                       (* -1 *)
| PRej                                                       (* AssertionError *)
| PTo (k : nat) (evs : list tev) (cd : option (option str)). (* new i - old i; callbacks; cdata_elem assignment *)

Section WithUnescape.
Variable unesc : str -> str.                                  (* html.unescape *)

Definition unesc_value (v : str) : str := match v with [] => [] | _ => unesc v end.   (* if attrvalue: ... *)

(* the while k < endpos loop of parse_starttag *)
Fixpoint attr_loop (fuel : nat) (e : nat) (s0 : str) (k : nat) : list (str * option str) * nat :=
  match fuel with
  | O => ([], k)
  | S f =>
      if (k <? e)%nat then
        let s := skipn k s0 in
        match scan_attr (nth (k - 1) s0 0) s with
        | None => ([], k)
        | Some (nm, v, s') =>
            let '(l, kf) := attr_loop f e s0 (k + (length s - length s'))%nat in
            ((ascii_lower nm, option_map unesc_value v) :: l, kf)
        end
      else ([], k)
  end.

Definition s_gt : str := [62].
Definition s_slash_gt : str := [47; 62].

(* parse_starttag(i), s0 = rawdata[i:] = '<' letter ... *)
Definition parse_starttag (s0 : str) : pres :=
  match check_whole s0 with
  | None => PNeg
  | Some e =>
      let '(nm, s1) := span name_char (tl s0) in                 (* tagfind_tolerant.match(rawdata, i+1) *)
      let '(w, _) := skip_ws_slash s1 in
      let tag := ascii_lower nm in
      let '(attrs, k) := attr_loop (length s0) e s0 (1 + length nm + length w)%nat in
      let endtxt := strip (firstn (e - k) (skipn k s0)) in       (* rawdata[k:endpos].strip() *)
      if str_eqb endtxt s_gt then
        PTo e [TStart tag attrs] (if memS tag cdata_content_elements then Some (Some tag) else None)
      else if str_eqb endtxt s_slash_gt then PTo e [TStartEnd tag attrs] None
      else PTo e [TData (firstn e s0)] None
  end.
End WithUnescape.

(* endtagfind.match(rawdata, i): </\s*([a-zA-Z][-.a-zA-Z0-9:_]* )\s*> ; the name *)
Definition endtagfind (s0 : str) : option str :=
  let '(_, s1) := span is_space (skipn 2 s0) in
  match s1 with
  | c :: s2 =>
      if is_alpha c then
        let '(nm, s3) := span etag_char s2 in
        let '(_, s4) := span is_space s3 in
        match s4 with
        | d :: _ => if d =? 62 then Some (c :: nm) else None
        | [] => None
        end
      else None
  | [] => None
  end.

(* parse_bogus_comment(i) for s0 = rawdata[i:] = "<!" ... or "</" ... *)
Definition parse_bogus_comment (s0 : str) : pres :=
  match index_of 62 (skipn 2 s0) with
  | None => PNeg
  | Some p => PTo (S (S (S p))) [TComment (firstn p (skipn 2 s0))] None
  end.

Definition s_empty_end : str := [60; 47; 62].                   (* "</>" *)

(* parse_endtag(i), s0 = rawdata[i:] = "</" ... *)
Definition parse_endtag (cd : option str) (s0 : str) : pres :=
  match index_of 62 (tl s0) with                                 (* endendtag.search(rawdata, i+1) *)
  | None => PNeg
  | Some g0 =>
      let g := S (S g0) in                                       (* gtpos - i *)
      match endtagfind s0 with
      | Some nm =>
          let elem := ascii_lower nm in
          match cd with
          | Some c => if str_eqb elem c then PTo g [TEnd elem] (Some None)
                      else PTo g [TData (firstn g s0)] None
          | None => PTo g [TEnd elem] (Some None)
          end
      | None =>
          match cd with
          | Some _ => PTo g [TData (firstn g s0)] None
          | None =>
              match skipn 2 s0 with
              | c :: _ =>
                  if is_alpha c then                             (* tagfind_tolerant.match(rawdata, i+2) *)
                    let '(nm, s1) := span name_char (skipn 2 s0) in
                    let '(w, s2) := skip_ws_slash s1 in
                    match index_of 62 s2 with                    (* rawdata.find('>', namematch.end()) *)
                    | Some p => PTo (S (2 + length nm + length w + p))%nat [TEnd (ascii_lower nm)] None
                    | None => PRej                               (* not reachable: a '>' follows *)
                    end
                  else if has_prefix s_empty_end s0 then PTo 3%nat [] None
                  else parse_bogus_comment s0
              | [] => parse_bogus_comment s0
              end
          end
      end
  end.

(* _commentclose.match at s:  --\s*>  *)
Definition commentclose_at (s : str) : option nat :=
  match s with
  | 45 :: 45 :: r =>
      let '(w, r2) := span is_space r in
      match r2 with
      | d :: _ => if d =? 62 then Some (3 + length w)%nat else None
      | [] => None
      end
  | _ => None
  end.
(* parse_comment(i), s0 = "<!--" ... *)
Definition parse_comment (s0 : str) : pres :=
  match search commentclose_at (skipn 4 s0) with
  | None => PNeg
  | Some (a, b) => PTo (4 + b)%nat [TComment (firstn a (skipn 4 s0))] None
  end.

(* parse_pi(i), s0 = "<?" ... *)
Definition parse_pi (s0 : str) : pres :=
  match index_of 62 (skipn 2 s0) with
  | None => PNeg
  | Some p => PTo (S (S (S p))) [TPi (firstn p (skipn 2 s0))] None
  end.

(* _markedsectionclose  ]\s*]\s*>   and   _msmarkedsectionclose  ]\s*>  *)
Definition msclose_at (s : str) : option nat :=
  match s with
  | 93 :: r =>
      let '(w, r2) := span is_space r in
      match r2 with
      | d :: _ => if d =? 62 then Some (2 + length w)%nat else None
      | [] => None
      end
  | _ => None
  end.
Definition markedclose_at (s : str) : option nat :=
  match s with
  | 93 :: r =>
      let '(w, r2) := span is_space r in
      match msclose_at r2 with
      | Some l => Some (1 + length w + l)%nat
      | None => None
      end
  | _ => None
  end.

Inductive scanned := SNeg | SRej | SName (name : str) (len : nat).
(* _scan_name(i, declstartpos) on s = rawdata[i:] *)
Definition scan_name (s : str) : scanned :=
  match s with
  | [] => SNeg
  | c :: r =>
      if is_alpha c then
        let '(nm, s1) := span declname_char r in
        let '(w, s2) := span is_space s1 in
        match s2 with
        | [] => SNeg                                             (* end of buffer *)
        | _ => SName (ascii_lower (c :: nm)) (1 + length nm + length w)%nat
        end
      else SRej                                                  (* "expected name token" *)
  end.

Definition lit_temp : str := [116; 101; 109; 112].
Definition lit_cdata : str := [99; 100; 97; 116; 97].
Definition lit_ignore : str := [105; 103; 110; 111; 114; 101].
Definition lit_include : str := [105; 110; 99; 108; 117; 100; 101].
Definition lit_rcdata : str := [114; 99; 100; 97; 116; 97].
Definition lit_if : str := [105; 102].
Definition lit_else : str := [101; 108; 115; 101].
Definition lit_endif : str := [101; 110; 100; 105; 102].

(* parse_marked_section(i), s0 = "<![" ... *)
Definition parse_marked_section (s0 : str) : pres :=
  match scan_name (skipn 3 s0) with
  | SNeg => PNeg
  | SRej => PRej
  | SName name _ =>
      let closer :=
        if memS name [lit_temp; lit_cdata; lit_ignore; lit_include; lit_rcdata] then Some markedclose_at
        else if memS name [lit_if; lit_else; lit_endif] then Some msclose_at
        else None in
      match closer with
      | None => PRej                                             (* "unknown status keyword" *)
      | Some m =>
          match search m (skipn 3 s0) with
          | None => PNeg
          | Some (a, b) => PTo (3 + b)%nat [TUnknownDecl (firstn a (skipn 3 s0))] None
          end
      end
  end.

Definition s_comment_open : str := [60; 33; 45; 45].             (* "<!--" *)
Definition s_marked_open : str := [60; 33; 91].                  (* "<![" *)
Definition s_doctype_open : str := [60; 33; 100; 111; 99; 116; 121; 112; 101].   (* "<!doctype" *)

(* parse_html_declaration(i), s0 = "<!" ... *)
Definition parse_html_declaration (s0 : str) : pres :=
  if has_prefix s_comment_open s0 then parse_comment s0
  else if has_prefix s_marked_open s0 then parse_marked_section s0
  else if str_eqb (ascii_lower (firstn 9 s0)) s_doctype_open then
    match index_of 62 (skipn 9 s0) with
    | None => PNeg
    | Some p => PTo (S (9 + p))%nat [TDecl (firstn (7 + p) (skipn 2 s0))] None
    end
  else parse_bogus_comment s0.

(* charref.match at "&#" r2:  &#(?:[0-9]+|[xX][0-9a-fA-F]+)[^0-9a-fA-F] ; the name and the terminator.
   Giving digits back never helps: the terminator would then be a digit. *)
Definition charref_match (r2 : str) : option (str * N) :=
  let '(ds, t) := span is_digit r2 in
  match ds with
  | _ :: _ => match t with
              | c :: _ => if is_hexd c then None else Some (ds, c)
              | [] => None
              end
  | [] =>
      match r2 with
      | x :: r3 =>
          if (x =? 120) || (x =? 88) then
            let '(hs, t') := span is_hexd r3 in
            match hs, t' with
            | _ :: _, c :: _ => Some (x :: hs, c)
            | _, _ => None
            end
          else None
      | [] => None
      end
  end.

(* the last '-' or '.' of a run, with what precedes it *)
Fixpoint last_dashdot (run : str) : option (str * N) :=
  match run with
  | [] => None
  | c :: r => match last_dashdot r with
              | Some (pre, d) => Some (c :: pre, d)
              | None => if is_dashdot c then Some ([], c) else None
              end
  end.
(* entityref.match at "&" r1:  &([a-zA-Z][-.a-zA-Z0-9]* )[^a-zA-Z0-9] ; the name and the terminator.
   When the greedy name reaches the end of the buffer the engine gives characters back until the one
   given back is not alphanumeric, i.e. the last '-' or '.' of the name. *)
Definition entityref_match (r1 : str) : option (str * N) :=
  match r1 with
  | c :: r2 =>
      if is_alpha c then
        let '(run, t) := span is_namechar r2 in
        match t with
        | d :: _ => Some (c :: run, d)
        | [] => match last_dashdot run with
                | Some (pre, d) => Some (c :: pre, d)
                | None => None
                end
        end
      else None
  | [] => None
  end.

(* set_cdata_mode: interesting = re.compile(r'</\s*%s\s*>' % elem, re.I); match at s *)
Fixpoint ci_prefix (pat s : str) : option str :=
  match pat with
  | [] => Some s
  | p :: pat' => match s with
                 | c :: s' => if ci_eq p c then ci_prefix pat' s' else None
                 | [] => None
                 end
  end.
Definition cdata_close_at (elem s : str) : bool :=
  match s with
  | 60 :: 47 :: s1 =>
      match ci_prefix elem (snd (span is_space s1)) with
      | Some s3 => match snd (span is_space s3) with
                   | d :: _ => d =? 62
                   | [] => false
                   end
      | None => false
      end
  | _ => false
  end.
(* interesting.search in cdata mode: the text before the match and the rest from the match on *)
Fixpoint find_cdata_close (elem s : str) : option (str * str) :=
  if cdata_close_at elem s then Some ([], s)
  else match s with
       | [] => None
       | c :: r => match find_cdata_close elem r with
                   | Some (a, b) => Some (c :: a, b)
                   | None => None
                   end
       end.

(* self.interesting.search(rawdata, i): None = no match in cdata mode (break) *)
Definition find_interesting (cd : option str) (s : str) : option (str * str) :=
  match cd with
  | None => Some (span not_interesting s)
  | Some e => find_cdata_close e s
  end.

(* ---- goahead ---- *)
Inductive action :=
| ACont (k : nat) (evs : list tev) (cd : option str)   (* i = updatepos(i, i + k); next iteration *)
| AStop (k : nat) (evs : list tev)                     (* i = updatepos(i, i + k) (k may be 0); break *)
| AReject.                                             (* AssertionError *)

(* k < 0 and end *)
Definition fallback (cd : option str) (r : str) : action :=
  let k := match index_of 62 (tl r) with
           | Some p => S (S p)
           | None => match index_of 60 (tl r) with
                     | Some p => S p
                     | None => 1%nat
                     end
           end in
  ACont k [TData (firstn k r)] cd.

Definition of_pres (endf : bool) (cd : option str) (r : str) (p : pres) : action :=
  match p with
  | PTo k evs u => ACont k evs (match u with Some x => x | None => cd end)
  | PNeg => if endf then fallback cd r else AStop 0 []
  | PRej => AReject
  end.

Section WithUnescape2.
Variable unesc : str -> str.

(* the body of the while loop after the text in front of rawdata[i] has been handled; r = rawdata[i:] *)
Definition dispatch (endf : bool) (cd : option str) (r : str) : action :=
  match r with
  | [] => AStop 0 []
  | c :: r1 =>
      if c =? 60 then
        match r1 with
        | [] => AStop 0 []
        | d :: _ =>
            if is_alpha d then of_pres endf cd r (parse_starttag unesc r)
            else if d =? 47 then of_pres endf cd r (parse_endtag cd r)
            else if has_prefix s_comment_open r then of_pres endf cd r (parse_comment r)
            else if d =? 63 then of_pres endf cd r (parse_pi r)
            else if d =? 33 then of_pres endf cd r (parse_html_declaration r)
            else ACont 1 [TData [60]] cd
        end
      else if c =? 38 then
        match r1 with
        | [] => AStop 0 []
        | d :: r2 =>
            if d =? 35 then
              match charref_match r2 with
              | Some (name, term) =>
                  ACont (2 + length name + (if N.eqb term 59%N then 1 else 0))%nat [TCharref name] cd
              | None => if memN 59 r then AStop 2 [TData [38; 35]] else AStop 0 []
              end
            else
              match entityref_match r1 with
              | Some (name, term) =>
                  ACont (1 + length name + (if N.eqb term 59%N then 1 else 0))%nat [TEntityref name] cd
              | None =>
                  if is_alpha d then                              (* incomplete.match *)
                    if endf && (match r2 with [] => true | _ => false end) then AStop 1 [] else AStop 0 []
                  else ACont 1 [TData [38]] cd
              end
        end
      else AReject                                                (* assert 0, "interesting.search() lied" *)
  end.

Inductive status := Running | Rejected | OutOfFuel | Stuck.
Record gstate := mkg { gs_cd : option str; gs_off : nat; gs_pos : tpos; gs_rest : str; gs_status : status }.

Definition item_of (off : nat) (p : tpos) (sp : str) (evs : list tev) : list item :=
  match sp with [] => [] | _ => [mkitem off p sp evs] end.

(* goahead(end) from index i = off with rawdata[i:] = s.  [Stuck]: an iteration that would not advance
   (Python would loop for ever); [OutOfFuel]: more iterations than characters.  Neither occurs
   (Proofs/TokenizerProofs.v). *)
Fixpoint go (fuel : nat) (endf : bool) (cd : option str) (off : nat) (p : tpos) (s : str) : list item * gstate :=
  match s with
  | [] => ([], mkg cd off p [] Running)
  | _ :: _ =>
      match fuel with
      | O => ([], mkg cd off p s OutOfFuel)
      | S f =>
          match find_interesting cd s with
          | None => ([], mkg cd off p s Running)
          | Some (txt, r) =>
              let it1 := item_of off p txt [TData txt] in
              let off1 := (off + length txt)%nat in
              let p1 := updatepos p txt in
              match r with
              | [] => (it1, mkg cd off1 p1 [] Running)
              | _ :: _ =>
                  match dispatch endf cd r with
                  | ACont k evs cd' =>
                      match k with
                      | O => (it1, mkg cd off1 p1 r Stuck)
                      | S _ =>
                          let sp := firstn k r in
                          let '(its, g) := go f endf cd' (off1 + length sp)%nat (updatepos p1 sp) (skipn k r) in
                          (it1 ++ item_of off1 p1 sp evs ++ its, g)
                      end
                  | AStop k evs =>
                      let sp := firstn k r in
                      (it1 ++ item_of off1 p1 sp evs,
                       mkg cd (off1 + length sp)%nat (updatepos p1 sp) (skipn k r) Running)
                  | AReject => (it1, mkg cd off1 p1 r Rejected)
                  end
              end
          end
      end
  end.

(* if end and i < n and not self.cdata_elem: handle_data(rawdata[i:n]) *)
Definition flush (g : gstate) : list item * gstate :=
  match gs_status g, gs_cd g, gs_rest g with
  | Running, None, (_ :: _) as s =>
      ([mkitem (gs_off g) (gs_pos g) s [TData s]],
       mkg None (gs_off g + length s)%nat (updatepos (gs_pos g) s) [] Running)
  | _, _, _ => ([], g)
  end.

(* parser.feed(text); parser.close() on a fresh parser *)
Definition tokenize (text : str) : list item * gstate :=
  let '(i1, g1) := go (S (length text)) false None 0%nat start_pos text in
  match gs_status g1 with
  | Running =>
      let '(i2, g2) := go (S (length (gs_rest g1))) true (gs_cd g1) (gs_off g1) (gs_pos g1) (gs_rest g1) in
      let '(i3, g3) := flush g2 in
      (i1 ++ i2 ++ i3, g3)
  | _ => (i1, g1)
  end.
End WithUnescape2.
