(* C10 / C16 — searching the tree: bs4/filter.py (MatchRule._base_match / matches_string,
   TagNameMatchRule.matches_tag, SoupStrainer.__init__ / _make_match_rules / matches_tag /
   _attribute_match / match / allow_tag_creation / allow_string_creation,
   ElementFilter.filter / find_all) and bs4/element.py (_find_all with its two fast paths,
   _find_one, the seven find_all-style families, Tag.__call__, Tag.__getattr__, Tag.string),
   decision by decision and in the code's evaluation order.

   The model follows the code AFTER the five [fix:] commits of this property (no-criteria
   searches with a limit, function name-criterion called once, limit=0, empty strings,
   empty multi-valued attributes).

   Regular expressions and user functions are not modelled: they are the parameters
   [pat_sem] / [fun_sem]; every call of a user function is recorded in a call log, in order,
   with the argument it received (the element itself, a plain string, or None). *)
From Coq Require Import List NArith ZArith Bool Arith.
From BS Require Import Base.Sexp Base.Types Model.Heap Model.Iter Model.Attrs.
Import ListNotations.
Local Open Scope nat_scope.

(* ---- what a Tag carries besides its links and its name (txt of the heap cell) ---- *)
Inductive attrv := AvStr (s : str) | AvList (l : list str).     (* str | AttributeValueList *)
Record tagx := mkx { x_prefix : option str; x_attrs : list (str * attrv) }.
Definition xmap := nat -> tagx.
Definition no_tagx : tagx := mkx None [].

(* ---- criteria as the caller writes them ---- *)
Inductive atom :=
| AtStr (s : str)        (* a str *)
| AtObj (s : str)        (* any other non-iterable object: used through str(obj) = s *)
| AtBool (b : bool)
| AtFun (f : N)          (* a callable, by number *)
| AtPat (p : N)          (* a compiled regular expression, by number *)
| AtNone
| AtNested.              (* a list inside a list: ignored (with a warning) *)
Inductive crit := COne (a : atom) | CList (l : list atom).
Definition c_none : crit := COne AtNone.
Definition is_none_crit (c : crit) : bool := match c with COne AtNone => true | _ => false end.

(* the attrs argument: a dict, or anything else (sugar for the class attribute); [truthy] is
   Python's truth value of that other object *)
Inductive attrs_arg := AttrsDict (l : list (str * crit)) | AttrsOther (c : crit) (truthy : bool).

Record query := mkq {
  q_name : crit;
  q_attrs : attrs_arg;
  q_string : crit;
  q_kwargs : list (str * crit);        (* **kwargs, keys distinct (a Python dict) *)
  q_limit : option nat                 (* None | k >= 0 *)
}.

(* ---- MatchRule ---- *)
Inductive rule := RStr (s : str) | RPat (p : N) | RFun (f : N) | RPresent (b : bool).

(* _make_match_rules *)
Definition atom_rules (a : atom) : list rule :=
  match a with
  | AtStr s | AtObj s => [RStr s]
  | AtBool b => [RPresent b]
  | AtFun f => [RFun f]
  | AtPat p => [RPat p]
  | AtNone | AtNested => []
  end.
Definition make_rules (c : crit) : list rule :=
  match c with COne a => atom_rules a | CList l => flat_map atom_rules l end.

(* ---- calls of user functions ---- *)
Inductive callarg := ArgEl (x : nat) | ArgStr (s : str) | ArgNone.
Inductive site := SName | SAttr | SString.          (* which kind of rule made the call *)
Definition call := (site * N * callarg)%type.
Definition log := list call.
Definition M (A : Type) := (A * log)%type.
Definition ret {A} (a : A) : M A := (a, []).
Definition bind {A B} (m : M A) (f : A -> M B) : M B :=
  let '(a, l) := m in let '(b, l') := f a in (b, l ++ l').

(* for x in l: if f(x): return True / return False *)
Fixpoint any_m {X} (f : X -> M bool) (l : list X) : M bool :=
  match l with
  | [] => ret false
  | x :: l' => bind (f x) (fun b => if b then ret true else any_m f l')
  end.
(* for x in l: if not f(x): return False / return True *)
Fixpoint all_m {X} (f : X -> M bool) (l : list X) : M bool :=
  match l with
  | [] => ret true
  | x :: l' => bind (f x) (fun b => if b then all_m f l' else ret false)
  end.

Definition null {X} (l : list X) : bool := match l with [] => true | _ => false end.
Definition lit_class : str := [99; 108; 97; 115; 115]%N.            (* "class" *)
Definition lit_class_ : str := [99; 108; 97; 115; 115; 95]%N.       (* "class_" *)
Definition lit_text : str := [116; 101; 120; 116]%N.                (* "text" *)
Definition lit_Tag : str := [84; 97; 103]%N.                        (* "Tag" *)
Definition lit_contents : str := [99; 111; 110; 116; 101; 110; 116; 115]%N.
Definition colon : N := 58%N.

(* SoupStrainer *)
Record strainer := mkstr {
  s_name : list rule;
  s_attrs : list (str * list rule);      (* attribute_rules: a defaultdict(list), insertion order *)
  s_string : list rule
}.

(* self.attribute_rules[attr].append(rule) for each rule: the key appears with the first rule *)
Fixpoint add_rules_to (k : str) (rs : list rule) (d : list (str * list rule)) : list (str * list rule) :=
  match d with
  | [] => [(k, rs)]
  | (k', v) :: d' => if str_eqb k k' then (k', v ++ rs) :: d' else (k', v) :: add_rules_to k rs d'
  end.
Definition add_rules (k : str) (rs : list rule) (d : list (str * list rule)) : list (str * list rule) :=
  match rs with [] => d | _ => add_rules_to k rs d end.

(* kwargs.pop("text") *)
Fixpoint kw_pop (k : str) (kw : list (str * crit)) : option (crit * list (str * crit)) :=
  match kw with
  | [] => None
  | (k', c) :: kw' =>
      if str_eqb k k' then Some (c, kw')
      else match kw_pop k kw' with Some (c', r) => Some (c', (k', c) :: r) | None => None end
  end.
(* if string is None and "text" in kwargs: string = kwargs.pop("text") *)
Definition pop_text (string : crit) (kw : list (str * crit)) : crit * list (str * crit) :=
  if is_none_crit string then
    match kw_pop lit_text kw with Some (c, kw') => (c, kw') | None => (string, kw) end
  else (string, kw).

(* if value is None: value = False *)
Definition attr_crit (c : crit) : crit := match c with COne AtNone => COne (AtBool false) | _ => c end.

(* SoupStrainer.__init__ *)
Definition mk_strainer (name : crit) (attrs : attrs_arg) (string : crit) (kwargs : list (str * crit)) : strainer :=
  let '(string, kwargs) := pop_text string kwargs in
  let attrs_l := match attrs with AttrsDict l => l | AttrsOther c _ => [(lit_class, c)] end in
  let kw_l := map (fun kc => (if str_eqb (fst kc) lit_class_ then lit_class else fst kc, snd kc)) kwargs in
  mkstr (make_rules name)
        (fold_left (fun d kc => add_rules (fst kc) (make_rules (attr_crit (snd kc))) d) (attrs_l ++ kw_l) [])
        (make_rules string).

Section Search.
  Variable pat_sem : N -> str -> bool.        (* pattern.search(string) is not None *)
  Variable fun_sem : N -> callarg -> bool.    (* bool(function(argument)) *)
  Variable h : heap.
  Variable xm : xmap.

  (* a value handed to MatchRule.matches_string: its text (None for a missing attribute) and
     what a user function would receive *)
  Record sval := mksv { sv_text : option str; sv_arg : callarg }.
  Definition sv_str (s : str) : sval := mksv (Some s) (ArgStr s).
  Definition sv_none : sval := mksv None ArgNone.
  Definition sv_el (x : nat) : sval := mksv (Some (txt (h x))) (ArgEl x).     (* a NavigableString *)

  (* MatchRule._base_match *)
  Definition base_match (r : rule) (v : option str) : option bool :=
    match r with
    | RPresent true => Some (match v with Some _ => true | None => false end)
    | RPresent false => Some (match v with Some _ => false | None => true end)
    | RStr s => Some (match v with Some t => str_eqb s t | None => false end)
    | RPat p => Some (match v with Some t => pat_sem p t | None => false end)
    | RFun _ => None
    end.

  (* MatchRule.matches_string *)
  Definition matches_string (st : site) (r : rule) (v : sval) : M bool :=
    match base_match r (sv_text v) with
    | Some b => ret b
    | None => match r with
              | RFun f => (fun_sem f (sv_arg v), [(st, f, sv_arg v)])
              | _ => ret true
              end
    end.

  (* TagNameMatchRule.matches_tag *)
  Definition rule_matches_tag (r : rule) (x : nat) : M bool :=
    match base_match r (Some (txt (h x))) with
    | Some b => ret b
    | None => match r with
              | RFun f => (fun_sem f (ArgEl x), [(SName, f, ArgEl x)])
              | _ => ret false
              end
    end.

  (* if tag.prefix: f"{tag.prefix}:{tag.name}" *)
  Definition prefixed_of (prefix : option str) (name : str) : option str :=
    match prefix with
    | Some (c :: p) => Some ((c :: p) ++ colon :: name)
    | _ => None
    end.

  (* Tag.string: the single NavigableString reachable through only children *)
  Fixpoint tag_string (fuel : nat) (x : nat) : option nat :=
    match fuel with
    | O => None
    | S f =>
        match kids (h x) with
        | [c] => if is_tag h c then tag_string f c else Some c
        | _ => None
        end
    end.

  Fixpoint aget (k : str) (l : list (str * attrv)) : option attrv :=
    match l with
    | [] => None
    | (k', v) :: l' => if str_eqb k k' then Some v else aget k l'
    end.

  (* SoupStrainer._attribute_match *)
  Definition attr_values (v : option attrv) : list sval :=
    match v with
    | None => [sv_none]
    | Some (AvStr s) => [sv_str s]
    | Some (AvList l) => map sv_str l
    end.
  Definition attr_joined (v : option attrv) : str :=
    match v with Some (AvList l) => join_sp l | Some (AvStr s) => s | None => [] end.
  Definition match_values (rules : list rule) (vals : list sval) : M bool :=
    any_m (fun r => any_m (fun v => matches_string SAttr r v) vals) rules.
  Definition attribute_match (rules : list rule) (v : option attrv) : M bool :=
    let vals := attr_values v in
    bind (match_values rules vals) (fun b =>
      if negb b && negb (Nat.eqb (length vals) 1)
      then match_values rules [sv_str (attr_joined v)]
      else ret b).

  (* SoupStrainer.matches_any_string_rule *)
  Definition matches_any_string_rule (sr : strainer) (v : sval) : M bool :=
    if null (s_string sr) then ret true
    else any_m (fun r => matches_string SString r v) (s_string sr).

  Definition has_prefix (p : option str) : bool := match p with Some (_ :: _) => true | _ => false end.

  (* SoupStrainer.matches_tag *)
  Definition matches_tag (fuel : nat) (sr : strainer) (x : nat) : M bool :=
    if null (s_name sr) && null (s_attrs sr) then ret false else
    let name := txt (h x) in
    let prefix := x_prefix (xm x) in
    if negb (has_prefix prefix) &&
       match s_name sr with [RStr s] => negb (str_eqb name s) | _ => false end
    then ret false else
    let prefixed := prefixed_of prefix name in
    bind (if null (s_name sr) then ret true
          else any_m (fun r =>
                 bind (rule_matches_tag r x) (fun b =>
                   if b then ret true
                   else match prefixed with
                        | Some pn => ret (match base_match r (Some pn) with Some true => true | _ => false end)
                        | None => ret false
                        end)) (s_name sr))
    (fun name_matches =>
      if negb name_matches then ret false else
      bind (all_m (fun kr => attribute_match (snd kr) (aget (fst kr) (x_attrs (xm x)))) (s_attrs sr))
      (fun attrs_match =>
        if negb attrs_match then ret false else
        if null (s_string sr) then ret true else
        match tag_string fuel x with
        | None => ret false
        | Some sid => matches_any_string_rule sr (sv_el sid)
        end)).

  (* SoupStrainer.match *)
  Definition match_el (fuel : nat) (sr : strainer) (x : nat) : M bool :=
    if is_tag h x then matches_tag fuel sr x
    else if null (s_name sr) && null (s_attrs sr)
         then any_m (fun r => matches_string SString r (sv_el x)) (s_string sr)
         else ret false.

  (* if limit and len(results) >= limit: break *)
  Definition limit_hit (lim : option nat) (n : nat) : bool :=
    match lim with
    | Some (S k) => Nat.leb (S k) n
    | _ => false
    end.

  (* ElementFilter.find_all over ElementFilter.filter; n = len(results) so far *)
  Fixpoint ef_find_all (fuel : nat) (sr : strainer) (lim : option nat) (L : list nat) (n : nat) : M (list nat) :=
    match L with
    | [] => ret []
    | x :: L' =>
        bind (match_el fuel sr x) (fun b =>
          if b then
            if limit_hit lim (S n) then ret [x]
            else bind (ef_find_all fuel sr lim L' (S n)) (fun r => ret (x :: r))
          else ef_find_all fuel sr lim L' n)
    end.

  (* the "no criteria" path of _find_all: all tags, or the first [limit] of them *)
  Fixpoint take_tags (lim : option nat) (L : list nat) (n : nat) : list nat :=
    match L with
    | [] => []
    | x :: L' =>
        if is_tag h x then
          if limit_hit lim (S n) then [x] else x :: take_tags lim L' (S n)
        else take_tags lim L' n
    end.

  (* name.count(":") == 1  /  name.split(":", 1) *)
  Fixpoint count_colon (s : str) : nat :=
    match s with [] => O | c :: s' => (if N.eqb c colon then 1 else 0) + count_colon s' end.
  Fixpoint split_colon (s : str) : str * str :=
    match s with
    | [] => ([], [])
    | c :: s' => if N.eqb c colon then ([], s') else let '(a, b) := split_colon s' in (c :: a, b)
    end.

  (* the "plain tag name" path of _find_all *)
  Definition fast_name_match (name : str) (x : nat) : bool :=
    let ename := txt (h x) in
    if Nat.eqb (count_colon name) 1 then
      let '(prefix, local_name) := split_colon name in
      str_eqb ename name ||
      (str_eqb ename local_name &&
       match x_prefix (xm x) with Some p => str_eqb p prefix | None => false end)
    else
      str_eqb ename name || (str_eqb ename name && true).

  Definition attrs_falsy (a : attrs_arg) : bool :=
    match a with AttrsDict l => null l | AttrsOther _ truthy => negb truthy end.
  Definition limit_falsy (lim : option nat) : bool :=
    match lim with None | Some O => true | _ => false end.

  (* PageElement._find_all(name, attrs, string, limit, generator, **kwargs) *)
  Definition find_all_m (fuel : nat) (q : query) (L : list nat) : M (list nat) :=
    let '(string, kwargs) := pop_text (q_string q) (q_kwargs q) in
    let sr := mk_strainer (q_name q) (q_attrs q) string kwargs in
    let general := ef_find_all fuel sr (q_limit q) L 0 in
    if is_none_crit string && attrs_falsy (q_attrs q) && null kwargs then
      match q_name q with
      | COne AtNone | COne (AtBool true) => ret (take_tags (q_limit q) L 0)
      | COne (AtStr name) =>
          if limit_falsy (q_limit q)
          then ret (filter (fun x => is_tag h x && fast_name_match name x) L)
          else general
      | _ => general
      end
    else general.

  Definition with_limit (q : query) (lim : option nat) : query :=
    mkq (q_name q) (q_attrs q) (q_string q) (q_kwargs q) lim.

  (* _find_one / Tag.find / find_parent: the first of the plural call with limit 1, or None *)
  Definition find_one_m (fuel : nat) (q : query) (L : list nat) : M (option nat) :=
    let '(r, lg) := find_all_m fuel (with_limit q (Some 1)) L in (hd_error r, lg).

  (* ---- the seven families: which generator each one hands to _find_all ---- *)
  Inductive axis := AxDescendants | AxChildren | AxNext | AxPrevious | AxNextSiblings | AxPreviousSiblings | AxParents.

  Definition axis_list (fuel : nat) (a : axis) (x : nat) : list nat :=
    match a with
    | AxDescendants => descendants fuel h x            (* find_all(recursive=True) *)
    | AxChildren => kids (h x)                         (* find_all(recursive=False): self.children *)
    | AxNext => next_elements fuel h x                 (* find_all_next *)
    | AxPrevious => previous_elements fuel h x         (* find_all_previous *)
    | AxNextSiblings => next_siblings fuel h x         (* find_next_siblings *)
    | AxPreviousSiblings => previous_siblings fuel h x (* find_previous_siblings *)
    | AxParents => parents fuel h x                    (* find_parents *)
    end.

  (* find_parents / find_parent take no string argument *)
  Definition method_query (a : axis) (q : query) : query :=
    match a with
    | AxParents => mkq (q_name q) (q_attrs q) c_none (q_kwargs q) (q_limit q)
    | _ => q
    end.

  Definition find_all_method (fuel : nat) (a : axis) (x : nat) (q : query) : M (list nat) :=
    find_all_m fuel (method_query a q) (axis_list fuel a x).
  Definition find_method (fuel : nat) (a : axis) (x : nat) (q : query) : M (option nat) :=
    find_one_m fuel (method_query a q) (axis_list fuel a x).

  (* Tag.__call__(name, attrs, recursive, string, limit, **kwargs) *)
  Definition call_m (fuel : nat) (x : nat) (recursive : bool) (q : query) : M (list nat) :=
    find_all_method fuel (if recursive then AxDescendants else AxChildren) x q.

  (* Tag.__getattr__(subtag); None stands for AttributeError *)
  Fixpoint starts_with (p s : str) : bool :=
    match p, s with
    | [], _ => true
    | a :: p', b :: s' => N.eqb a b && starts_with p' s'
    | _, [] => false
    end.
  Definition ends_with (suffix s : str) : bool := starts_with (rev suffix) (rev s).
  Definition name_query (name : str) : query := mkq (COne (AtStr name)) (AttrsDict []) c_none [] None.
  Definition getattr_m (fuel : nat) (x : nat) (subtag : str) : option (M (option nat)) :=
    if Nat.ltb 3 (length subtag) && ends_with lit_Tag subtag then
      Some (find_method fuel AxDescendants x (name_query (firstn (length subtag - 3) subtag)))
    else if negb (starts_with [95; 95]%N subtag) && negb (str_eqb subtag lit_contents) then
      Some (find_method fuel AxDescendants x (name_query subtag))
    else None.

  (* ---- parse_only (C16): decisions taken before a Tag / NavigableString exists ---- *)

  (* SoupStrainer.allow_tag_creation(nsprefix, name, attrs): attrs is the raw dictionary *)
  Fixpoint name_loop (rules : list rule) (xs : list sval) : M bool :=
    match rules with
    | [] => ret false
    | r :: rs =>
        (* the break leaves only the inner loop: every rule is tried *)
        bind (any_m (fun v => matches_string SName r v) xs) (fun b =>
        bind (name_loop rs xs) (fun b' => ret (b || b')))
    end.
  Definition allow_tag_creation (sr : strainer) (nsprefix : option str) (name : str)
             (attrs : list (str * attrv)) : M bool :=
    if negb (null (s_string sr)) then ret false else
    let xs := sv_str name :: match prefixed_of nsprefix name with Some pn => [sv_str pn] | None => [] end in
    bind (if null (s_name sr) then ret true else name_loop (s_name sr) xs) (fun name_match =>
      if negb name_match then ret false else
      all_m (fun kr => attribute_match (snd kr) (aget (fst kr) attrs)) (s_attrs sr)).

  (* SoupStrainer.allow_string_creation(string) *)
  Definition allow_string_creation (sr : strainer) (s : str) : M bool :=
    if negb (null (s_name sr)) || negb (null (s_attrs sr)) then ret false
    else if null (s_string sr) then ret true
    else matches_any_string_rule sr (sv_str s).
End Search.
