(* C06 — the constructor on a *string*: BeautifulSoup(text, "html.parser") for a str, with nothing recorded.
   The tokenizer model (Model/Tokenizer.v: the installed html.parser, for every text) supplies the callbacks
   and the way the run ends; they are handed to the adapter / feed / retry-loop model of Model/Construct.v.

   html.unescape (attribute values) can fail — ValueError for a decimal reference with more digits than int()
   accepts, Model/UnescapeLimit.v — and the tokenizer model takes a total function in its place.  Its failure
   is made visible here without touching the tokenizer: [marking unesc] returns, where the real function
   raises, the one-element string [unesc_mark] (1114112, not a code point, so no str contains it), and the
   callback stream is cut in front of the first start tag that carries such a value: that tag's
   parse_starttag is where the ValueError leaves the tokenizer, after every earlier callback has fired.
   (The tokenizer's control flow never looks at what unescape returned.)  No proofs in this file. *)
From Coq Require Import List NArith Bool Arith.
From BS Require Import Base.Sexp Base.Types Base.Reader Model.Pos Model.Tokenizer Model.Heap Model.Edit Model.Build
                       Model.Construct.
Import ListNotations.
Open Scope N_scope.

(* the tokenizer's callback and this file's: the same ten constructors *)
Definition cb_of_tev (e : tev) : callback :=
  match e with
  | TStart n a => CbStart n a
  | TStartEnd n a => CbStartEnd n a
  | TEnd n => CbEnd n
  | TData s => CbData s
  | TCharref n => CbCharref n
  | TEntityref n => CbEntityref n
  | TComment s => CbComment s
  | TDecl s => CbDecl s
  | TUnknownDecl s => CbUnknownDecl s
  | TPi s => CbPi s
  end.

Definition unesc_mark : N := 1114112.
(* html.unescape with its failure (None = ValueError) as a total function *)
Definition marking (unesc : str -> option str) (v : str) : str :=
  match unesc v with Some r => r | None => [unesc_mark] end.
Definition marked_attr (a : str * option str) : bool :=
  match snd a with Some [m] => m =? unesc_mark | _ => false end.
(* parse_starttag raised while unescaping an attribute value *)
Definition tev_raises (e : tev) : bool :=
  match e with TStart _ a | TStartEnd _ a => existsb marked_attr a | _ => false end.
(* the callbacks fired before the first such start tag, and whether there is one *)
Fixpoint cut_at_raise (evs : list tev) : list tev * bool :=
  match evs with
  | [] => ([], false)
  | e :: r => if tev_raises e then ([], true)
              else let '(b, raised) := cut_at_raise r in (e :: b, raised)
  end.

Definition exc_AssertionError : N := 4.
Definition exc_model_stuck : N := 99.          (* OutOfFuel / Stuck: statuses the tokenizer model never ends in *)

(* what HTMLParserTreeBuilder.feed sees for a text: the callbacks fired, and how parser.feed(); parser.close() ended *)
Definition str_run (unesc : str -> option str) (text : str) : list tev * bool * status :=
  let '(its, g) := tokenize (marking unesc) text in
  let '(before, raised) := cut_at_raise (flat_map it_evs its) in
  (before, raised, gs_status g).
Definition str_callbacks (unesc : str -> option str) (text : str) : list callback :=
  map cb_of_tev (fst (fst (str_run unesc text))).
Definition str_fin (unesc : str -> option str) (text : str) : tok_end :=
  let '(_, raised, st) := str_run unesc text in
  if raised then TokRaised exc_ValueError []
  else match st with
       | Running => TokFinished
       | Rejected => TokRaised exc_AssertionError []
       | _ => TokRaised exc_model_stuck []
       end.
(* the parser refuses the text: html.parser's AssertionError, or html.unescape's ValueError *)
Definition str_rejects (unesc : str -> option str) (text : str) : bool :=
  let '(_, raised, st) := str_run unesc text in
  raised || match st with Running => false | _ => true end.

(* BeautifulSoup(text, "html.parser", ...) for a str, on an object in any prior state *)
Definition construct_str (cfg : bconfig) (b0 : bstate) (unesc : str -> option str) (text : str) : cres * list warning :=
  construct_htmlparser cfg b0 (MStr text) DNone None (str_callbacks unesc text) (str_fin unesc text).

(* the events the tree builder receives when the run is not refused *)
Definition str_events (cfg : bconfig) (unesc : str -> option str) (text : str) : list event :=
  fst (adapt cfg None [] (str_callbacks unesc text)).

(* the same with the input already converted to text by prepare_markup: [m] is what the caller passed (for the
   pre-parse heuristics), [d] UnicodeDammit's bookkeeping, [orig] the single-byte decoder of the document's encoding *)
Definition construct_text (cfg : bconfig) (b0 : bstate) (m : markup) (d : dammit_result) (orig : option byte_decoder)
           (unesc : str -> option str) (text : str) : cres * list warning :=
  construct_htmlparser cfg b0 m d orig (str_callbacks unesc text) (str_fin unesc text).
Definition text_events (cfg : bconfig) (orig : option byte_decoder) (unesc : str -> option str) (text : str) : list event :=
  fst (adapt cfg orig [] (str_callbacks unesc text)).
