(* C06 — the constructor of bs4/__init__.py seen as "any input yields a tree or ParserRejectedMarkup":

     * the two pre-parse heuristics on short markup (_markup_is_url, _markup_resembles_filename,
       and the condition under which the constructor runs them);
     * numeric character reference conversion (BeautifulSoupHTMLParser.handle_charref) with Python's
       int() / chr() / bytearray() failure modes as explicit error values;
     * the adapter from html.parser callbacks to tree-builder events (BeautifulSoupHTMLParser) as far as
       exceptions and the shape of the tree depend on it, and the exception mapping of
       HTMLParserTreeBuilder.feed;
     * HTMLParserTreeBuilder.prepare_markup (one strategy, or ParserRejectedMarkup when UnicodeDammit
       produced nothing);
     * BeautifulSoup.reset() as an operation on an *existing* object, and the retry loop over the
       strategies of prepare_markup with the outcomes Accept / Reject-after-some-events / Crash.

   Exceptions are values.  Everything that is not in the repository is a parameter or a recorded
   input: the tokenizer (its callbacks and how it ended), UnicodeDammit's result, the single-byte
   decoder of the document's original encoding.  The literals and the exception classes named in
   `except` clauses come from Gen/T_C06.v, regenerated from the source on every run.

   Memory model of the retry loop.  Elements are numbered; [reset_obj] re-initialises element 0 (the
   BeautifulSoup object itself: Tag.__init__ clears its six links, its contents and its attributes)
   and every parser-state field, and restarts the allocation counter at 1 while *keeping whatever the
   heap holds* at the other numbers: the objects of a rejected attempt are garbage that nothing
   reachable refers to, and a fresh allocation initialises its cell completely.  That nothing of the
   old cells can be observed afterwards is not assumed: it is the theorem retry_clean. *)
From Coq Require Import List NArith ZArith Bool Arith.
From BS Require Import Base.Sexp Base.Types Model.Heap Model.Edit Model.Build Gen.Stdlib Gen.Entities Gen.T_C06.
Import ListNotations.
Open Scope N_scope.

(* ------------------------------------------------------------------ exceptions as values *)
Inductive exn :=
| ParserRejected (msgs : list str)     (* bs4.exceptions.ParserRejectedMarkup with the message(s) it reports *)
| PyExc (cls : N).                     (* any other exception class, numbered as in Gen/T_C06.v *)

Inductive outcome (X : Type) := Done (x : X) | Raise (e : exn).
Arguments Done {X} x.
Arguments Raise {X} e.

Definition exc_ValueError : N := 3.
Definition exc_OverflowError : N := 5.
Definition exc_UnicodeDecodeError : N := 6.
Definition exc_UnicodeEncodeError : N := 11.
Definition exc_ParserRejectedMarkup : N := 0.
Definition exc_Exception : N := 8.
Definition exc_BaseException : N := 13.

Definition exc_UnicodeError : N := 12.
Definition exc_LookupError : N := 7.

(* the base classes of an exception class (numbering of Gen/T_C06.v): UnicodeDecodeError and
   UnicodeEncodeError derive from UnicodeError, that and FeatureNotFound from ValueError, KeyError and
   IndexError from LookupError, everything from Exception and BaseException *)
Definition supers (c : N) : list N :=
  match c with
  | 6 | 11 => [12; 3; 8; 13]
  | 12 | 1 => [3; 8; 13]
  | 14 | 15 => [7; 8; 13]
  | 8 => [13]
  | 13 => []
  | _ => [8; 13]
  end.
(* does an `except` clause naming the classes [l] catch an exception of class [c]? *)
Definition catches (l : list N) (c : N) : bool := existsb (fun k => memN k l) (c :: supers c).

(* ------------------------------------------------------------------ sequences (str and bytes alike) *)
Fixpoint starts_with (p s : str) : bool :=
  match p, s with
  | [], _ => true
  | a :: p', b :: s' => N.eqb a b && starts_with p' s'
  | _ :: _, [] => false
  end.
Definition ends_with (p s : str) : bool := starts_with (rev p) (rev s).
Fixpoint contains (sub s : str) : bool :=                 (* sub in s *)
  starts_with sub s || match s with [] => false | _ :: s' => contains sub s' end.
Fixpoint rfind_from (c : N) (s : str) (i : nat) (acc : option nat) : option nat :=
  match s with
  | [] => acc
  | x :: s' => rfind_from c s' (S i) (if N.eqb x c then Some i else acc)
  end.
Definition rfind (c : N) (s : str) : option nat := rfind_from c s 0%nat None.   (* None = -1 *)
Definition lower_byte (b : N) : N := if (65 <=? b) && (b <=? 90) then b + 32 else b.   (* bytes.lower() *)
Definition upper_ascii (c : N) : N := if (97 <=? c) && (c <=? 122) then c - 32 else c.
Fixpoint lstrip (c : N) (s : str) : str :=                 (* s.lstrip(<one character>) *)
  match s with
  | x :: s' => if N.eqb x c then lstrip c s' else s
  | [] => []
  end.

(* ------------------------------------------------------------------ str.encode("utf8", errors) *)
Definition is_surrogate (c : N) : bool := (55296 <=? c) && (c <=? 57343).
Definition utf8_bytes (c : N) : list N :=
  if c <? 128 then [c]
  else if c <? 2048 then [192 + c / 64; 128 + c mod 64]
  else if c <? 65536 then [224 + c / 4096; 128 + (c / 64) mod 64; 128 + c mod 64]
  else [240 + c / 262144; 128 + (c / 4096) mod 64; 128 + (c / 64) mod 64; 128 + c mod 64].

(* errors: 0 strict, 1 surrogatepass, 2 replace, 3 ignore.  Only lone surrogates are unencodable. *)
Definition utf8_encode_char (errors : N) (c : N) : outcome (list N) :=
  if is_surrogate c then
    match errors with
    | 1 => Done (utf8_bytes c)
    | 2 => Done [63]
    | 3 => Done []
    | _ => Raise (PyExc exc_UnicodeEncodeError)
    end
  else Done (utf8_bytes c).
Fixpoint utf8_encode (errors : N) (s : str) : outcome (list N) :=
  match s with
  | [] => Done []
  | c :: s' =>
      match utf8_encode_char errors c with
      | Raise e => Raise e
      | Done a => match utf8_encode errors s' with
                  | Raise e => Raise e
                  | Done b => Done (a ++ b)
                  end
      end
  end.

(* ------------------------------------------------------------------ the two heuristics *)
Inductive markup := MStr (s : str) | MBytes (b : str).
Definition mk_codes (m : markup) : str := match m with MStr s => s | MBytes b => b end.

(* _markup_is_url: the bytes and the str branch test the same ASCII literals *)
Definition markup_is_url (m : markup) : bool :=
  let s := mk_codes m in
  existsb (fun p => starts_with p s) c06_url_prefixes && negb (contains c06_url_separator s).

Definition pos_allowed (o : option nat) (allowed : list Z) : bool :=
  existsb (Z.eqb (match o with None => (-1)%Z | Some i => Z.of_nat i end)) allowed.

(* _markup_resembles_filename *)
Definition filename_check (mb : list N) : bool :=
  let lower := map lower_byte mb in
  if negb (existsb (fun ext => ends_with ext lower) c06_filename_extensions) then false
  else if existsb (fun byte => memN byte c06_filename_special) mb then false
  else if existsb (fun sub => contains sub mb) c06_filename_forbidden_substrings then false
  else if starts_with c06_filename_forbidden_prefix mb then false
  else pos_allowed (rfind c06_filename_rfind_byte mb) c06_filename_rfind_allowed.
Definition markup_resembles_filename (m : markup) : outcome bool :=
  match (match m with
         | MStr s => utf8_encode c06_filename_encode_errors s
         | MBytes b => Done b
         end) with
  | Raise e => Raise e
  | Done mb => Done (filename_check mb)
  end.

(* the constructor: `len(markup) <= 256 and "<" not in markup and "\n" not in markup`, then
   `if not self._markup_is_url(markup): self._markup_resembles_filename(markup)` *)
Inductive warning := WarnURL | WarnFilename.
Definition short_markup (m : markup) : bool :=
  let s := mk_codes m in
  (if c06_short_markup_inclusive then Nat.leb (length s) c06_short_markup_limit
   else Nat.ltb (length s) c06_short_markup_limit) &&
  forallb (fun c => negb (memN c s)) c06_short_markup_excluded.
Definition preparse (m : markup) : outcome (list warning) :=
  if short_markup m then
    if markup_is_url m then Done [WarnURL]
    else match markup_resembles_filename m with
         | Raise e => Raise e
         | Done true => Done [WarnFilename]
         | Done false => Done []
         end
  else Done [].

(* ------------------------------------------------------------------ handle_charref *)
Definition is_dec (c : N) : bool := (48 <=? c) && (c <=? 57).
Definition hex_val (c : N) : option N :=
  if is_dec c then Some (c - 48)
  else if (97 <=? c) && (c <=? 102) then Some (c - 87)
  else if (65 <=? c) && (c <=? 70) then Some (c - 55)
  else None.
Definition is_hex (c : N) : bool := match hex_val c with Some _ => true | None => false end.
Definition dec_value (s : str) : N := fold_left (fun a c => 10 * a + (c - 48)) s 0.
Definition hex_value (s : str) : N :=
  fold_left (fun a c => 16 * a + match hex_val c with Some v => v | None => 0 end) s 0.

(* int(s) and int(s, 16) on the strings the tokenizer can hand over (ASCII digits); anything else
   is reported as ValueError here (Python would accept a few more spellings: sign, underscores,
   surrounding whitespace, a 0x prefix — the theorems exclude those by [valid_charref_name]).
   The decimal conversion refuses more than sys.get_int_max_str_digits() digits. *)
Definition py_int_dec (s : str) : outcome N :=
  match s with
  | [] => Raise (PyExc exc_ValueError)
  | _ =>
      if negb (forallb is_dec s) then Raise (PyExc exc_ValueError)
      else if negb (Nat.eqb c06_int_max_str_digits 0) && Nat.ltb c06_int_max_str_digits (length s)
      then Raise (PyExc exc_ValueError)
      else Done (dec_value s)
  end.
Definition py_int_hex (s : str) : outcome N :=
  match s with
  | [] => Raise (PyExc exc_ValueError)
  | _ => if forallb is_hex s then Done (hex_value s) else Raise (PyExc exc_ValueError)
  end.

Definition charref_decimal (name : str) : outcome N :=
  match c06_charref_guard with
  | None => py_int_dec name
  | Some (k, sentinel) =>
      let digits := lstrip 48 name in
      if Nat.ltb k (length digits) then Done sentinel
      else py_int_dec (match digits with [] => [48] | _ => digits end)
  end.
Definition charref_number (name : str) : outcome N :=
  match name with
  | c :: _ => if memN c c06_charref_hex_prefixes then py_int_hex (lstrip c name) else charref_decimal name
  | [] => charref_decimal name
  end.

(* bytearray([n]).decode(encoding): the text, or the class of the exception raised
   (UnicodeDecodeError for almost every codec) *)
Inductive dec_result := DecText (s : str) | DecRaise (cls : N).
Definition byte_decoder := N -> dec_result.
Definition cp1252_decoder : byte_decoder :=
  fun n => match nth_error cp1252_table (N.to_nat n) with
           | Some (Some c) => DecText [c]
           | _ => DecRaise exc_UnicodeDecodeError
           end.

(* one `try: data = bytearray([n]).decode(enc) except <classes>: pass` *)
Definition try_decode (dec : byte_decoder) (n : N) (data : option str) : outcome (option str) :=
  if 256 <=? n then Raise (PyExc exc_ValueError)            (* bytearray([n]): byte must be in range(0, 256) *)
  else match dec n with
       | DecText d => Done (Some d)
       | DecRaise c => if catches c06_charref_decode_catches c then Done data else Raise (PyExc c)
       end.
Definition nonempty (o : option str) : bool := match o with Some (_ :: _) => true | _ => false end.

(* the part of handle_charref after the number is known *)
Definition charref_text (orig : option byte_decoder) (n : N) : outcome str :=
  let data1 : outcome (option str) :=
    if n <? c06_charref_byte_limit then
      (* for encoding in (self.soup.original_encoding, "windows-1252"): the loop has no break *)
      match (match orig with Some dec => try_decode dec n None | None => Done None end) with
      | Raise e => Raise e
      | Done d => try_decode cp1252_decoder n d
      end
    else Done None in
  match data1 with
  | Raise e => Raise e
  | Done d =>
      let data2 : outcome (option str) :=
        if nonempty d then Done d
        else if n <? 1114112 then Done (Some [n])
        else (* chr(): ValueError up to the C int range, OverflowError beyond *)
          let c := if n <? 2147483648 then exc_ValueError else exc_OverflowError in
          if catches c06_charref_chr_catches c then Done d else Raise (PyExc c) in
      match data2 with
      | Raise e => Raise e
      | Done d => Done (match d with Some (c :: t) => c :: t | _ => [c06_replacement_char] end)
      end
  end.
Definition charref_data (orig : option byte_decoder) (name : str) : outcome str :=
  match charref_number name with
  | Raise e => Raise e
  | Done n => charref_text orig n
  end.

(* what the tokenizer's regex lets through as the name of a numeric reference *)
Definition valid_charref_name (name : str) : bool :=
  match name with
  | [] => false
  | c :: rest =>
      if N.eqb c 120 || N.eqb c 88 then (match rest with [] => false | _ => forallb is_hex rest end)
      else forallb is_dec name
  end.
(* the number a valid name denotes *)
Definition name_value (name : str) : N :=
  match name with
  | c :: rest => if N.eqb c 120 || N.eqb c 88 then hex_value rest else dec_value name
  | [] => 0
  end.

(* ------------------------------------------------------------------ html.parser callbacks -> events *)
Inductive callback :=
| CbStart (name : str) (attrs : list (str * option str))
| CbStartEnd (name : str) (attrs : list (str * option str))
| CbEnd (name : str)
| CbData (s : str)
| CbCharref (name : str)
| CbEntityref (name : str)
| CbComment (s : str)
| CbDecl (s : str)
| CbUnknownDecl (s : str)
| CbPi (s : str).

Definition cls_CData : N := 1.
Definition cls_ProcessingInstruction : N := 2.
Definition cls_Comment : N := 4.
Definition cls_Declaration : N := 5.
Definition cls_Doctype : N := 6.

Fixpoint remove_first (x : str) (l : list str) : list str :=      (* list.remove(x) *)
  match l with
  | [] => []
  | y :: l' => if str_eqb x y then l' else y :: remove_first x l'
  end.

Definition fix_attrs (attrs : list (str * option str)) : list (str * str) :=
  map (fun kv => (fst kv, match snd kv with Some v => v | None => [] end)) attrs.

(* BeautifulSoupHTMLParser.handle_endtag *)
Definition cb_endtag (closed : list str) (name : str) (check : bool) : list event * list str :=
  if check && memS name closed then ([], remove_first name closed)
  else ([EEnd name None], closed).
(* BeautifulSoupHTMLParser.handle_starttag *)
Definition cb_starttag (cfg : bconfig) (closed : list str) (name : str) (attrs : list (str * option str))
           (handle_empty : bool) : list event * list str :=
  if can_be_empty cfg name && handle_empty
  then ([EStart name None (fix_attrs attrs); EEnd name None], closed ++ [name])
  else ([EStart name None (fix_attrs attrs)], closed).

Definition entityref_data (name : str) : str :=
  match assocS name html_entity_to_character with
  | Some c => c
  | None => 38 :: name
  end.

Definition cdata_prefix : str := [67; 68; 65; 84; 65; 91].         (* "CDATA[" *)

Definition cb_step (cfg : bconfig) (orig : option byte_decoder) (closed : list str) (cb : callback)
  : outcome (list event * list str) :=
  match cb with
  | CbStart name attrs => Done (cb_starttag cfg closed name attrs true)
  | CbStartEnd name attrs =>
      let '(e1, closed1) := cb_starttag cfg closed name attrs false in
      let '(e2, closed2) := cb_endtag closed1 name false in     (* handle_endtag(name, check_already_closed=False) *)
      Done (e1 ++ e2, closed2)
  | CbEnd name => Done (cb_endtag closed name true)
  | CbData s => Done ([EData s], closed)
  | CbCharref name =>
      match charref_data orig name with
      | Raise e => Raise e
      | Done d => Done ([EData d], closed)
      end
  | CbEntityref name => Done ([EData (entityref_data name)], closed)
  | CbComment s => Done ([EEndData None; EData s; EEndData (Some cls_Comment)], closed)
  | CbDecl s => Done ([EEndData None; EData (skipn 8 s); EEndData (Some cls_Doctype)], closed)
  | CbUnknownDecl s =>
      if starts_with cdata_prefix (map upper_ascii s)
      then Done ([EEndData None; EData (skipn 6 s); EEndData (Some cls_CData)], closed)
      else Done ([EEndData None; EData s; EEndData (Some cls_Declaration)], closed)
  | CbPi s => Done ([EEndData None; EData s; EEndData (Some cls_ProcessingInstruction)], closed)
  end.

(* the events delivered to the tree builder, and the exception that stopped the delivery, if any *)
Fixpoint adapt (cfg : bconfig) (orig : option byte_decoder) (closed : list str) (cbs : list callback)
  : list event * option exn :=
  match cbs with
  | [] => ([], None)
  | cb :: rest =>
      match cb_step cfg orig closed cb with
      | Raise e => ([], Some e)
      | Done (evs, closed') =>
          let '(evs', r) := adapt cfg orig closed' rest in (evs ++ evs', r)
      end
  end.

(* ------------------------------------------------------------------ one parsing attempt *)
Inductive attempt :=
| Accept (evs : list event)                       (* builder.feed() delivered these events and returned *)
| Reject (evs : list event) (msg : str)           (* ... and then raised ParserRejectedMarkup(msg) *)
| Crash (evs : list event) (e : exn).             (* ... and then raised something else *)

(* how the tokenizer run ended: it returned; it raised an exception of class cls; it called
   ParserBase.error() (Python < 3.10), which BeautifulSoupHTMLParser.error turns into
   ParserRejectedMarkup *)
Inductive tok_end := TokFinished | TokRaised (cls : N) (msg : str) | TokError (msg : str).

(* HTMLParserTreeBuilder.feed: `except <c06_feed_maps> as e: raise ParserRejectedMarkup(e)` *)
Definition feed_classify (evs : list event) (e : exn) (msg : str) : attempt :=
  match e with
  | ParserRejected _ => Reject evs msg         (* passes through, or is wrapped again: rejected either way *)
  | PyExc c => if catches c06_feed_maps c then Reject evs msg else Crash evs e
  end.
Definition hp_attempt (cfg : bconfig) (orig : option byte_decoder) (cbs : list callback) (fin : tok_end)
  : attempt :=
  let '(evs, r) := adapt cfg orig [] cbs in
  match r with
  | Some e => feed_classify evs e []
  | None =>
      match fin with
      | TokFinished => Accept evs
      | TokRaised c m => feed_classify evs (PyExc c) m
      | TokError m => Reject evs m
      end
  end.

(* ------------------------------------------------------------------ prepare_markup *)
Record meta := mkmeta {
  m_enc : option str;            (* original_encoding *)
  m_decl : option str;           (* declared_html_encoding *)
  m_repl : bool                  (* contains_replacement_characters *)
}.
Record strategy := mkstrat { st_meta : meta; st_out : attempt }.
(* how the generator ends after its last strategy: exhausted, or raising *)
Inductive gen_end := GenDone | GenRaise (e : exn).
(* what UnicodeDammit made of a byte string: nothing, or text with its bookkeeping *)
Inductive dammit_result := DNone | DText (enc decl : option str) (repl : bool).

Definition could_not_convert : str := [].      (* the text of the message is not modelled *)
Definition hp_strategies (is_str : bool) (d : dammit_result) (a : attempt) : list strategy * gen_end :=
  if is_str then ([mkstrat (mkmeta None None false) a], GenDone)
  else match d with
       | DNone => ([], GenRaise (ParserRejected [could_not_convert]))
       | DText e dl r => ([mkstrat (mkmeta e dl r) a], GenDone)
       end.

(* ------------------------------------------------------------------ reset() and the retry loop *)
(* an object on which nothing has run yet *)
Definition blank_obj : bstate :=
  mkb (mkst (fun _ => blank KTag []) 0) (fun _ => no_payload) [] [] [] [] [] None None.

(* BeautifulSoup.reset() on an existing object: Tag.__init__(self, self, builder, ROOT_TAG_NAME)
   (name, empty attributes, contents = [], setup() with every link None), hidden, builder.reset(),
   current_data, currentTag, tagStack, open_tag_counter, preserve_whitespace_tag_stack,
   string_container_stack, _most_recent_element, pushTag(self) *)
Definition reset_obj (cfg : bconfig) (b : bstate) : bstate :=
  let h := upd (hp (b_st b)) 0%nat (blank KSoup (c_root cfg)) in
  let pay := pupd (b_pay b) 0%nat (mkpl (c_root cfg) None [] 0 false) in
  push_tag cfg (mkb (mkst h 1) pay [] [] [] [] [] None None) 0%nat.

Definition run_events (cfg : bconfig) (b : bstate) (evs : list event) : bstate :=
  fold_left (step_event cfg) evs b.
(* the end of _feed(): endData(), then popTag() until the root is current *)
Definition finish (cfg : bconfig) (b : bstate) : bstate :=
  let b := end_data cfg b None in
  pop_all (length (b_stack b)) cfg b.

Record soup := mksoup { so_b : bstate; so_meta : meta }.
Inductive cres := CSoup (s : soup) | CRaise (e : exn).

Definition rejected_message (msgs : list str) : exn := ParserRejected msgs.

(* for (markup, original_encoding, declared_html_encoding, contains_replacement_characters)
       in builder.prepare_markup(...):
       self.reset(); self.builder.initialize_soup(self)
       try: self._feed(); success = True; break
       except <c06_ctor_catches> as e: rejections.append(e)
   if not success: raise ParserRejectedMarkup(... "\n ".join(str(e) for e in rejections)) *)
Fixpoint construct_loop (cfg : bconfig) (b : bstate) (rej : list str) (ss : list strategy) (tail : gen_end)
  : cres :=
  match ss with
  | [] =>
      match tail with
      | GenRaise e => CRaise e
      | GenDone => CRaise (rejected_message (rev rej))
      end
  | s :: ss' =>
      let b := reset_obj cfg b in
      match st_out s with
      | Accept evs => CSoup (mksoup (finish cfg (run_events cfg b evs)) (st_meta s))
      | Reject evs msg =>
          if catches c06_ctor_catches exc_ParserRejectedMarkup
          then construct_loop cfg (run_events cfg b evs) (msg :: rej) ss' tail
          else CRaise (ParserRejected [msg])
      | Crash evs e =>
          match e with
          | PyExc c => if catches c06_ctor_catches c
                       then construct_loop cfg (run_events cfg b evs) ([] :: rej) ss' tail
                       else CRaise e
          | ParserRejected _ => CRaise e             (* not produced: Reject is the constructor for that *)
          end
      end
  end.
Definition construct (cfg : bconfig) (b0 : bstate) (ss : list strategy) (tail : gen_end) : cres :=
  construct_loop cfg b0 [] ss tail.

(* the whole constructor with the html.parser builder, the tokenizer's behaviour and UnicodeDammit's
   result being recorded inputs *)
Definition construct_htmlparser (cfg : bconfig) (b0 : bstate) (m : markup) (d : dammit_result)
           (orig : option byte_decoder) (cbs : list callback) (fin : tok_end) : cres * list warning :=
  match preparse m with
  | Raise e => (CRaise e, [])
  | Done ws =>
      let is_str := match m with MStr _ => true | MBytes _ => false end in
      let '(ss, tail) := hp_strategies is_str d (hp_attempt cfg orig cbs fin) in
      (construct cfg b0 ss tail, ws)
  end.
