(* C18 — positions.  [true_pos] is the property's notion: the 1-based line and 0-based column of
   an offset in the parsed text (lines end at '\n' only).  [updatepos] is how the standard
   library's ParserBase tracks (lineno, offset) token by token (_markupbase.updatepos); it is
   oracle code about the interpreter, modelled so that "positions do not drift" can be stated. *)
From Coq Require Import List NArith Bool.
From BS Require Import Base.Sexp.
Import ListNotations.
Open Scope N_scope.

Definition nl : N := 10.

(* number of newlines in s *)
Fixpoint count_nl (s : str) : N :=
  match s with
  | [] => 0
  | c :: s' => (if c =? nl then 1 else 0) + count_nl s'
  end.
(* length of the part of s after its last newline (all of s if there is none), counted from col *)
Fixpoint col_scan (col : N) (s : str) : N :=
  match s with
  | [] => col
  | c :: s' => if c =? nl then col_scan 0 s' else col_scan (col + 1) s'
  end.
Definition tail_len (s : str) : N := col_scan 0 s.

(* the property's position of the end of prefix s, read character by character: a newline starts
   the next line at column 0, any other character advances the column *)
Fixpoint scan (p : N * N) (s : str) : N * N :=
  match s with
  | [] => p
  | c :: s' => if c =? nl then scan (fst p + 1, 0) s' else scan (fst p, snd p + 1) s'
  end.
Definition start_pos : N * N := (1, 0).
Definition pos_after (s : str) : N * N := scan start_pos s.
Definition true_pos (text : str) (offset : nat) : N * N := pos_after (firstn offset text).

(* _markupbase.ParserBase.updatepos(i, j) on the consumed slice rawdata[i:j] *)
Definition updatepos (p : N * N) (tok : str) : N * N :=
  let n := count_nl tok in
  if n =? 0 then (fst p, snd p + N.of_nat (length tok))
  else (fst p + n, tail_len tok).

(* running positions: the value of getpos() before each token when the tokens are consumed one by
   one from (1, 0) *)
Fixpoint running (p : N * N) (toks : list str) : list (N * N) :=
  match toks with
  | [] => []
  | t :: r => p :: running (updatepos p t) r
  end.
(* offsets of the token starts in the concatenated text *)
Fixpoint offsets (o : nat) (toks : list str) : list nat :=
  match toks with
  | [] => []
  | t :: r => o :: offsets (o + length t) r
  end.
