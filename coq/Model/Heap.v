(* C01 / C02 — the concrete object graph of bs4/element.py: every PageElement carries six
   redundant links (parent, contents, previous/next sibling, previous/next element).
   extract (587-633), _last_descendant (657-683) and Tag._insert (1935-2020) are modelled write
   by write, in the order the code performs them. Elements are numbers; a heap is a total
   function with [upd]. *)
From Coq Require Import List NArith Bool Arith.
From BS Require Import Base.Sexp.
Import ListNotations.

Inductive nkind := KTag | KStr (preformatted : bool) | KSoup.

Record cell := mkcell {
  kind : nkind;
  par : option nat;
  kids : list nat;
  ps : option nat;  ns : option nat;      (* previous_sibling / next_sibling *)
  pe : option nat;  ne : option nat;      (* previous_element / next_element *)
  txt : str;                              (* label: tag name or string text *)
  dead : bool                             (* decomposed *)
}.

Definition blank (k : nkind) (t : str) : cell :=
  mkcell k None [] None None None None t false.

Definition heap := nat -> cell.

Definition upd (h : heap) (x : nat) (c : cell) : heap :=
  fun y => if Nat.eqb y x then c else h y.

(* field setters *)
Definition set_par (h : heap) x v := let c := h x in upd h x (mkcell (kind c) v (kids c) (ps c) (ns c) (pe c) (ne c) (txt c) (dead c)).
Definition set_kids (h : heap) x v := let c := h x in upd h x (mkcell (kind c) (par c) v (ps c) (ns c) (pe c) (ne c) (txt c) (dead c)).
Definition set_ps (h : heap) x v := let c := h x in upd h x (mkcell (kind c) (par c) (kids c) v (ns c) (pe c) (ne c) (txt c) (dead c)).
Definition set_ns (h : heap) x v := let c := h x in upd h x (mkcell (kind c) (par c) (kids c) (ps c) v (pe c) (ne c) (txt c) (dead c)).
Definition set_pe (h : heap) x v := let c := h x in upd h x (mkcell (kind c) (par c) (kids c) (ps c) (ns c) v (ne c) (txt c) (dead c)).
Definition set_ne (h : heap) x v := let c := h x in upd h x (mkcell (kind c) (par c) (kids c) (ps c) (ns c) (pe c) v (txt c) (dead c)).
Definition set_dead (h : heap) x := let c := h x in upd h x (mkcell (kind c) None [] None None None None (txt c) true).

Definition oeqb (a b : option nat) : bool :=
  match a, b with
  | None, None => true
  | Some x, Some y => Nat.eqb x y
  | _, _ => false
  end.

Definition is_tag (h : heap) (x : nat) : bool :=
  match kind (h x) with KStr _ => false | _ => true end.

(* Tag.index: position by identity *)
Fixpoint index_of (x : nat) (l : list nat) : option nat :=
  match l with
  | [] => None
  | y :: l' => if Nat.eqb y x then Some 0 else option_map S (index_of x l')
  end.

Fixpoint remove_at {X} (i : nat) (l : list X) : list X :=
  match i, l with
  | _, [] => []
  | O, _ :: l' => l'
  | S i', y :: l' => y :: remove_at i' l'
  end.

Fixpoint insert_at {X} (i : nat) (x : X) (l : list X) : list X :=      (* list.insert(i, x) *)
  match i, l with
  | O, _ => x :: l
  | S i', [] => [x]
  | S i', y :: l' => y :: insert_at i' x l'
  end.

(* the while loop of _last_descendant: follow contents[-1] while it is a non-empty Tag *)
Fixpoint walk_last (fuel : nat) (h : heap) (x : nat) : nat :=
  match fuel with
  | O => x
  | S f =>
      if is_tag h x then
        match rev (kids (h x)) with
        | [] => x
        | y :: _ => walk_last f h y
        end
      else x
  end.

(* _last_descendant(is_initialized, accept_self) *)
Definition last_descendant (fuel : nat) (h : heap) (x : nat) (is_initialized accept_self : bool)
  : option nat :=
  let lc :=
    match (if is_initialized then ns (h x) else None) with
    | Some y => pe (h y)
    | None => Some (walk_last fuel h x)
    end in
  if negb accept_self && oeqb lc (Some x) then None else lc.

(* ---- extract (the parent/_self_index part is done by the caller below) ---- *)
Definition extract_links (fuel : nat) (h : heap) (x : nat) : heap :=
  let last_child := match last_descendant fuel h x true true with Some l => l | None => x end in
  let next_element := ne (h last_child) in
  let h :=
    match pe (h x) with
    | Some q => if negb (oeqb (Some q) next_element) then set_ne h q next_element else h
    | None => h
    end in
  let h :=
    match next_element with
    | Some r => if negb (oeqb (Some r) (pe (h x))) then set_pe h r (pe (h x)) else h
    | None => h
    end in
  let h := set_pe h x None in
  let h := set_ne h last_child None in
  let h := set_par h x None in
  let h :=
    match ps (h x) with
    | Some a => if negb (oeqb (Some a) (ns (h x))) then set_ns h a (ns (h x)) else h
    | None => h
    end in
  let h :=
    match ns (h x) with
    | Some b => if negb (oeqb (Some b) (ps (h x))) then set_ps h b (ps (h x)) else h
    | None => h
    end in
  let h := set_ps h x None in
  set_ns h x None.

Definition extract (fuel : nat) (h : heap) (x : nat) : heap :=
  let h :=
    match par (h x) with
    | Some p =>
        match index_of x (kids (h p)) with
        | Some i => set_kids h p (remove_at i (kids (h p)))
        | None => h                        (* ValueError in Python: unreachable in a consistent tree *)
        end
    | None => h
    end in
  extract_links fuel h x.

(* the walk-up loop of _insert: first next_sibling on the ancestor-or-self chain *)
Fixpoint parents_next_sibling (fuel : nat) (h : heap) (p : nat) : option nat :=
  match fuel with
  | O => None
  | S f =>
      match ns (h p) with
      | Some s => Some s
      | None => match par (h p) with
                | Some q => parents_next_sibling f h q
                | None => None
                end
      end
  end.

(* Tag._insert for a new_child that is a PageElement other than a BeautifulSoup object
   (string wrapping and BeautifulSoup expansion are in Edit.v). Returns None for ValueError. *)
Definition insert1 (fuel : nat) (h : heap) (self : nat) (position : nat) (nc : nat) : option heap :=
  if Nat.eqb nc self then None else
  let position := Nat.min position (length (kids (h self))) in
  (* already somewhere? *)
  let '(stop, position, h) :=
    match par (h nc) with
    | Some p =>
        if Nat.eqb p self then
          match index_of nc (kids (h self)) with
          | Some cur =>
              if Nat.ltb cur position then (false, pred position, extract fuel h nc)
              else if Nat.eqb cur position then (true, position, h)
              else (false, position, extract fuel h nc)
          | None => (false, position, extract fuel h nc)
          end
        else (false, position, extract fuel h nc)
    | None => (false, position, h)
    end in
  if stop then Some h else
  let h := set_par h nc (Some self) in
  let h :=
    match position with
    | O => let h := set_ps h nc None in set_pe h nc (Some self)
    | S pm =>
        let previous_child := nth pm (kids (h self)) 0 in
        let h := set_ps h nc (Some previous_child) in
        let h := set_ns h previous_child (Some nc) in
        set_pe h nc (last_descendant fuel h previous_child false true)
    end in
  let h := match pe (h nc) with Some q => set_ne h q (Some nc) | None => h end in
  let last := match last_descendant fuel h nc false true with Some l => l | None => nc end in
  let h :=
    if Nat.leb (length (kids (h self))) position then
      let h := set_ns h nc None in
      set_ne h last (parents_next_sibling fuel h self)
    else
      let next_child := nth position (kids (h self)) 0 in
      let h := set_ns h nc (Some next_child) in
      let h := set_ps h next_child (Some nc) in
      set_ne h last (Some next_child)
  in
  let h := match ne (h last) with Some r => set_pe h r (Some last) | None => h end in
  Some (set_kids h self (insert_at position nc (kids (h self)))).
